//! W12 seqlock — the real `fuel_core_services::seqlock` source (compiled a second time with its
//! atomics, `yield_now` and spin hints routed to `shuttle`, see build.rs) under shuttle's
//! controlled scheduler: one writer thread, 1–3 reader threads, every atomic operation is a
//! scheduling point decided by a seeded Random or PCT scheduler. Property: C42.
//!
//! shuttle owns the schedule, so this binary does not use simkit's tape; it offers the same
//! command line and file formats as the simkit worlds:
//!
//!   run     --prop C42 --tier quick|thorough [--seed S] [--units N] [--iters N] [--jobs J]
//!           [--evidence FILE] [--replay-dir DIR] [--known FILE]
//!   replay  --file F [--known FILE] [--quiet]
//!   determinism --prop C42 [--tier T] [--units N] [--iters N]
//!   worker  (internal)
//!
//! Exit codes: 0 held on every schedule explored, 1 violation (`VIOLATION property=C42
//! replay=<path>` printed), 2 harness error.

use serde::{
    Deserialize,
    Serialize,
};
use std::{
    collections::{
        BTreeMap,
        BTreeSet,
    },
    io::Write,
    panic::AssertUnwindSafe,
    path::{
        Path,
        PathBuf,
    },
    sync::{
        Arc,
        Mutex,
    },
    time::Instant,
};

/// `std` as the seqlock source sees it: everything is std, except that atomics, thread yields
/// and spin hints are shuttle's (controlled scheduling points) and that `UnsafeCell::get` is a
/// scheduling point as well.
#[allow(unused_imports, dead_code)]
pub mod shim_std {
    pub use ::std::*;
    pub mod cell {
        pub use ::std::cell::*;
        /// `UnsafeCell` whose `get` is a scheduling point: the access to the protected payload
        /// is a memory operation of its own, other threads may run between it and the atomic
        /// operations on the sequence counter (shuttle only switches at its own primitives).
        #[derive(Debug)]
        #[repr(transparent)]
        pub struct UnsafeCell<T>(::std::cell::UnsafeCell<T>);
        impl<T> UnsafeCell<T> {
            pub const fn new(value: T) -> Self {
                UnsafeCell(::std::cell::UnsafeCell::new(value))
            }
            pub fn get(&self) -> *mut T {
                ::shuttle::thread::sleep(::std::time::Duration::ZERO); // = one context switch point
                self.0.get()
            }
            pub fn get_mut(&mut self) -> &mut T {
                self.0.get_mut()
            }
            pub fn into_inner(self) -> T {
                self.0.into_inner()
            }
        }
    }
    pub mod sync {
        pub use ::std::sync::*;
        pub mod atomic {
            pub use ::shuttle::sync::atomic::*;
        }
    }
    pub mod thread {
        pub use ::shuttle::thread::{
            Builder,
            JoinHandle,
            Thread,
            ThreadId,
            current,
            park,
            park_timeout,
            scope,
            sleep,
            spawn,
            yield_now,
        };
        pub use ::std::thread::*;
    }
    pub mod hint {
        pub use ::shuttle::hint::spin_loop;
        pub use ::std::hint::*;
    }
}

/// The seqlock of the working tree, compiled against `shim_std`.
#[allow(dead_code, missing_docs, clippy::all)]
mod seqlock {
    include!(concat!(env!("OUT_DIR"), "/seqlock_under_shuttle.rs"));
}

const WORLD: &str = "w12_seqlock";
const PROP: &str = "C42";
const DEFAULT_SEED: u64 = 0xF0E1;
/// A schedule that takes more steps than this is abandoned (unfair schedule, e.g. a reader
/// spinning while the writer is never chosen) and counted, not judged.
const STEP_BOUND: usize = 20_000;
/// Scheduling points of one undisturbed `read()` (measured by the canary at start-up: two loads
/// of the sequence and one access to the payload).
static READ_STEPS: std::sync::atomic::AtomicU64 = std::sync::atomic::AtomicU64::new(3);

// ------------------------------------------------------------------------------------------
// scenario
// ------------------------------------------------------------------------------------------

#[derive(Clone, Copy, Debug, Serialize, Deserialize, PartialEq, Eq)]
struct Cfg {
    readers: u64,
    writes: u64,
    reads: u64,
}

#[derive(Clone, Copy, Debug, Serialize, Deserialize, PartialEq, Eq)]
enum SchedKind {
    Random,
    Pct(usize),
}

impl SchedKind {
    fn name(&self) -> String {
        match self {
            SchedKind::Random => "random".into(),
            SchedKind::Pct(d) => format!("pct{d}"),
        }
    }
}

/// The payload: two halves that every complete write sets to the same number.
#[derive(Clone, Copy, Debug)]
struct Pair {
    lo: u64,
    hi: u64,
}

#[derive(Clone, Copy, Debug, PartialEq, Eq)]
enum Event {
    /// writer is about to call `write` for value v
    WStart(u64),
    /// first half of v stored (inside the closure)
    WHalf(u64),
    /// second half of v stored (inside the closure)
    WFull(u64),
    /// `write` returned for v
    WDone(u64),
    /// reader r starts a read; c0 = completed-writes counter it loaded just before
    RStart(u64, u64),
    /// reader r got (lo, hi); retried = took more scheduling points than an undisturbed read
    REnd(u64, u64, u64, bool),
    /// the main thread joined everybody
    End,
}

impl Event {
    fn show(&self) -> String {
        match self {
            Event::WStart(v) => format!("W write({v}) begins"),
            Event::WHalf(v) => format!("W   first half of {v} stored"),
            Event::WFull(v) => format!("W   second half of {v} stored"),
            Event::WDone(v) => format!("W write({v}) returned"),
            Event::RStart(r, c) => format!("R{r} read begins (completed writes seen: {c})"),
            Event::REnd(r, lo, hi, retried) => format!(
                "R{r} read returned ({lo},{hi}){}",
                if *retried { " after retrying" } else { "" }
            ),
            Event::End => "all threads joined".into(),
        }
    }
    fn code(&self) -> [u64; 4] {
        match *self {
            Event::WStart(v) => [1, v, 0, 0],
            Event::WHalf(v) => [2, v, 0, 0],
            Event::WFull(v) => [3, v, 0, 0],
            Event::WDone(v) => [4, v, 0, 0],
            Event::RStart(r, c) => [5, r, c, 0],
            Event::REnd(r, lo, hi, t) => [6 + t as u64, r, lo, hi],
            Event::End => [9, 0, 0, 0],
        }
    }
}

#[derive(Clone, Debug, Serialize, Deserialize, PartialEq, Eq)]
struct Violation {
    property: String,
    class: String,
    detail: String,
}

#[derive(Default, Serialize, Deserialize, Clone, Debug)]
struct Stats {
    schedules: u64,
    schedules_abandoned_at_step_bound: u64,
    nontrivial_schedules: u64,
    scheduling_decisions: u64,
    reads: u64,
    reads_overlapping_a_write: u64,
    reads_begun_mid_write: u64,
    reads_retried: u64,
    reads_of_initial_value: u64,
    reads_of_last_value: u64,
    oracle_evaluations: u64,
}

impl Stats {
    fn add(&mut self, o: &Stats) {
        self.schedules += o.schedules;
        self.schedules_abandoned_at_step_bound += o.schedules_abandoned_at_step_bound;
        self.nontrivial_schedules += o.nontrivial_schedules;
        self.scheduling_decisions += o.scheduling_decisions;
        self.reads += o.reads;
        self.reads_overlapping_a_write += o.reads_overlapping_a_write;
        self.reads_begun_mid_write += o.reads_begun_mid_write;
        self.reads_retried += o.reads_retried;
        self.reads_of_initial_value += o.reads_of_initial_value;
        self.reads_of_last_value += o.reads_of_last_value;
        self.oracle_evaluations += o.oracle_evaluations;
    }
}

/// What one execution (schedule) did, and the aggregate of a unit. Shared between the scenario
/// threads and the recording scheduler; a std mutex (no scheduling point, never contended:
/// shuttle runs one thread at a time).
#[derive(Default)]
struct RecInner {
    // current execution
    active: bool,
    sched: Vec<u8>,
    rands: Vec<u64>,
    steps_of: [u64; 16],
    events: Vec<Event>,
    // unit aggregate
    stats: Stats,
    /// fold over (schedule hash, observation hash) of every execution, in order
    fold: u64,
    /// schedule hashes of the non-trivial executions
    nontrivial_sched: BTreeSet<u64>,
    obs: BTreeSet<u64>,
    samples: Vec<serde_json::Value>,
    want_samples: usize,
    known: Vec<String>,
    known_hits: BTreeMap<String, u64>,
    violation: Option<Violation>,
    violation_events: Vec<String>,
    cfg: Option<Cfg>,
}

#[derive(Clone, Default)]
struct Rec(Arc<Mutex<RecInner>>);

fn fnv(h: &mut u64, x: u64) {
    for b in x.to_le_bytes() {
        *h ^= b as u64;
        *h = h.wrapping_mul(0x100000001b3);
    }
}

impl Rec {
    fn lock(&self) -> std::sync::MutexGuard<'_, RecInner> {
        self.0.lock().unwrap_or_else(|e| e.into_inner())
    }
    fn ev(&self, e: Event) {
        self.lock().events.push(e);
    }
    fn steps_of(&self, task: usize) -> u64 {
        self.lock().steps_of[task.min(15)]
    }
    fn begin(&self) {
        let mut g = self.lock();
        g.active = true;
        g.sched.clear();
        g.rands.clear();
        g.steps_of = [0; 16];
        g.events.clear();
    }
    /// Close the books of the execution that just ended (if any).
    fn finish(&self) {
        let mut g = self.lock();
        if !g.active {
            return;
        }
        g.active = false;
        let complete = g.events.last() == Some(&Event::End);
        let mut sh = 0xcbf29ce484222325u64;
        for t in &g.sched {
            fnv(&mut sh, *t as u64);
        }
        for r in &g.rands {
            fnv(&mut sh, *r);
        }
        let mut oh = 0xcbf29ce484222325u64;
        for e in &g.events {
            for c in e.code() {
                fnv(&mut oh, c);
            }
        }
        let mut fold = g.fold;
        fnv(&mut fold, sh);
        fnv(&mut fold, oh);
        g.fold = fold;
        g.stats.schedules += 1;
        g.stats.scheduling_decisions += g.sched.len() as u64;
        if !complete {
            g.stats.schedules_abandoned_at_step_bound += 1;
        }
        // reads that ran concurrently with a write
        let mut writing = false;
        let mut open: BTreeMap<u64, bool> = BTreeMap::new(); // reader -> overlapped so far
        let mut overlapping = 0;
        let mut mid = 0;
        let mut retried = 0;
        let mut reads = 0;
        let mut initial = 0;
        let mut last = 0;
        let writes = g.cfg.map(|c| c.writes).unwrap_or(0);
        for e in &g.events {
            match *e {
                Event::WStart(_) => {}
                Event::WHalf(_) | Event::WFull(_) => {
                    // the closure runs: the sequence is odd and the payload is being changed
                    writing = true;
                    for v in open.values_mut() {
                        *v = true;
                    }
                }
                Event::WDone(_) => {
                    writing = false;
                    for v in open.values_mut() {
                        *v = true;
                    }
                }
                Event::RStart(r, _) => {
                    if writing {
                        mid += 1;
                    }
                    open.insert(r, writing);
                }
                Event::REnd(r, lo, _, t) => {
                    reads += 1;
                    if open.remove(&r).unwrap_or(false) {
                        overlapping += 1;
                    }
                    if t {
                        retried += 1;
                    }
                    if lo == 0 {
                        initial += 1;
                    }
                    if lo == writes {
                        last += 1;
                    }
                }
                Event::End => {}
            }
        }
        g.stats.reads += reads;
        g.stats.reads_overlapping_a_write += overlapping;
        g.stats.reads_begun_mid_write += mid;
        g.stats.reads_retried += retried;
        g.stats.reads_of_initial_value += initial;
        g.stats.reads_of_last_value += last;
        g.obs.insert(oh);
        let nontrivial = complete && overlapping > 0;
        if nontrivial {
            g.stats.nontrivial_schedules += 1;
            g.nontrivial_sched.insert(sh);
            if g.samples.len() < g.want_samples {
                let evs: Vec<String> = g.events.iter().map(|e| e.show()).collect();
                let sched: String = g.sched.iter().map(|t| format!("{t}")).collect();
                let s = serde_json::json!({
                    "config": g.cfg,
                    "schedule_task_ids": sched,
                    "schedule_hash": format!("{sh:016x}"),
                    "observation_hash": format!("{oh:016x}"),
                    "events": evs,
                });
                g.samples.push(s);
            }
        }
    }
}

/// A scheduler that delegates every decision and writes down what was decided.
struct Recording<S> {
    inner: S,
    rec: Rec,
}

impl<S: shuttle::scheduler::Scheduler> shuttle::scheduler::Scheduler for Recording<S> {
    fn new_execution(&mut self) -> Option<shuttle::scheduler::Schedule> {
        self.rec.finish();
        let s = self.inner.new_execution();
        if s.is_some() {
            self.rec.begin();
        }
        s
    }
    fn next_task(
        &mut self,
        runnable: &[&shuttle::scheduler::Task],
        current: Option<shuttle::scheduler::TaskId>,
        is_yielding: bool,
    ) -> Option<shuttle::scheduler::TaskId> {
        let t = self.inner.next_task(runnable, current, is_yielding);
        if let Some(t) = t {
            let id = usize::from(t);
            let mut g = self.rec.lock();
            g.sched.push(id.min(255) as u8);
            g.steps_of[id.min(15)] += 1;
        }
        t
    }
    fn next_u64(&mut self) -> u64 {
        let v = self.inner.next_u64();
        self.rec.lock().rands.push(v);
        v
    }
}

/// One oracle clause. A failure is recorded and turned into a panic of the reader thread, which
/// makes shuttle persist the failing schedule.
fn check(rec: &Rec, class: &str, cond: bool, detail: impl FnOnce() -> String) {
    let mut g = rec.lock();
    if g.violation.is_some() {
        return;
    }
    g.stats.oracle_evaluations += 1;
    if cond {
        return;
    }
    if g.known.iter().any(|k| k == class) {
        *g.known_hits.entry(class.to_string()).or_default() += 1;
        return;
    }
    let d = detail();
    g.violation = Some(Violation {
        property: PROP.into(),
        class: class.into(),
        detail: d.clone(),
    });
    let mut evs: Vec<String> = g.events.iter().map(|e| e.show()).collect();
    evs.push(format!("VIOLATION {PROP} {class}: {d}"));
    g.violation_events = evs;
    drop(g);
    panic!("VIOLATION {PROP} {class}: {d}");
}

/// The program that shuttle schedules: a writer performing `cfg.writes` writes of the values
/// 1, 2, 3.. (each half stored separately, with a scheduling point in between) and
/// `cfg.readers` readers performing `cfg.reads` reads each.
fn scenario(cfg: Cfg, rec: Rec) -> impl Fn() + Send + Sync + 'static {
    use shuttle::rand::RngCore;
    use shuttle::sync::atomic::{
        AtomicU64,
        Ordering,
    };
    move || {
        // SAFETY (contract of SeqLock::new): Pair is Copy and 16 bytes <= 64 bytes.
        let (writer, reader) = unsafe { seqlock::SeqLock::new(Pair { lo: 0, hi: 0 }) };
        // number of writes whose `write` call has returned / has begun
        let completed = Arc::new(AtomicU64::new(0));
        let begun = Arc::new(AtomicU64::new(0));
        let mut handles = Vec::new();
        {
            let completed = completed.clone();
            let begun = begun.clone();
            let rec = rec.clone();
            handles.push(shuttle::thread::spawn(move || {
                for v in 1..=cfg.writes {
                    let r = shuttle::rand::thread_rng().next_u64();
                    let hi_first = r & 1 == 1;
                    let yields = 1 + ((r >> 1) & 1);
                    begun.store(v, Ordering::SeqCst);
                    rec.ev(Event::WStart(v));
                    let rec2 = rec.clone();
                    writer.write(move |d: &mut Pair| {
                        if hi_first {
                            d.hi = v;
                        } else {
                            d.lo = v;
                        }
                        rec2.ev(Event::WHalf(v));
                        // the scheduling point between the two halves of the payload
                        for _ in 0..yields {
                            shuttle::thread::yield_now();
                        }
                        if hi_first {
                            d.lo = v;
                        } else {
                            d.hi = v;
                        }
                        rec2.ev(Event::WFull(v));
                    });
                    rec.ev(Event::WDone(v));
                    completed.store(v, Ordering::SeqCst);
                }
            }));
        }
        for r in 0..cfg.readers {
            let completed = completed.clone();
            let begun = begun.clone();
            let reader = reader.clone();
            let rec = rec.clone();
            handles.push(shuttle::thread::spawn(move || {
                let me = usize::from(shuttle::current::me());
                let mut last_seen = 0u64;
                for k in 0..cfg.reads {
                    // every write counted here returned before this read starts
                    let c0 = completed.load(Ordering::SeqCst);
                    rec.ev(Event::RStart(r, c0));
                    let s0 = rec.steps_of(me);
                    let got = reader.read();
                    let s1 = rec.steps_of(me);
                    rec.ev(Event::REnd(
                        r,
                        got.lo,
                        got.hi,
                        s1 - s0 > READ_STEPS.load(std::sync::atomic::Ordering::Relaxed),
                    ));
                    // every write that the read can have seen has begun by now
                    let b1 = begun.load(Ordering::SeqCst);
                    check(&rec, "torn-read", got.lo == got.hi, || {
                        format!(
                            "reader {r} read #{k} returned ({},{}): the halves belong to different writes",
                            got.lo, got.hi
                        )
                    });
                    check(&rec, "stale-read", got.lo >= c0 && got.hi >= c0, || {
                        format!(
                            "reader {r} read #{k} returned ({},{}) although write {c0} had completed before the read started",
                            got.lo, got.hi
                        )
                    });
                    check(&rec, "value-never-written", got.lo <= b1 && got.hi <= b1, || {
                        format!(
                            "reader {r} read #{k} returned ({},{}) but only writes up to {b1} had begun",
                            got.lo, got.hi
                        )
                    });
                    // consequence of the two clauses above for one reader: the write of the
                    // value it saw had completed before its next read started
                    check(&rec, "reader-went-backwards", got.lo >= last_seen, || {
                        format!(
                            "reader {r} read #{k} returned ({},{}) after its previous read had returned {last_seen}",
                            got.lo, got.hi
                        )
                    });
                    last_seen = got.lo.min(got.hi);
                }
            }));
        }
        for h in handles {
            h.join().expect("scenario thread");
        }
        rec.ev(Event::End);
    }
}

// ------------------------------------------------------------------------------------------
// units of work
// ------------------------------------------------------------------------------------------

fn splitmix(x: &mut u64) -> u64 {
    *x = x.wrapping_add(0x9E3779B97F4A7C15);
    let mut z = *x;
    z = (z ^ (z >> 30)).wrapping_mul(0xBF58476D1CE4E5B9);
    z = (z ^ (z >> 27)).wrapping_mul(0x94D049BB133111EB);
    z ^ (z >> 31)
}

fn mix_seed(base: u64, idx: u64) -> u64 {
    let mut x = base ^ idx.wrapping_mul(0xD6E8FEB86659FD93);
    splitmix(&mut x)
}

fn configs(thorough: bool) -> Vec<Cfg> {
    let (maxw, maxk) = if thorough { (6, 4) } else { (4, 3) };
    let mut v = Vec::new();
    // small configurations first: a violation is reported for the smallest unit index
    for total in 0..=(3 + maxw + maxk) {
        for readers in 1..=3u64 {
            for writes in 1..=maxw {
                for reads in 1..=maxk {
                    if readers + writes + reads == total {
                        v.push(Cfg {
                            readers,
                            writes,
                            reads,
                        });
                    }
                }
            }
        }
    }
    v
}

const KINDS: [SchedKind; 6] = [
    SchedKind::Random,
    SchedKind::Pct(3),
    SchedKind::Random,
    SchedKind::Pct(2),
    SchedKind::Random,
    SchedKind::Pct(4),
];

#[derive(Clone, Copy, Debug)]
struct Plan {
    thorough: bool,
    units: u64,
    iters: u64,
}

impl Plan {
    fn of(tier: &str, units: Option<u64>, iters: Option<u64>) -> Plan {
        let thorough = tier == "thorough";
        let ncfg = configs(thorough).len() as u64;
        let (u, i) = if thorough {
            (ncfg * KINDS.len() as u64 * 14, 2500)
        } else {
            (ncfg * KINDS.len() as u64 * 2, 1500)
        };
        Plan {
            thorough,
            units: units.unwrap_or(u),
            iters: iters.unwrap_or(i),
        }
    }
    fn unit(&self, base: u64, idx: u64) -> (Cfg, SchedKind, u64) {
        let cfgs = configs(self.thorough);
        let n = cfgs.len() as u64;
        let cfg = cfgs[(idx % n) as usize];
        let kind = KINDS[((idx / n) % KINDS.len() as u64) as usize];
        (cfg, kind, mix_seed(base, idx))
    }
}

fn shuttle_config(persist_dir: Option<&Path>) -> shuttle::Config {
    let mut c = shuttle::Config::new();
    c.stack_size = 0x10000;
    c.failure_persistence = match persist_dir {
        Some(d) => shuttle::FailurePersistence::File(Some(d.to_path_buf())),
        None => shuttle::FailurePersistence::None,
    };
    c.max_steps = shuttle::MaxSteps::ContinueAfter(STEP_BOUND);
    c.silence_warnings = true;
    c
}

struct UnitResult {
    rec: Rec,
    panicked: bool,
}

fn run_unit(
    cfg: Cfg,
    kind: SchedKind,
    seed: u64,
    iters: u64,
    known: &[String],
    want_samples: usize,
    persist_dir: Option<&Path>,
) -> UnitResult {
    let rec = Rec::default();
    {
        let mut g = rec.lock();
        g.known = known.to_vec();
        g.want_samples = want_samples;
        g.cfg = Some(cfg);
    }
    let f = scenario(cfg, rec.clone());
    let config = shuttle_config(persist_dir);
    let rec2 = rec.clone();
    let res = std::panic::catch_unwind(AssertUnwindSafe(move || match kind {
        SchedKind::Random => {
            let s = shuttle::scheduler::RandomScheduler::new_from_seed(seed, iters as usize);
            shuttle::Runner::new(Recording { inner: s, rec: rec2 }, config).run(f);
        }
        SchedKind::Pct(d) => {
            let s = shuttle::scheduler::PctScheduler::new_from_seed(seed, d, iters as usize);
            shuttle::Runner::new(Recording { inner: s, rec: rec2 }, config).run(f);
        }
    }));
    rec.finish();
    UnitResult {
        rec,
        panicked: res.is_err(),
    }
}

// ------------------------------------------------------------------------------------------
// panic bookkeeping
// ------------------------------------------------------------------------------------------

static LAST_PANIC: Mutex<Option<(String, String)>> = Mutex::new(None);
static PANIC_VERBOSE: std::sync::atomic::AtomicBool = std::sync::atomic::AtomicBool::new(false);

fn install_panic_hook() {
    std::panic::set_hook(Box::new(|info| {
        let loc = info
            .location()
            .map(|l| format!("{}:{}", l.file(), l.line()))
            .unwrap_or_else(|| "?".into());
        let msg = if let Some(s) = info.payload().downcast_ref::<&str>() {
            s.to_string()
        } else if let Some(s) = info.payload().downcast_ref::<String>() {
            s.clone()
        } else {
            "<non-string panic>".into()
        };
        if PANIC_VERBOSE.load(std::sync::atomic::Ordering::Relaxed) {
            eprintln!("panic at {loc}: {msg}");
        }
        let mut g = LAST_PANIC.lock().unwrap_or_else(|e| e.into_inner());
        if g.is_none() {
            *g = Some((loc, msg));
        }
    }));
}

/// Where did an unexpected panic come from? The generated seqlock file and /repo count as the
/// code under test; everything else is the harness (or shuttle).
fn panic_in_code_under_test(loc: &str) -> Option<String> {
    if loc.contains("seqlock_under_shuttle.rs") {
        return Some("crates/services/src/seqlock.rs".into());
    }
    if let Some(rest) = loc.strip_prefix("/repo/") {
        let file = rest.rsplit_once(':').map(|x| x.0).unwrap_or(rest);
        return Some(file.to_string());
    }
    None
}

// ------------------------------------------------------------------------------------------
// CLI
// ------------------------------------------------------------------------------------------

struct Args {
    map: BTreeMap<String, String>,
    flags: BTreeSet<String>,
}

impl Args {
    fn parse(args: &[String]) -> Self {
        let mut map = BTreeMap::new();
        let mut flags = BTreeSet::new();
        let mut i = 0;
        while i < args.len() {
            let a = &args[i];
            if let Some(k) = a.strip_prefix("--") {
                if i + 1 < args.len() && !args[i + 1].starts_with("--") {
                    map.insert(k.to_string(), args[i + 1].clone());
                    i += 2;
                    continue;
                }
                flags.insert(k.to_string());
            }
            i += 1;
        }
        Args { map, flags }
    }
    fn get(&self, k: &str) -> Option<&str> {
        self.map.get(k).map(|s| s.as_str())
    }
    fn u64(&self, k: &str) -> Option<u64> {
        self.get(k).and_then(parse_u64)
    }
    fn flag(&self, k: &str) -> bool {
        self.flags.contains(k)
    }
}

fn parse_u64(v: &str) -> Option<u64> {
    if let Some(h) = v.strip_prefix("0x") {
        u64::from_str_radix(h, 16).ok()
    } else {
        v.parse::<u64>()
            .ok()
            .or_else(|| v.parse::<i64>().ok().map(|x| x as u64))
    }
}

fn env_seed() -> u64 {
    std::env::var("VERIF_SEED")
        .ok()
        .and_then(|v| parse_u64(&v))
        .unwrap_or(DEFAULT_SEED)
}

fn parse_known(path: Option<&str>, prop: &str) -> Vec<(String, String)> {
    let mut out = Vec::new();
    let Some(path) = path else { return out };
    let Ok(text) = std::fs::read_to_string(path) else {
        return out;
    };
    for line in text.lines() {
        let Some(rest) = line.trim().strip_prefix("known:") else {
            continue;
        };
        let mut p = None;
        let mut c = None;
        let mut desc = Vec::new();
        for tok in rest.split_whitespace() {
            if let Some(v) = tok.strip_prefix("property=") {
                p = Some(v.to_string());
            } else if let Some(v) = tok.strip_prefix("class=") {
                c = Some(v.to_string());
            } else {
                desc.push(tok);
            }
        }
        if let (Some(p), Some(c)) = (p, c) {
            if p == prop {
                out.push((c, desc.join(" ")));
            }
        }
    }
    out
}

#[derive(Serialize, Deserialize, Clone, Debug)]
struct ViolationReport {
    unit: u64,
    unit_seed: u64,
    cfg: Cfg,
    scheduler: SchedKind,
    iters: u64,
    violation: Violation,
    /// shuttle's serialized failing schedule
    schedule: String,
    trace: Vec<String>,
}

#[derive(Serialize, Deserialize, Default, Debug)]
struct WorkerSummary {
    units: u64,
    stats: Stats,
    unit_hashes: Vec<(u64, u64, u64)>,
    hash_file: Option<String>,
    known_hits: BTreeMap<String, u64>,
    samples: Vec<serde_json::Value>,
    violation: Option<ViolationReport>,
    harness_error: Option<String>,
}

#[derive(Serialize, Deserialize)]
struct ReplayFile {
    world: String,
    property: String,
    tier: String,
    base_seed: u64,
    unit: u64,
    unit_seed: u64,
    config: Cfg,
    scheduler: SchedKind,
    iterations_per_unit: u64,
    violation: Violation,
    /// shuttle's failing schedule (`FailurePersistence::File` content); also stored next to
    /// this file as `<name>.schedule.txt` for `shuttle::replay_from_file`
    schedule: String,
    schedule_file: String,
    seqlock_source: String,
    trace: Vec<String>,
}

fn main() {
    // a seed in the environment would silently override the seeds of every scheduler
    unsafe { std::env::remove_var("SHUTTLE_RANDOM_SEED") };
    let argv: Vec<String> = std::env::args().collect();
    let cmd = argv.get(1).cloned().unwrap_or_default();
    let args = Args::parse(&argv[2.min(argv.len())..]);
    install_panic_hook();
    let code = match cmd.as_str() {
        "worker" => worker_main(&args),
        "run" => run_main(&args),
        "replay" => replay_main(&args),
        "determinism" => determinism_main(&args),
        _ => {
            eprintln!("usage: {} run|replay|determinism ... (world {WORLD}; properties [{PROP}])", argv[0]);
            2
        }
    };
    std::process::exit(code)
}

/// The harness must control something: under shuttle one `write` and one `read` consist of
/// several scheduling points. If the shim did not take effect (std atomics), they would be 0.
fn canary(persist_dir: Option<&Path>) -> Result<(), String> {
    let seen = Arc::new(Mutex::new((0usize, 0usize)));
    let seen2 = seen.clone();
    // (shuttle installs its panic hook once per process, with the configuration of the first
    // execution: the canary must use the persistence settings of the real executions)
    let mut config = shuttle_config(persist_dir);
    config.max_steps = shuttle::MaxSteps::FailAfter(1000);
    let r = std::panic::catch_unwind(AssertUnwindSafe(move || {
        let s = shuttle::scheduler::RandomScheduler::new_from_seed(1, 1);
        shuttle::Runner::new(s, config).run(move || {
            let (w, r) = unsafe { seqlock::SeqLock::new(Pair { lo: 0, hi: 0 }) };
            let a = shuttle::current::context_switches();
            w.write(|d: &mut Pair| {
                d.lo = 1;
                d.hi = 1;
            });
            let b = shuttle::current::context_switches();
            let got = r.read();
            let c = shuttle::current::context_switches();
            assert_eq!((got.lo, got.hi), (1, 1));
            *seen2.lock().unwrap() = (b - a, c - b);
        });
    }));
    if r.is_err() {
        return Err("canary execution panicked".into());
    }
    let (w, r) = *seen.lock().unwrap();
    if w < 2 || r < 2 {
        return Err(format!(
            "the seqlock is not under shuttle's control: write() had {w} scheduling points, read() {r} (expected >= 2 each: at least one operation on the sequence counter and the payload access; the current source has 3 and 3); source {}",
            env!("VERIF_SEQLOCK_SRC_USED")
        ));
    }
    READ_STEPS.store(r as u64, std::sync::atomic::Ordering::Relaxed);
    Ok(())
}

fn worker_main(args: &Args) -> i32 {
    let tier = args.get("tier").unwrap_or("quick").to_string();
    let base = args.u64("base-seed").unwrap_or(DEFAULT_SEED);
    let start = args.u64("start").unwrap_or(0);
    let stride = args.u64("stride").unwrap_or(1);
    let count = args.u64("count").unwrap_or(1);
    let plan = Plan::of(&tier, args.u64("units"), args.u64("iters"));
    let nsamples = args.u64("samples").unwrap_or(0) as usize;
    let emit = args.flag("emit-hashes");
    let known: Vec<String> = parse_known(args.get("known"), PROP)
        .into_iter()
        .map(|x| x.0)
        .collect();
    let tmp = PathBuf::from(
        args.get("tmp-dir")
            .map(|s| s.to_string())
            .unwrap_or_else(|| format!("/tmp/w12_seqlock-{}", std::process::id())),
    );
    let persist = tmp.join(format!("persist-{start}"));
    let _ = std::fs::create_dir_all(&persist);
    let mut sum = WorkerSummary::default();
    if let Err(e) = canary(Some(&persist)) {
        sum.harness_error = Some(e);
        println!("SUMMARY {}", serde_json::to_string(&sum).unwrap());
        return 0;
    }
    let mut all_nontrivial: BTreeSet<u64> = BTreeSet::new();
    let mut all_obs: BTreeSet<u64> = BTreeSet::new();
    for k in 0..count {
        let idx = start + k * stride;
        if idx >= plan.units {
            break;
        }
        let (cfg, kind, seed) = plan.unit(base, idx);
        *LAST_PANIC.lock().unwrap_or_else(|e| e.into_inner()) = None;
        let want = nsamples.saturating_sub(sum.samples.len()).min(1);
        let res = run_unit(cfg, kind, seed, plan.iters, &known, want, Some(&persist));
        let mut g = res.rec.lock();
        sum.units += 1;
        sum.stats.add(&g.stats);
        for (k, v) in &g.known_hits {
            *sum.known_hits.entry(k.clone()).or_default() += v;
        }
        if emit {
            sum.unit_hashes.push((idx, g.stats.schedules, g.fold));
        }
        all_nontrivial.extend(g.nontrivial_sched.iter().copied());
        all_obs.extend(g.obs.iter().copied());
        sum.samples.append(&mut g.samples);
        if res.panicked {
            let violation = match g.violation.clone() {
                Some(v) => Some((v, g.violation_events.clone())),
                None => {
                    let p = LAST_PANIC.lock().unwrap_or_else(|e| e.into_inner()).take();
                    let (loc, msg) = p.unwrap_or(("?".into(), "?".into()));
                    match panic_in_code_under_test(&loc) {
                        Some(file) => Some((
                            Violation {
                                property: PROP.into(),
                                class: format!("panic:{file}"),
                                detail: format!("panic at {loc}: {msg}"),
                            },
                            g.events.iter().map(|e| e.show()).collect(),
                        )),
                        None => {
                            sum.harness_error = Some(format!(
                                "unit {idx} ({cfg:?}, {}, seed {seed}): panic in harness/shuttle at {loc}: {msg}",
                                kind.name()
                            ));
                            None
                        }
                    }
                }
            };
            if let Some((v, trace)) = violation {
                // the schedule shuttle persisted for this failure
                let mut files: Vec<PathBuf> = std::fs::read_dir(&persist)
                    .map(|rd| rd.filter_map(|e| e.ok().map(|e| e.path())).collect())
                    .unwrap_or_default();
                files.sort();
                match files.last().and_then(|f| std::fs::read_to_string(f).ok()) {
                    Some(schedule) => {
                        sum.violation = Some(ViolationReport {
                            unit: idx,
                            unit_seed: seed,
                            cfg,
                            scheduler: kind,
                            iters: plan.iters,
                            violation: v,
                            schedule,
                            trace,
                        });
                    }
                    None => {
                        sum.harness_error = Some(format!(
                            "unit {idx}: violation {}:{} but shuttle persisted no schedule in {}",
                            v.property,
                            v.class,
                            persist.display()
                        ));
                    }
                }
            }
            break;
        }
    }
    // distinct hashes go through a file (they can be many)
    let hf = tmp.join(format!("hashes-{start}.bin"));
    let mut bytes = Vec::with_capacity((all_nontrivial.len() + all_obs.len() + 2) * 8);
    bytes.extend_from_slice(&(all_nontrivial.len() as u64).to_le_bytes());
    for h in &all_nontrivial {
        bytes.extend_from_slice(&h.to_le_bytes());
    }
    bytes.extend_from_slice(&(all_obs.len() as u64).to_le_bytes());
    for h in &all_obs {
        bytes.extend_from_slice(&h.to_le_bytes());
    }
    if std::fs::write(&hf, bytes).is_ok() {
        sum.hash_file = Some(hf.to_string_lossy().to_string());
    }
    let _ = std::fs::remove_dir_all(&persist);
    let s = serde_json::to_string(&sum).unwrap();
    let stdout = std::io::stdout();
    let mut lock = stdout.lock();
    writeln!(lock, "SUMMARY {s}").unwrap();
    0
}

fn spawn_workers(
    tier: &str,
    base: u64,
    plan: Plan,
    jobs: u64,
    tmp: &Path,
    extra: &[String],
) -> Result<Vec<WorkerSummary>, String> {
    let exe = std::env::current_exe().map_err(|e| e.to_string())?;
    let jobs = jobs.max(1).min(plan.units.max(1));
    let mut children = Vec::new();
    for j in 0..jobs {
        let count = (plan.units + jobs - 1 - j) / jobs;
        if count == 0 {
            continue;
        }
        let mut c = std::process::Command::new(&exe);
        c.arg("worker")
            .args(["--tier", tier])
            .args(["--base-seed", &base.to_string()])
            .args(["--start", &j.to_string()])
            .args(["--stride", &jobs.to_string()])
            .args(["--count", &count.to_string()])
            .args(["--units", &plan.units.to_string()])
            .args(["--iters", &plan.iters.to_string()])
            .args(["--tmp-dir", &tmp.to_string_lossy()])
            .args(extra)
            .env_remove("SHUTTLE_RANDOM_SEED")
            .stdin(std::process::Stdio::null())
            .stdout(std::process::Stdio::piped())
            .stderr(std::process::Stdio::piped());
        if j < 3 {
            c.args(["--samples", "1"]);
        }
        children.push(c.spawn().map_err(|e| format!("spawn worker: {e}"))?);
    }
    let mut out = Vec::new();
    for ch in children {
        let o = ch.wait_with_output().map_err(|e| e.to_string())?;
        let so = String::from_utf8_lossy(&o.stdout);
        match so.lines().rev().find(|l| l.starts_with("SUMMARY ")) {
            Some(l) => {
                let s: WorkerSummary = serde_json::from_str(&l["SUMMARY ".len()..])
                    .map_err(|e| format!("bad worker summary: {e}"))?;
                out.push(s);
            }
            None => {
                let se = String::from_utf8_lossy(&o.stderr);
                let tail: String = se.lines().rev().take(15).collect::<Vec<_>>().join(" | ");
                return Err(format!(
                    "worker died without summary (status {:?}); stderr tail: {tail}",
                    o.status
                ));
            }
        }
    }
    Ok(out)
}

fn read_hash_file(path: &str, nontrivial: &mut Vec<u64>, obs: &mut Vec<u64>) {
    let Ok(b) = std::fs::read(path) else { return };
    let rd = |i: usize| u64::from_le_bytes(b[i * 8..i * 8 + 8].try_into().unwrap());
    if b.len() < 8 {
        return;
    }
    let n = rd(0) as usize;
    for i in 0..n {
        nontrivial.push(rd(1 + i));
    }
    let m = rd(1 + n) as usize;
    for i in 0..m {
        obs.push(rd(2 + n + i));
    }
}

fn run_main(args: &Args) -> i32 {
    let t0 = Instant::now();
    let prop = args.get("prop").unwrap_or(PROP).to_string();
    if prop != PROP {
        eprintln!("world {WORLD} has no oracle for {prop}");
        return 2;
    }
    let tier = args
        .get("tier")
        .map(|s| s.to_string())
        .or_else(|| std::env::var("VERIF_TIER").ok())
        .unwrap_or_else(|| "quick".into());
    let tier = if tier == "thorough" { "thorough" } else { "quick" }.to_string();
    let base = args.u64("seed").unwrap_or_else(env_seed);
    let plan = Plan::of(&tier, args.u64("units").or(args.u64("runs")), args.u64("iters"));
    let jobs = args.u64("jobs").unwrap_or_else(|| {
        std::thread::available_parallelism()
            .map(|n| n.get() as u64)
            .unwrap_or(8)
    });
    let evidence_path = args
        .get("evidence")
        .map(|s| s.to_string())
        .unwrap_or_else(|| format!("/verif/evidence/{prop}.json"));
    let replay_dir = args.get("replay-dir").unwrap_or("/verif/replays").to_string();
    let known_path = args
        .get("known")
        .unwrap_or("/verif/known-findings.txt")
        .to_string();
    let known = parse_known(Some(&known_path), &prop);
    println!(
        "[{WORLD}] property={prop} tier={tier} base_seed={base} units={} schedules_per_unit={} jobs={jobs}",
        plan.units, plan.iters
    );
    let tmp = PathBuf::from(format!("/tmp/w12_seqlock-{}", std::process::id()));
    let _ = std::fs::create_dir_all(&tmp);
    let extra: Vec<String> = vec!["--known".into(), known_path.clone()];
    let sums = match spawn_workers(&tier, base, plan, jobs, &tmp, &extra) {
        Ok(s) => s,
        Err(e) => {
            println!("HARNESS-ERROR {e}");
            let _ = std::fs::remove_dir_all(&tmp);
            return 2;
        }
    };
    let mut stats = Stats::default();
    let mut units = 0;
    let mut known_hits: BTreeMap<String, u64> = BTreeMap::new();
    let mut samples = Vec::new();
    let mut nontrivial: Vec<u64> = Vec::new();
    let mut obs: Vec<u64> = Vec::new();
    let mut best: Option<ViolationReport> = None;
    for s in sums {
        if let Some(e) = &s.harness_error {
            println!("HARNESS-ERROR {e}");
            let _ = std::fs::remove_dir_all(&tmp);
            return 2;
        }
        units += s.units;
        stats.add(&s.stats);
        for (k, v) in &s.known_hits {
            *known_hits.entry(k.clone()).or_default() += v;
        }
        samples.extend(s.samples);
        if let Some(f) = &s.hash_file {
            read_hash_file(f, &mut nontrivial, &mut obs);
        }
        if let Some(v) = s.violation {
            if best.as_ref().map(|b| v.unit < b.unit).unwrap_or(true) {
                best = Some(v);
            }
        }
    }
    let _ = std::fs::remove_dir_all(&tmp);
    nontrivial.sort_unstable();
    nontrivial.dedup();
    obs.sort_unstable();
    obs.dedup();
    let wall = t0.elapsed().as_secs_f64();
    let mut replay_path = None;
    let mut code = 0;
    if let Some(v) = &best {
        let _ = std::fs::create_dir_all(&replay_dir);
        let path = format!("{replay_dir}/{prop}-{WORLD}-{:x}.json", v.unit_seed);
        let sched_path = format!("{replay_dir}/{prop}-{WORLD}-{:x}.schedule.txt", v.unit_seed);
        let rf = ReplayFile {
            world: WORLD.into(),
            property: prop.clone(),
            tier: tier.clone(),
            base_seed: base,
            unit: v.unit,
            unit_seed: v.unit_seed,
            config: v.cfg,
            scheduler: v.scheduler,
            iterations_per_unit: v.iters,
            violation: v.violation.clone(),
            schedule: v.schedule.clone(),
            schedule_file: sched_path.clone(),
            seqlock_source: env!("VERIF_SEQLOCK_SRC_USED").into(),
            trace: v.trace.clone(),
        };
        if let Err(e) = std::fs::write(&sched_path, &v.schedule)
            .and_then(|_| std::fs::write(&path, serde_json::to_string_pretty(&rf).unwrap()))
        {
            println!("HARNESS-ERROR cannot write replay file {path}: {e}");
            return 2;
        }
        // the replay file must reproduce the violation in a fresh process
        let exe = std::env::current_exe().unwrap();
        let st = std::process::Command::new(exe)
            .args(["replay", "--file", &path, "--known", &known_path, "--quiet"])
            .env_remove("SHUTTLE_RANDOM_SEED")
            .stdout(std::process::Stdio::null())
            .stderr(std::process::Stdio::null())
            .status();
        match st {
            Ok(s) if s.code() == Some(1) => {}
            other => {
                println!(
                    "HARNESS-ERROR replay of {path} in a fresh process did not reproduce the violation ({other:?})"
                );
                return 2;
            }
        }
        replay_path = Some(path);
        code = 1;
    }
    let samples: Vec<serde_json::Value> = if samples.is_empty() {
        vec![serde_json::json!("no sample recorded")]
    } else {
        samples
    };
    let mut oracle = BTreeMap::new();
    oracle.insert(prop.clone(), stats.oracle_evaluations);
    let cfgs = configs(plan.thorough);
    let ev = serde_json::json!({
        "property_id": prop,
        "tier": tier,
        "seed": base as i64,
        "level": "exploration",
        "coverage": {
            "evaluations": stats.schedules,
            "distinct_nontrivial": nontrivial.len(),
            "rule": format!(
                "each evaluation is one complete execution of the writer/readers program under one thread schedule chosen by a seeded shuttle scheduler (units rotate over {} configurations (readers 1-3, writes 1-{}, reads per reader 1-{}) and the schedulers random, pct(3), random, pct(2), random, pct(4); unit seed = mix(VERIF_SEED, unit index), {} schedules per unit); a schedule is non-trivial when it ran to the end and at least one read() was in progress (between its call and its return) while the writer's closure was changing the payload or write() returned; distinct = distinct FNV-64 hashes of the full sequence of scheduled thread ids and random draws among those schedules",
                cfgs.len(), cfgs.iter().map(|c| c.writes).max().unwrap_or(0), cfgs.iter().map(|c| c.reads).max().unwrap_or(0), plan.iters),
            "samples": samples,
            "world": WORLD,
            "oracle_evaluations": oracle,
            "faults_fired": {},
            "probes": {
                "reads": stats.reads,
                "reads_overlapping_a_write": stats.reads_overlapping_a_write,
                "reads_begun_mid_write": stats.reads_begun_mid_write,
                "reads_retried": stats.reads_retried,
                "reads_of_initial_value": stats.reads_of_initial_value,
                "reads_of_last_value": stats.reads_of_last_value,
                "schedules_abandoned_at_step_bound": stats.schedules_abandoned_at_step_bound,
                "nontrivial_schedules": stats.nontrivial_schedules,
            },
            "distinct_observation_traces": obs.len(),
            "scheduling_decisions_total": stats.scheduling_decisions,
            "units": units,
            "schedules_per_unit": plan.iters,
            "runs_per_hour": if wall > 0.0 { (stats.schedules as f64) / wall * 3600.0 } else { 0.0 },
            "real_components": [
                "fuel_core_services::seqlock (SeqLock::new, SeqLockWriter::write, SeqLockReader::read) — the file of the working tree, compiled with std::sync::atomic / thread::yield_now / hint::spin_loop resolved to shuttle",
            ],
            "stubs": [
                "OS thread scheduler (shuttle: one thread runs at a time, a scheduling point before every atomic operation and yield)",
                "memory model: sequentially consistent interleavings only (shuttle treats every Ordering as SeqCst; fences are no-ops)",
                "payload: (u64,u64) whose halves are stored separately by the write closure with 1-2 yields in between; the reader's copy of the payload is one step",
            ],
            "seqlock_source": env!("VERIF_SEQLOCK_SRC_USED"),
            "known_finding_hits": known_hits,
            "jobs": jobs,
            "violation": best.as_ref().map(|v| serde_json::json!({
                "class": v.violation.class, "detail": v.violation.detail,
                "unit": v.unit, "seed": v.unit_seed, "config": v.cfg, "scheduler": v.scheduler.name(),
                "replay": replay_path})),
        },
        "assumptions": [
            "one writer thread (the API contract: SeqLockWriter is not Clone), 1-3 reader threads, bounded numbers of writes and reads",
            "shuttle explores sequentially consistent interleavings only; reorderings permitted by the Acquire/Release/AcqRel orderings and fences of the implementation, and torn hardware reads of the payload, are outside its reach",
            "write closures do not panic",
            "'completed before the read started' is measured with a counter the writer stores after write() returned and the reader loads before read() (a lower bound of the true last completed write)",
            "sampling of schedules (random + PCT), not exhaustive: a clean batch is evidence, not proof",
        ],
        "wall_s": wall,
        "violations": if best.is_some() { 1 } else { 0 },
    });
    if let Some(dir) = Path::new(&evidence_path).parent() {
        let _ = std::fs::create_dir_all(dir);
    }
    if let Err(e) = std::fs::write(&evidence_path, serde_json::to_string_pretty(&ev).unwrap()) {
        println!("HARNESS-ERROR cannot write evidence {evidence_path}: {e}");
        return 2;
    }
    for (class, desc) in &known {
        let hits = known_hits.get(class).copied().unwrap_or(0);
        println!("KNOWN-FINDING: property={prop} class={class} hits={hits} {desc}");
    }
    println!(
        "[{WORLD}] {} schedules in {units} units, {} distinct non-trivial schedules, {} distinct observation traces, {} reads ({} overlapping a write, {} retried), {} oracle evaluations, {:.1}s",
        stats.schedules,
        nontrivial.len(),
        obs.len(),
        stats.reads,
        stats.reads_overlapping_a_write,
        stats.reads_retried,
        stats.oracle_evaluations,
        wall
    );
    if let (Some(v), Some(p)) = (&best, &replay_path) {
        println!(
            "violation class={} detail={} (unit {} {:?} {})",
            v.violation.class,
            v.violation.detail,
            v.unit,
            v.cfg,
            v.scheduler.name()
        );
        println!("VIOLATION property={prop} replay={p}");
    }
    code
}

fn replay_main(args: &Args) -> i32 {
    let Some(file) = args.get("file") else {
        eprintln!("--file required");
        return 2;
    };
    let quiet = args.flag("quiet");
    let text = match std::fs::read_to_string(file) {
        Ok(t) => t,
        Err(e) => {
            eprintln!("cannot read {file}: {e}");
            return 2;
        }
    };
    let rf: ReplayFile = match serde_json::from_str(&text) {
        Ok(r) => r,
        Err(e) => {
            eprintln!("bad replay file: {e}");
            return 2;
        }
    };
    if rf.world != WORLD {
        eprintln!("replay file is for world {}, this is {WORLD}", rf.world);
        return 2;
    }
    if !quiet {
        PANIC_VERBOSE.store(true, std::sync::atomic::Ordering::Relaxed);
    }
    if let Err(e) = canary(None) {
        println!("HARNESS-ERROR {e}");
        return 2;
    }
    let known: Vec<String> = parse_known(args.get("known"), &rf.property)
        .into_iter()
        .map(|x| x.0)
        .collect();
    // shuttle::replay_from_file wants a file: the one next to the replay file, or a copy of
    // the schedule embedded in it
    let mut sched_file = PathBuf::from(&rf.schedule_file);
    let mut temp = None;
    if std::fs::read_to_string(&sched_file).ok().as_deref() != Some(rf.schedule.as_str()) {
        let p = PathBuf::from(format!("/tmp/w12_seqlock-replay-{}.txt", std::process::id()));
        if let Err(e) = std::fs::write(&p, &rf.schedule) {
            eprintln!("cannot write {}: {e}", p.display());
            return 2;
        }
        sched_file = p.clone();
        temp = Some(p);
    }
    let rec = Rec::default();
    {
        let mut g = rec.lock();
        g.known = known;
        g.cfg = Some(rf.config);
    }
    let f = scenario(rf.config, rec.clone());
    *LAST_PANIC.lock().unwrap_or_else(|e| e.into_inner()) = None;
    let rec2 = rec.clone();
    let res = std::panic::catch_unwind(AssertUnwindSafe(|| {
        // what shuttle::replay_from_file does, with this harness' Config and recorder
        let mut s = shuttle::scheduler::ReplayScheduler::new_from_file(&sched_file)
            .expect("could not load schedule from file");
        // if the code changed since the schedule was recorded (e.g. the defect was repaired)
        // the schedule may not fit any more: follow it as far as it goes, then stop
        s.set_allow_incomplete();
        shuttle::Runner::new(Recording { inner: s, rec: rec2 }, shuttle_config(None)).run(f);
    }));
    if let Some(t) = temp {
        let _ = std::fs::remove_file(t);
    }
    let g = rec.lock();
    let events: Vec<String> = if g.violation_events.is_empty() {
        g.events.iter().map(|e| e.show()).collect()
    } else {
        g.violation_events.clone()
    };
    if !quiet {
        println!(
            "  config {:?}, scheduler {} (unit {} seed {}), seqlock source {}",
            rf.config,
            rf.scheduler.name(),
            rf.unit,
            rf.unit_seed,
            env!("VERIF_SEQLOCK_SRC_USED")
        );
        for l in &events {
            println!("  {l}");
        }
    }
    match (&g.violation, res.is_err()) {
        (Some(v), _) => {
            if !quiet {
                if v.class == rf.violation.class {
                    println!("reproduced: class={} detail={}", v.class, v.detail);
                    println!("trace identical to recorded trace: {}", events == rf.trace);
                } else {
                    println!(
                        "different violation on replay: class={} detail={} (recorded class {})",
                        v.class, v.detail, rf.violation.class
                    );
                }
            }
            println!("VIOLATION property={} replay={file}", rf.property);
            1
        }
        (None, true) => {
            let p = LAST_PANIC.lock().unwrap_or_else(|e| e.into_inner()).take();
            let (loc, msg) = p.unwrap_or(("?".into(), "?".into()));
            if panic_in_code_under_test(&loc).is_some() {
                println!("panic in the code under test at {loc}: {msg}");
                println!("VIOLATION property={} replay={file}", rf.property);
                1
            } else {
                println!("HARNESS-ERROR replay panicked at {loc}: {msg} (schedule does not fit the current seqlock source?)");
                2
            }
        }
        (None, false) => {
            if g.events.last() != Some(&Event::End) {
                println!(
                    "the recorded schedule no longer fits the program (it ended or named a thread that cannot run before all threads finished): the seqlock source changed since it was recorded"
                );
            }
            println!(
                "replay did not violate {} (recorded class {})",
                rf.property, rf.violation.class
            );
            0
        }
    }
}

fn determinism_main(args: &Args) -> i32 {
    let tier = args.get("tier").unwrap_or("quick").to_string();
    let base = args.u64("seed").unwrap_or_else(env_seed);
    let plan = Plan::of(&tier, args.u64("units").or(args.u64("runs")), args.u64("iters"));
    let known_path = args
        .get("known")
        .unwrap_or("/verif/known-findings.txt")
        .to_string();
    let tmp = PathBuf::from(format!("/tmp/w12_seqlock-{}", std::process::id()));
    let _ = std::fs::create_dir_all(&tmp);
    let extra: Vec<String> = vec!["--known".into(), known_path, "--emit-hashes".into()];
    let mut maps: Vec<BTreeMap<u64, (u64, u64)>> = Vec::new();
    for jobs in [16u64, 5u64] {
        match spawn_workers(&tier, base, plan, jobs, &tmp, &extra) {
            Ok(sums) => {
                let mut m = BTreeMap::new();
                for s in sums {
                    if let Some(e) = s.harness_error {
                        println!("HARNESS-ERROR {e}");
                        return 2;
                    }
                    if let Some(v) = s.violation {
                        println!("HARNESS-ERROR determinism run hit a violation in unit {}: {}", v.unit, v.violation.class);
                        return 2;
                    }
                    for (i, n, h) in s.unit_hashes {
                        m.insert(i, (n, h));
                    }
                }
                maps.push(m);
            }
            Err(e) => {
                println!("HARNESS-ERROR {e}");
                return 2;
            }
        }
    }
    let _ = std::fs::remove_dir_all(&tmp);
    let mut diverged = 0;
    let mut compared = 0;
    let mut schedules = 0;
    for (i, a) in &maps[0] {
        if let Some(b) = maps[1].get(i) {
            compared += 1;
            schedules += a.0;
            if a != b {
                diverged += 1;
                if diverged <= 10 {
                    println!(
                        "DIVERGENCE unit {i} seed={}: {} schedules hash {:016x} vs {} schedules hash {:016x}",
                        mix_seed(base, *i), a.0, a.1, b.0, b.1
                    );
                }
            }
        }
    }
    println!(
        "[{WORLD}] determinism property={PROP}: {compared} units ({schedules} schedules) executed twice (16 and 5 worker processes) with the same seeds; schedule counts and hashes of (schedule, observations) compared; {diverged} diverged"
    );
    if diverged > 0 || compared == 0 { 2 } else { 0 }
}
