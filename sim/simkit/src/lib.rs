//! simkit — deterministic-simulation kit shared by all worlds.
//!
//! * `tape`  : the one PRNG-driven choice sequence that decides a run; replay + shrinking.
//! * `Ctx`   : what a world sees during one run (tape, event log/trace hash, counters, oracle).
//! * `cli`   : the harness main: fan-out over worker processes, minimisation, replay files,
//!             evidence files, known-findings handling.
//! * `clock` : simulated wall clock (`clock_gettime` interposition, feature `simclock`).

pub mod cli;
pub mod clock;
pub mod minimise;
pub mod tape;

use std::collections::BTreeMap;

pub use tape::{Rng, Tape, mix_seed};

#[derive(Clone, Debug, serde::Serialize, serde::Deserialize, PartialEq, Eq)]
pub struct Violation {
    pub property: String,
    /// Stable signature of the violated oracle clause (used for known-findings and for
    /// "same violation class" during minimisation).
    pub class: String,
    pub detail: String,
}

#[derive(Clone, Copy, PartialEq, Eq, Debug)]
pub enum Tier {
    Quick,
    Thorough,
}

impl Tier {
    pub fn as_str(&self) -> &'static str {
        match self {
            Tier::Quick => "quick",
            Tier::Thorough => "thorough",
        }
    }
}

/// FNV-1a 64.
#[derive(Clone, Copy)]
pub struct Fnv(pub u64);
impl Default for Fnv {
    fn default() -> Self {
        Fnv(0xcbf29ce484222325)
    }
}
impl Fnv {
    pub fn write(&mut self, bytes: &[u8]) {
        for b in bytes {
            self.0 ^= *b as u64;
            self.0 = self.0.wrapping_mul(0x100000001b3);
        }
    }
}

pub fn fnv64(bytes: &[u8]) -> u64 {
    let mut f = Fnv::default();
    f.write(bytes);
    f.0
}

/// Per-run context handed to a world.
pub struct Ctx {
    pub tape: Tape,
    /// Property the check is about (a world may use this to bias its workload); oracles of all
    /// properties of the world are still evaluated.
    pub prop: String,
    pub tier: Tier,
    pub keep_log: bool,
    pub log: Vec<String>,
    pub trace: Fnv,
    pub events: u64,
    pub ops: u64,
    pub sim_ms: u64,
    pub oracle_evals: BTreeMap<String, u64>,
    pub faults: BTreeMap<String, u64>,
    pub probes: BTreeMap<String, u64>,
    pub violations: Vec<Violation>,
    /// Known-finding classes (for `prop`): a failed check of such a class is counted in
    /// `known_hits` instead of `violations`.
    pub known: Vec<String>,
    pub known_hits: BTreeMap<String, u64>,
    /// Property that "owns" the operation being executed: a panic in /repo code is attributed
    /// to it (empty => the property under check).
    pub panic_scope: String,
}

impl Ctx {
    pub fn new(tape: Tape, prop: &str, tier: Tier, keep_log: bool, known: Vec<String>) -> Self {
        Ctx {
            tape,
            prop: prop.to_string(),
            tier,
            keep_log,
            log: Vec::new(),
            trace: Fnv::default(),
            events: 0,
            ops: 0,
            sim_ms: 0,
            oracle_evals: BTreeMap::new(),
            faults: BTreeMap::new(),
            probes: BTreeMap::new(),
            violations: Vec::new(),
            known,
            known_hits: BTreeMap::new(),
            panic_scope: String::new(),
        }
    }

    /// Record an event: hashed into the trace, kept verbatim only when `keep_log`.
    /// Never draws from the tape and never reads a clock.
    pub fn ev(&mut self, s: impl AsRef<str>) {
        let s = s.as_ref();
        self.trace.write(s.as_bytes());
        self.trace.write(b"\n");
        self.events += 1;
        if self.keep_log && self.log.len() < 4000 {
            self.log.push(s.to_string());
        }
    }
    pub fn scope(&mut self, property: &str) {
        self.panic_scope.clear();
        self.panic_scope.push_str(property);
    }
    /// An operation of the workload (counts towards "non-trivial").
    pub fn op(&mut self, s: impl AsRef<str>) {
        self.ops += 1;
        self.ev(s);
    }
    pub fn fault(&mut self, kind: &str) {
        *self.faults.entry(kind.to_string()).or_default() += 1;
    }
    pub fn probe(&mut self, name: &str) {
        *self.probes.entry(name.to_string()).or_default() += 1;
    }
    pub fn probe_n(&mut self, name: &str, n: u64) {
        *self.probes.entry(name.to_string()).or_default() += n;
    }

    /// Evaluate one oracle clause of `property`. Returns `cond` (or true if the failure is a
    /// listed known finding, so the world can carry on).
    pub fn check(
        &mut self,
        property: &str,
        class: &str,
        cond: bool,
        detail: impl FnOnce() -> String,
    ) -> bool {
        *self.oracle_evals.entry(property.to_string()).or_default() += 1;
        if cond {
            return true;
        }
        if property == self.prop && self.known.iter().any(|k| k == class) {
            *self.known_hits.entry(class.to_string()).or_default() += 1;
            self.ev(format!("KNOWN {property} {class}"));
            return true;
        }
        let d = detail();
        self.ev(format!("VIOLATION {property} {class}: {d}"));
        self.violations.push(Violation {
            property: property.to_string(),
            class: class.to_string(),
            detail: d,
        });
        false
    }
    pub fn violate(&mut self, property: &str, class: &str, detail: String) {
        self.check(property, class, false, || detail);
    }
    /// True once a violation of the property under check was recorded (worlds stop then).
    pub fn failed(&self) -> bool {
        self.violations.iter().any(|v| v.property == self.prop)
    }
    pub fn first_violation(&self) -> Option<&Violation> {
        self.violations.iter().find(|v| v.property == self.prop)
    }
    pub fn evals_for_prop(&self) -> u64 {
        self.oracle_evals.get(&self.prop).copied().unwrap_or(0)
    }
}

/// A world: real components wired to simulated parties.
pub trait World: Sync {
    fn name(&self) -> &'static str;
    /// Property ids this world has oracles for.
    fn properties(&self) -> Vec<&'static str>;
    /// One simulated history. Must be a pure function of (code, ctx.tape, ctx.prop, ctx.tier).
    fn run(&self, ctx: &mut Ctx);
    fn real_components(&self) -> Vec<&'static str>;
    fn stubs(&self) -> Vec<&'static str>;
    /// Default number of runs for (property, tier).
    fn default_runs(&self, prop: &str, tier: Tier) -> u64;
    /// A run is non-trivial when ops >= this and the property's oracle was evaluated.
    fn nontrivial_min_ops(&self, _prop: &str) -> u64 {
        3
    }
    fn level_note(&self, _prop: &str) -> String {
        String::new()
    }
    /// Extra assumptions to be listed in the evidence.
    fn assumptions(&self, _prop: &str) -> Vec<String> {
        Vec::new()
    }
    /// If true the world uses process-global state (e.g. the sim clock) and must not be run on
    /// several threads of one process. All worlds are run one-run-at-a-time per process anyway.
    fn uses_global_clock(&self) -> bool {
        false
    }
}
