//! Choice-sequence shrinking (Hypothesis style): delete chunks, zero values, halve values,
//! while the caller's predicate ("same violation class still occurs") holds.

use std::time::{Duration, Instant};

pub struct Budget {
    pub max_execs: u64,
    pub max_wall: Duration,
}

/// `test(tape)` returns Some(canonical tape actually consumed) if the violation persists.
pub fn minimise(
    start: Vec<u64>,
    mut test: impl FnMut(&[u64]) -> Option<Vec<u64>>,
    budget: Budget,
) -> (Vec<u64>, u64) {
    let t0 = Instant::now();
    let mut execs = 0u64;
    let mut cur = start;
    let mut try_cand = |cand: &[u64], execs: &mut u64| -> Option<Vec<u64>> {
        if *execs >= budget.max_execs || t0.elapsed() > budget.max_wall {
            return None;
        }
        *execs += 1;
        test(cand)
    };
    // trim trailing zeros (replay pads with zeros anyway)
    let trim = |v: &mut Vec<u64>| {
        while v.last() == Some(&0) {
            v.pop();
        }
    };
    trim(&mut cur);
    let mut improved = true;
    while improved {
        improved = false;
        // 1. truncate tail
        let mut keep = cur.len() / 2;
        while keep > 0 && keep < cur.len() {
            let cand = cur[..keep].to_vec();
            if let Some(mut c) = try_cand(&cand, &mut execs) {
                trim(&mut c);
                if c.len() < cur.len() {
                    cur = c;
                    improved = true;
                    keep = cur.len() / 2;
                    continue;
                }
            }
            keep += (cur.len() - keep).div_ceil(2);
            if keep >= cur.len() {
                break;
            }
        }
        // 2. delete chunks
        let mut size = (cur.len() / 2).max(1);
        while size >= 1 {
            let mut i = 0;
            while i + size <= cur.len() {
                let mut cand = cur.clone();
                cand.drain(i..i + size);
                if let Some(mut c) = try_cand(&cand, &mut execs) {
                    trim(&mut c);
                    if c.len() < cur.len() || c < cur {
                        cur = c;
                        improved = true;
                        continue;
                    }
                }
                i += size;
            }
            if size == 1 {
                break;
            }
            size /= 2;
        }
        // 3. zero blocks then single values
        let mut size = (cur.len() / 4).max(1);
        loop {
            let mut i = 0;
            while i < cur.len() {
                let end = (i + size).min(cur.len());
                if cur[i..end].iter().any(|v| *v != 0) {
                    let mut cand = cur.clone();
                    for v in &mut cand[i..end] {
                        *v = 0;
                    }
                    if let Some(mut c) = try_cand(&cand, &mut execs) {
                        trim(&mut c);
                        if c.len() < cur.len() || c < cur {
                            cur = c;
                            improved = true;
                        }
                    }
                }
                i += size;
            }
            if size == 1 {
                break;
            }
            size /= 2;
        }
        // 4. shrink single values (halve, decrement)
        let mut i = 0;
        while i < cur.len() {
            let v = cur[i];
            if v > 0 {
                for nv in [v / 2, v - 1] {
                    if nv >= cur[i] {
                        continue;
                    }
                    let mut cand = cur.clone();
                    cand[i] = nv;
                    if let Some(mut c) = try_cand(&cand, &mut execs) {
                        trim(&mut c);
                        if c.len() < cur.len() || c < cur {
                            cur = c;
                            improved = true;
                            break;
                        }
                    }
                }
            }
            i += 1;
        }
        if execs >= budget.max_execs || t0.elapsed() > budget.max_wall {
            break;
        }
    }
    (cur, execs)
}
