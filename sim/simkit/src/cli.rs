//! Harness main shared by all world binaries.
//!
//! Sub-commands:
//!   run     --prop P --tier quick|thorough [--runs N] [--jobs J] [--max-wall-s S]
//!           [--evidence FILE] [--replay-dir DIR] [--known FILE] [--no-minimise]
//!   worker  (internal) --prop P --tier T --base-seed S --start A --count N [--emit-hashes]
//!   replay  --file F          exit 1 + VIOLATION line when the recorded violation reproduces
//!   determinism --prop P --tier T --runs N   two executions of each seed, different process
//!           layouts, byte-identical trace hashes required (exit 2 otherwise)
//!
//! Exit codes: 0 property held on everything explored, 1 violation (VIOLATION line printed),
//! 2 harness error (build/replay divergence/panic inside /verif code).

use crate::{
    Ctx,
    Tape,
    Tier,
    Violation,
    World,
    minimise,
    mix_seed,
};
use serde::{
    Deserialize,
    Serialize,
};
use std::{
    collections::{
        BTreeMap,
        BTreeSet,
    },
    io::Write,
    panic::AssertUnwindSafe,
    sync::Mutex,
    time::{
        Duration,
        Instant,
    },
};

pub const DEFAULT_SEED: u64 = 0xF0E1;

static LAST_PANIC: Mutex<Option<(String, String)>> = Mutex::new(None);
static PANIC_VERBOSE: std::sync::atomic::AtomicBool =
    std::sync::atomic::AtomicBool::new(false);

fn install_panic_hook() {
    std::panic::set_hook(Box::new(|info| {
        let loc = info
            .location()
            .map(|l| format!("{}:{}", l.file(), l.line()))
            .unwrap_or_else(|| "?".into());
        let msg = if let Some(s) = info.payload().downcast_ref::<&str>() {
            s.to_string()
        } else if let Some(s) = info.payload().downcast_ref::<String>() {
            s.clone()
        } else {
            "<non-string panic>".into()
        };
        if PANIC_VERBOSE.load(std::sync::atomic::Ordering::Relaxed) {
            eprintln!("panic at {loc}: {msg}");
        }
        let mut g = LAST_PANIC.lock().unwrap_or_else(|e| e.into_inner());
        if g.is_none() {
            *g = Some((loc, msg));
        }
    }));
}

#[derive(Serialize, Deserialize, Clone, Debug)]
pub struct RunRecord {
    pub idx: u64,
    pub seed: u64,
    pub hash: u64,
    pub ops: u64,
    pub events: u64,
    pub evals: u64,
    pub tape_len: usize,
}

#[derive(Serialize, Deserialize, Clone, Debug)]
pub struct ViolationReport {
    pub idx: u64,
    pub seed: u64,
    pub violation: Violation,
    pub tape: Vec<u64>,
    pub orig_tape_len: usize,
    pub min_execs: u64,
    pub log: Vec<String>,
}

#[derive(Serialize, Deserialize, Default, Debug)]
struct WorkerSummary {
    runs: u64,
    nontrivial_hashes: Vec<u64>,
    all_hashes: Vec<(u64, u64)>,
    ops_total: u64,
    events_total: u64,
    sim_ms_total: u64,
    tape_len_total: u64,
    oracle_evals: BTreeMap<String, u64>,
    faults: BTreeMap<String, u64>,
    probes: BTreeMap<String, u64>,
    known_hits: BTreeMap<String, u64>,
    other_property_violations: BTreeMap<String, u64>,
    samples: Vec<serde_json::Value>,
    violation: Option<ViolationReport>,
    harness_error: Option<String>,
    /// set by the master when the worker process was killed by a signal (e.g. SIGSEGV inside
    /// native code of the system under test): (start, stride, count, signal)
    #[serde(default)]
    crashed: Option<(u64, u64, u64, i32)>,
}

pub struct Outcome {
    pub ctx: Ctx,
    pub harness_panic: Option<String>,
}

fn is_harness_location(loc: &str) -> bool {
    // workspace members are compiled with paths relative to /verif/sim; /repo crates and
    // registry crates with absolute paths.
    !loc.starts_with('/') || loc.contains("/verif/")
}

/// Execute one run. A panic located in /repo code (or a dependency) becomes a violation of the
/// property under check (class `panic`); a panic in harness code is a harness error.
pub fn execute(
    world: &dyn World,
    tape: Tape,
    prop: &str,
    tier: Tier,
    keep_log: bool,
    known: &[String],
) -> Outcome {
    let mut ctx = Ctx::new(tape, prop, tier, keep_log, known.to_vec());
    *LAST_PANIC.lock().unwrap_or_else(|e| e.into_inner()) = None;
    let res = std::panic::catch_unwind(AssertUnwindSafe(|| world.run(&mut ctx)));
    let mut harness_panic = None;
    let p = LAST_PANIC
        .lock()
        .unwrap_or_else(|e| e.into_inner())
        .take();
    if res.is_err() {
        let (loc, msg) = p.unwrap_or(("?".into(), "?".into()));
        if is_harness_location(&loc) {
            harness_panic = Some(format!("panic in harness at {loc}: {msg}"));
        } else {
            let file = loc.rsplit_once(':').map(|x| x.0).unwrap_or(&loc).to_string();
            let short = file
                .strip_prefix("/repo/")
                .unwrap_or(&file)
                .to_string();
            let prop = if ctx.panic_scope.is_empty() {
                prop.to_string()
            } else {
                ctx.panic_scope.clone()
            };
            ctx.violate(
                &prop,
                &format!("panic:{short}"),
                format!("panic at {loc}: {msg}"),
            );
        }
    }
    Outcome { ctx, harness_panic }
}

fn parse_known(path: Option<&str>, prop: &str) -> Vec<(String, String)> {
    let mut out = Vec::new();
    let Some(path) = path else { return out };
    let Ok(text) = std::fs::read_to_string(path) else {
        return out;
    };
    for line in text.lines() {
        let line = line.trim();
        let Some(rest) = line.strip_prefix("known:") else {
            continue;
        };
        let mut p = None;
        let mut c = None;
        let mut desc = Vec::new();
        for tok in rest.split_whitespace() {
            if let Some(v) = tok.strip_prefix("property=") {
                p = Some(v.to_string());
            } else if let Some(v) = tok.strip_prefix("class=") {
                c = Some(v.to_string());
            } else {
                desc.push(tok);
            }
        }
        if let (Some(p), Some(c)) = (p, c) {
            if p == prop {
                out.push((c, desc.join(" ")));
            }
        }
    }
    out
}

struct Args {
    map: BTreeMap<String, String>,
    flags: BTreeSet<String>,
}
impl Args {
    fn parse(args: &[String]) -> Self {
        let mut map = BTreeMap::new();
        let mut flags = BTreeSet::new();
        let mut i = 0;
        while i < args.len() {
            let a = &args[i];
            if let Some(k) = a.strip_prefix("--") {
                if i + 1 < args.len() && !args[i + 1].starts_with("--") {
                    map.insert(k.to_string(), args[i + 1].clone());
                    i += 2;
                    continue;
                }
                flags.insert(k.to_string());
            }
            i += 1;
        }
        Args { map, flags }
    }
    fn get(&self, k: &str) -> Option<&str> {
        self.map.get(k).map(|s| s.as_str())
    }
    fn u64(&self, k: &str) -> Option<u64> {
        self.get(k).and_then(|v| parse_u64(v))
    }
    fn flag(&self, k: &str) -> bool {
        self.flags.contains(k)
    }
}

fn parse_u64(v: &str) -> Option<u64> {
    if let Some(h) = v.strip_prefix("0x") {
        u64::from_str_radix(h, 16).ok()
    } else {
        v.parse::<u64>()
            .ok()
            .or_else(|| v.parse::<i64>().ok().map(|x| x as u64))
    }
}

fn env_seed() -> u64 {
    std::env::var("VERIF_SEED")
        .ok()
        .and_then(|v| parse_u64(&v))
        .unwrap_or(DEFAULT_SEED)
}

fn tier_of(s: &str) -> Tier {
    if s == "thorough" {
        Tier::Thorough
    } else {
        Tier::Quick
    }
}

fn merge(a: &mut BTreeMap<String, u64>, b: &BTreeMap<String, u64>) {
    for (k, v) in b {
        *a.entry(k.clone()).or_default() += v;
    }
}

pub fn main_world(world: &dyn World) -> ! {
    let argv: Vec<String> = std::env::args().collect();
    let cmd = argv.get(1).cloned().unwrap_or_default();
    let args = Args::parse(&argv[2.min(argv.len())..]);
    // anyhow errors on ordinary rejection paths of fuel-core would capture (and, when
    // Debug-formatted, symbolise) a backtrace each if RUST_BACKTRACE is set: ~1 s per error.
    // SAFETY: single-threaded at this point.
    unsafe { std::env::set_var("RUST_LIB_BACKTRACE", "0") };
    install_panic_hook();
    let code = match cmd.as_str() {
        "worker" => worker_main(world, &args),
        "run" => run_main(world, &args),
        "replay" => replay_main(world, &args),
        "determinism" => determinism_main(world, &args),
        _ => {
            eprintln!(
                "usage: {} run|replay|determinism ... (world {}; properties {:?})",
                argv[0],
                world.name(),
                world.properties()
            );
            2
        }
    };
    std::process::exit(code)
}

fn worker_main(world: &dyn World, args: &Args) -> i32 {
    let prop = args.get("prop").expect("--prop").to_string();
    let tier = tier_of(args.get("tier").unwrap_or("quick"));
    let base = args.u64("base-seed").unwrap_or(DEFAULT_SEED);
    let start = args.u64("start").unwrap_or(0);
    let count = args.u64("count").unwrap_or(1);
    let stride = args.u64("stride").unwrap_or(1);
    let max_wall = args.u64("max-wall-s").map(Duration::from_secs);
    let emit_hashes = args.flag("emit-hashes");
    let no_min = args.flag("no-minimise");
    let nsamples = args.u64("samples").unwrap_or(0);
    let known: Vec<String> = parse_known(args.get("known"), &prop)
        .into_iter()
        .map(|x| x.0)
        .collect();
    let min_ops = world.nontrivial_min_ops(&prop);
    let t0 = Instant::now();
    let mut sum = WorkerSummary::default();
    let mut nontrivial = BTreeSet::new();
    for k in 0..count {
        if let Some(mw) = max_wall {
            if t0.elapsed() > mw {
                break;
            }
        }
        let idx = start + k * stride;
        let seed = mix_seed(base, idx);
        // self-test of the crash path of the runner
        if std::env::var("SIMKIT_TEST_CRASH_IDX").ok().and_then(|v| parse_u64(&v)) == Some(idx) {
            std::process::abort();
        }
        let keep = (sum.samples.len() as u64) < nsamples;
        let out = execute(world, Tape::generate(seed), &prop, tier, keep, &known);
        if let Some(h) = out.harness_panic {
            sum.harness_error = Some(format!("run idx={idx} seed={seed}: {h}"));
            break;
        }
        let ctx = out.ctx;
        sum.runs += 1;
        sum.ops_total += ctx.ops;
        sum.events_total += ctx.events;
        sum.sim_ms_total += ctx.sim_ms;
        sum.tape_len_total += ctx.tape.recorded().len() as u64;
        merge(&mut sum.oracle_evals, &ctx.oracle_evals);
        merge(&mut sum.faults, &ctx.faults);
        merge(&mut sum.probes, &ctx.probes);
        merge(&mut sum.known_hits, &ctx.known_hits);
        for v in &ctx.violations {
            if v.property != prop {
                *sum
                    .other_property_violations
                    .entry(format!("{}:{}", v.property, v.class))
                    .or_default() += 1;
            }
        }
        if ctx.ops >= min_ops && ctx.evals_for_prop() > 0 {
            nontrivial.insert(ctx.trace.0);
        }
        if emit_hashes {
            sum.all_hashes.push((idx, ctx.trace.0));
        }
        if keep {
            let mut log = ctx.log.clone();
            let total = log.len();
            log.truncate(60);
            sum.samples.push(serde_json::json!({
                "run_idx": idx,
                "seed": seed,
                "tape_len": ctx.tape.recorded().len(),
                "ops": ctx.ops,
                "events_total": total,
                "trace_hash": format!("{:016x}", ctx.trace.0),
                "events_head": log,
            }));
        }
        if let Some(v) = ctx.first_violation().cloned() {
            let orig = ctx.tape.recorded().to_vec();
            let (tape, execs) = if no_min {
                (orig.clone(), 0)
            } else {
                minimise_tape(world, &prop, tier, &known, &v, orig.clone())
            };
            // final run for the log of the minimised tape
            let fin = execute(world, Tape::replay(tape.clone()), &prop, tier, true, &known);
            let (v2, log, tape2) = match fin.ctx.first_violation() {
                Some(v2) if v2.class == v.class => (
                    v2.clone(),
                    fin.ctx.log.clone(),
                    fin.ctx.tape.recorded().to_vec(),
                ),
                _ => {
                    // minimised tape does not reproduce: fall back to the original tape
                    let fin = execute(
                        world,
                        Tape::replay(orig.clone()),
                        &prop,
                        tier,
                        true,
                        &known,
                    );
                    match fin.ctx.first_violation() {
                        Some(v3) if v3.class == v.class => {
                            (v3.clone(), fin.ctx.log.clone(), orig.clone())
                        }
                        _ => {
                            sum.harness_error = Some(format!(
                                "replay divergence: run idx={idx} seed={seed} violated {}:{} in generation but not when its tape was replayed in the same process",
                                v.property, v.class
                            ));
                            break;
                        }
                    }
                }
            };
            sum.violation = Some(ViolationReport {
                idx,
                seed,
                violation: v2,
                tape: tape2,
                orig_tape_len: orig.len(),
                min_execs: execs,
                log,
            });
            break;
        }
    }
    sum.nontrivial_hashes = nontrivial.into_iter().collect();
    let s = serde_json::to_string(&sum).unwrap();
    let stdout = std::io::stdout();
    let mut lock = stdout.lock();
    writeln!(lock, "SUMMARY {s}").unwrap();
    0
}

fn minimise_tape(
    world: &dyn World,
    prop: &str,
    tier: Tier,
    known: &[String],
    v: &Violation,
    orig: Vec<u64>,
) -> (Vec<u64>, u64) {
    let class = v.class.clone();
    minimise::minimise(
        orig,
        |cand| {
            let out = execute(world, Tape::replay(cand.to_vec()), prop, tier, false, known);
            if out.harness_panic.is_some() {
                return None;
            }
            match out.ctx.first_violation() {
                Some(v2) if v2.class == class => Some(out.ctx.tape.recorded().to_vec()),
                _ => None,
            }
        },
        minimise::Budget {
            max_execs: 3000,
            max_wall: Duration::from_secs(90),
        },
    )
}

#[derive(Serialize, Deserialize)]
pub struct ReplayFile {
    pub world: String,
    pub property: String,
    pub tier: String,
    pub base_seed: u64,
    pub run_idx: u64,
    pub run_seed: u64,
    pub violation: Violation,
    pub tape: Vec<u64>,
    pub orig_tape_len: usize,
    pub minimise_execs: u64,
    pub trace: Vec<String>,
}

fn spawn_workers(
    args_common: &[String],
    prop: &str,
    tier: Tier,
    base: u64,
    runs: u64,
    jobs: u64,
    extra: &[String],
) -> Result<Vec<WorkerSummary>, String> {
    let exe = std::env::current_exe().map_err(|e| e.to_string())?;
    let jobs = jobs.max(1).min(runs.max(1));
    let mut children = Vec::new();
    let mut layout = Vec::new();
    for j in 0..jobs {
        // interleaved assignment: worker j runs idx j, j+jobs, j+2*jobs, ...
        let count = (runs + jobs - 1 - j) / jobs;
        if count == 0 {
            continue;
        }
        let mut c = std::process::Command::new(&exe);
        c.arg("worker")
            .args(["--prop", prop, "--tier", tier.as_str()])
            .args(["--base-seed", &base.to_string()])
            .args(["--start", &j.to_string()])
            .args(["--stride", &jobs.to_string()])
            .args(["--count", &count.to_string()])
            .args(args_common)
            .args(extra)
            .stdin(std::process::Stdio::null())
            .stdout(std::process::Stdio::piped())
            .stderr(std::process::Stdio::piped());
        if j == 0 {
            c.args(["--samples", "3"]);
        }
        children.push(c.spawn().map_err(|e| format!("spawn worker: {e}"))?);
        layout.push((j, jobs, count));
    }
    let mut out = Vec::new();
    for (ch, lay) in children.into_iter().zip(layout) {
        let o = ch.wait_with_output().map_err(|e| e.to_string())?;
        let so = String::from_utf8_lossy(&o.stdout);
        let line = so.lines().rev().find(|l| l.starts_with("SUMMARY "));
        match line {
            Some(l) => {
                let s: WorkerSummary = serde_json::from_str(&l["SUMMARY ".len()..])
                    .map_err(|e| format!("bad worker summary: {e}"))?;
                out.push(s);
            }
            None => {
                use std::os::unix::process::ExitStatusExt;
                if let Some(sig) = o.status.signal() {
                    out.push(WorkerSummary {
                        crashed: Some((lay.0, lay.1, lay.2, sig)),
                        ..Default::default()
                    });
                    continue;
                }
                let se = String::from_utf8_lossy(&o.stderr);
                let tail: String = se.lines().rev().take(15).collect::<Vec<_>>().join(" | ");
                return Err(format!(
                    "worker died without summary (status {:?}); stderr tail: {tail}",
                    o.status
                ));
            }
        }
    }
    Ok(out)
}

/// Runs `count` run indices (start, start+stride, ...) in a child process. Returns
/// (signal that killed it or 0, violation it reported if it finished).
fn run_child_share(
    prop: &str,
    tier: Tier,
    base: u64,
    start: u64,
    stride: u64,
    count: u64,
    known_path: &str,
) -> Option<(i32, Option<ViolationReport>)> {
    use std::os::unix::process::ExitStatusExt;
    let exe = std::env::current_exe().ok()?;
    let o = std::process::Command::new(exe)
        .arg("worker")
        .args(["--prop", prop, "--tier", tier.as_str()])
        .args(["--base-seed", &base.to_string()])
        .args(["--start", &start.to_string(), "--stride", &stride.to_string()])
        .args(["--count", &count.to_string()])
        .args(["--known", known_path, "--no-minimise"])
        .stdin(std::process::Stdio::null())
        .stdout(std::process::Stdio::piped())
        .stderr(std::process::Stdio::null())
        .output()
        .ok()?;
    let sig = o.status.signal().unwrap_or(0);
    let so = String::from_utf8_lossy(&o.stdout);
    let viol = so
        .lines()
        .rev()
        .find(|l| l.starts_with("SUMMARY "))
        .and_then(|l| serde_json::from_str::<WorkerSummary>(&l["SUMMARY ".len()..]).ok())
        .and_then(|s| s.violation);
    Some((sig, viol))
}

fn run_single_child(prop: &str, tier: Tier, base: u64, idx: u64, known_path: &str) -> Option<i32> {
    run_child_share(prop, tier, base, idx, 1, 1, known_path).map(|x| x.0)
}

fn run_main(world: &dyn World, args: &Args) -> i32 {
    let t0 = Instant::now();
    let prop = match args.get("prop") {
        Some(p) => p.to_string(),
        None => {
            eprintln!("--prop required");
            return 2;
        }
    };
    if !world.properties().contains(&prop.as_str()) {
        eprintln!("world {} has no oracle for {prop}", world.name());
        return 2;
    }
    let tier = tier_of(
        args.get("tier")
            .map(|s| s.to_string())
            .or_else(|| std::env::var("VERIF_TIER").ok())
            .as_deref()
            .unwrap_or("quick"),
    );
    let base = args.u64("seed").unwrap_or_else(env_seed);
    let runs = args
        .u64("runs")
        .unwrap_or_else(|| world.default_runs(&prop, tier));
    let jobs = args.u64("jobs").unwrap_or_else(|| {
        std::thread::available_parallelism()
            .map(|n| n.get() as u64)
            .unwrap_or(8)
    });
    let evidence_path = args
        .get("evidence")
        .map(|s| s.to_string())
        .unwrap_or_else(|| format!("/verif/evidence/{prop}.json"));
    let replay_dir = args.get("replay-dir").unwrap_or("/verif/replays").to_string();
    let known_path = args
        .get("known")
        .unwrap_or("/verif/known-findings.txt")
        .to_string();
    let known = parse_known(Some(&known_path), &prop);
    println!(
        "[{}] property={prop} tier={} base_seed={base} runs={runs} jobs={jobs}",
        world.name(),
        tier.as_str()
    );
    let mut common: Vec<String> = vec!["--known".into(), known_path.clone()];
    if let Some(mw) = args.get("max-wall-s") {
        common.push("--max-wall-s".into());
        common.push(mw.to_string());
    }
    if args.flag("no-minimise") {
        common.push("--no-minimise".into());
    }
    let sums = match spawn_workers(&common, &prop, tier, base, runs, jobs, &[]) {
        Ok(s) => s,
        Err(e) => {
            println!("HARNESS-ERROR {e}");
            return 2;
        }
    };
    let mut total = WorkerSummary::default();
    let mut distinct = BTreeSet::new();
    let mut best: Option<ViolationReport> = None;
    let mut crashes: Vec<(u64, u64, u64, i32)> = Vec::new();
    for s in sums {
        if let Some(c) = s.crashed {
            crashes.push(c);
            continue;
        }
        if let Some(e) = &s.harness_error {
            println!("HARNESS-ERROR {e}");
            return 2;
        }
        total.runs += s.runs;
        total.ops_total += s.ops_total;
        total.events_total += s.events_total;
        total.sim_ms_total += s.sim_ms_total;
        total.tape_len_total += s.tape_len_total;
        merge(&mut total.oracle_evals, &s.oracle_evals);
        merge(&mut total.faults, &s.faults);
        merge(&mut total.probes, &s.probes);
        merge(&mut total.known_hits, &s.known_hits);
        merge(
            &mut total.other_property_violations,
            &s.other_property_violations,
        );
        distinct.extend(s.nontrivial_hashes.iter().copied());
        total.samples.extend(s.samples);
        if let Some(v) = s.violation {
            if best.as_ref().map(|b| v.idx < b.idx).unwrap_or(true) {
                best = Some(v);
            }
        }
    }
    // A worker killed by a signal: the system under test crashed the process (memory
    // unsafety in native code). Find the run that does it, one run per child process.
    let mut share_crash: Option<ViolationReport> = None;
    for (start, stride, count, sig) in crashes {
        let mut found: Option<ViolationReport> = None;
        for k in 0..count {
            let idx = start + k * stride;
            if best.as_ref().map(|b| b.idx < idx).unwrap_or(false) {
                break;
            }
            if let Some((s2, viol)) = run_child_share(&prop, tier, base, idx, 1, 1, &known_path) {
                if s2 != 0 {
                    found = Some(ViolationReport {
                        idx,
                        seed: mix_seed(base, idx),
                        violation: Violation {
                            property: prop.clone(),
                            class: format!("crash:signal-{s2}"),
                            detail: format!(
                                "the process running this history was killed by signal {s2} (crash inside the system under test); re-run the seed to reproduce"
                            ),
                        },
                        tape: vec![],
                        orig_tape_len: 0,
                        min_execs: 0,
                        log: vec![],
                    });
                    break;
                }
                if let Some(v) = viol {
                    // the same run shows an ordinary violation when it does not crash
                    found = Some(v);
                    break;
                }
            }
        }
        if found.is_none() {
            // the crash depends on the state the process accumulated over several runs:
            // report the worker's whole share; the replay re-runs exactly that share
            found = Some(ViolationReport {
                idx: start,
                seed: mix_seed(base, start),
                violation: Violation {
                    property: prop.clone(),
                    class: format!("crash-share:signal-{sig}"),
                    detail: format!(
                        "a worker process running the histories {start}, {start}+{stride}, ... ({count} runs) was killed by signal {sig} (crash inside the system under test); no single run reproduces it alone"
                    ),
                },
                tape: vec![start, stride, count],
                orig_tape_len: 0,
                min_execs: 0,
                log: vec![],
            });
        }
        let v = found.unwrap();
        if v.violation.class.starts_with("crash-share:") {
            // not reproducible from one run: only reported when nothing replayable was found
            if share_crash.is_none() {
                share_crash = Some(v);
            }
        } else if best.as_ref().map(|b| v.idx < b.idx).unwrap_or(true) {
            best = Some(v);
        }
    }
    if best.is_none() {
        best = share_crash;
    }
    let wall = t0.elapsed().as_secs_f64();
    let mut replay_path = None;
    let mut code = 0;
    if let Some(v) = &best {
        let _ = std::fs::create_dir_all(&replay_dir);
        let path = format!("{replay_dir}/{prop}-{}-{:x}.json", world.name(), v.seed);
        let rf = ReplayFile {
            world: world.name().to_string(),
            property: prop.clone(),
            tier: tier.as_str().to_string(),
            base_seed: base,
            run_idx: v.idx,
            run_seed: v.seed,
            violation: v.violation.clone(),
            tape: v.tape.clone(),
            orig_tape_len: v.orig_tape_len,
            minimise_execs: v.min_execs,
            trace: v.log.clone(),
        };
        std::fs::write(&path, serde_json::to_string_pretty(&rf).unwrap()).unwrap();
        // the replay file must reproduce the violation in a fresh process
        let exe = std::env::current_exe().unwrap();
        let st = std::process::Command::new(exe)
            .args(["replay", "--file", &path, "--known", &known_path, "--quiet"])
            .stdout(std::process::Stdio::null())
            .stderr(std::process::Stdio::null())
            .status();
        match st {
            Ok(s) if s.code() == Some(1) => {}
            other => {
                println!(
                    "HARNESS-ERROR replay of {path} in a fresh process did not reproduce the violation ({other:?})"
                );
                return 2;
            }
        }
        replay_path = Some(path);
        code = 1;
    }
    // evidence
    let samples: Vec<serde_json::Value> = if total.samples.is_empty() {
        vec![serde_json::json!("no sample recorded")]
    } else {
        total.samples.clone()
    };
    let mut assumptions = world.assumptions(&prop);
    assumptions.push("sampling, not exhaustive: a clean batch is evidence, not proof".into());
    let ev = serde_json::json!({
        "property_id": prop,
        "tier": tier.as_str(),
        "seed": base as i64,
        "level": "exploration",
        "coverage": {
            "evaluations": total.runs,
            "distinct_nontrivial": distinct.len(),
            "rule": format!(
                "each evaluation is one simulated history decided by one tape (run seed = mix(VERIF_SEED, run index)); a run is non-trivial when it executed >= {} workload operations and the oracle of {} was evaluated at least once; distinct = distinct FNV-64 hashes of the full event trace among those runs",
                world.nontrivial_min_ops(&prop), prop),
            "samples": samples,
            "world": world.name(),
            "oracle_evaluations": total.oracle_evals,
            "faults_fired": total.faults,
            "probes": total.probes,
            "workload_ops_total": total.ops_total,
            "events_total": total.events_total,
            "tape_choices_total": total.tape_len_total,
            "simulated_time_covered_s": (total.sim_ms_total as f64) / 1000.0,
            "runs_per_hour": if wall > 0.0 { (total.runs as f64) / wall * 3600.0 } else { 0.0 },
            "real_components": world.real_components(),
            "stubs": world.stubs(),
            "known_finding_hits": total.known_hits,
            "other_property_violations_seen": total.other_property_violations,
            "jobs": jobs,
            "violation": best.as_ref().map(|v| serde_json::json!({
                "class": v.violation.class, "detail": v.violation.detail,
                "run_idx": v.idx, "seed": v.seed, "replay": replay_path,
                "tape_len_minimised": v.tape.len(), "tape_len_original": v.orig_tape_len})),
        },
        "assumptions": assumptions,
        "wall_s": wall,
        "violations": if best.is_some() { 1 } else { 0 },
    });
    if let Some(dir) = std::path::Path::new(&evidence_path).parent() {
        let _ = std::fs::create_dir_all(dir);
    }
    if let Err(e) = std::fs::write(&evidence_path, serde_json::to_string_pretty(&ev).unwrap()) {
        println!("HARNESS-ERROR cannot write evidence {evidence_path}: {e}");
        return 2;
    }
    for (class, desc) in &known {
        let hits = total.known_hits.get(class).copied().unwrap_or(0);
        println!("KNOWN-FINDING: property={prop} class={class} hits={hits} {desc}");
    }
    println!(
        "[{}] {} runs, {} distinct non-trivial traces, {} oracle evaluations, faults {:?}, {:.1}s",
        world.name(),
        total.runs,
        distinct.len(),
        total.oracle_evals.get(&prop).copied().unwrap_or(0),
        total.faults,
        wall
    );
    if let (Some(v), Some(p)) = (&best, &replay_path) {
        println!(
            "violation class={} detail={}",
            v.violation.class, v.violation.detail
        );
        println!("VIOLATION property={prop} replay={p}");
    }
    code
}

fn replay_main(world: &dyn World, args: &Args) -> i32 {
    let Some(file) = args.get("file") else {
        eprintln!("--file required");
        return 2;
    };
    let quiet = args.flag("quiet");
    let text = match std::fs::read_to_string(file) {
        Ok(t) => t,
        Err(e) => {
            eprintln!("cannot read {file}: {e}");
            return 2;
        }
    };
    let rf: ReplayFile = match serde_json::from_str(&text) {
        Ok(r) => r,
        Err(e) => {
            eprintln!("bad replay file: {e}");
            return 2;
        }
    };
    if rf.world != world.name() {
        eprintln!("replay file is for world {}, this is {}", rf.world, world.name());
        return 2;
    }
    if rf.violation.class.starts_with("crash-share:") && rf.tape.len() == 3 {
        let known = args.get("known").unwrap_or("/verif/known-findings.txt").to_string();
        // a crash that needs accumulated process state may need a few attempts
        for _ in 0..3 {
            if let Some((sig, _)) = run_child_share(
                &rf.property,
                tier_of(&rf.tier),
                rf.base_seed,
                rf.tape[0],
                rf.tape[1],
                rf.tape[2],
                &known,
            ) {
                if sig != 0 {
                    if !quiet {
                        println!("reproduced: the worker share was killed by signal {sig}");
                    }
                    println!("VIOLATION property={} replay={file}", rf.property);
                    return 1;
                }
            }
        }
        println!("replay did not crash (recorded class {})", rf.violation.class);
        return 0;
    }
    if rf.violation.class.starts_with("crash:") {
        // the violation is a crash of the whole process: reproduce it in a child
        let known = args.get("known").unwrap_or("/verif/known-findings.txt").to_string();
        return match run_single_child(&rf.property, tier_of(&rf.tier), rf.base_seed, rf.run_idx, &known) {
            Some(sig) if sig != 0 => {
                if !quiet {
                    println!("reproduced: the run was killed by signal {sig}");
                }
                println!("VIOLATION property={} replay={file}", rf.property);
                1
            }
            _ => {
                println!("replay did not crash (recorded class {})", rf.violation.class);
                0
            }
        };
    }
    if !quiet {
        PANIC_VERBOSE.store(true, std::sync::atomic::Ordering::Relaxed);
    }
    let known: Vec<String> = parse_known(args.get("known"), &rf.property)
        .into_iter()
        .map(|x| x.0)
        .collect();
    let out = execute(
        world,
        Tape::replay(rf.tape.clone()),
        &rf.property,
        tier_of(&rf.tier),
        true,
        &known,
    );
    if let Some(h) = out.harness_panic {
        println!("HARNESS-ERROR {h}");
        return 2;
    }
    if !quiet {
        for l in &out.ctx.log {
            println!("  {l}");
        }
    }
    match out.ctx.first_violation() {
        Some(v) if v.class == rf.violation.class => {
            if !quiet {
                println!("reproduced: class={} detail={}", v.class, v.detail);
                let same_trace = out.ctx.log == rf.trace;
                println!("trace identical to recorded trace: {same_trace}");
            }
            println!("VIOLATION property={} replay={file}", rf.property);
            1
        }
        Some(v) => {
            println!(
                "different violation on replay: class={} detail={} (recorded class {})",
                v.class, v.detail, rf.violation.class
            );
            println!("VIOLATION property={} replay={file}", rf.property);
            1
        }
        None => {
            println!("replay did not violate {} (recorded class {})", rf.property, rf.violation.class);
            0
        }
    }
}

fn determinism_main(world: &dyn World, args: &Args) -> i32 {
    let prop = args.get("prop").expect("--prop").to_string();
    let tier = tier_of(args.get("tier").unwrap_or("quick"));
    let base = args.u64("seed").unwrap_or_else(env_seed);
    let runs = args.u64("runs").unwrap_or(500);
    let known_path = args
        .get("known")
        .unwrap_or("/verif/known-findings.txt")
        .to_string();
    let common: Vec<String> = vec![
        "--known".into(),
        known_path,
        "--emit-hashes".into(),
        "--no-minimise".into(),
    ];
    let mut maps: Vec<BTreeMap<u64, u64>> = Vec::new();
    for jobs in [16u64, 5u64] {
        match spawn_workers(&common, &prop, tier, base, runs, jobs, &[]) {
            Ok(sums) => {
                let mut m = BTreeMap::new();
                for s in sums {
                    if let Some(e) = s.harness_error {
                        println!("HARNESS-ERROR {e}");
                        return 2;
                    }
                    for (i, h) in s.all_hashes {
                        m.insert(i, h);
                    }
                }
                maps.push(m);
            }
            Err(e) => {
                println!("HARNESS-ERROR {e}");
                return 2;
            }
        }
    }
    let mut diverged = 0;
    let mut compared = 0;
    for (i, h) in &maps[0] {
        if let Some(h2) = maps[1].get(i) {
            compared += 1;
            if h != h2 {
                diverged += 1;
                if diverged <= 10 {
                    println!("DIVERGENCE run idx={i} seed={} {:016x} vs {:016x}", mix_seed(base, *i), h, h2);
                }
            }
        }
    }
    println!(
        "[{}] determinism property={prop}: {compared} seeds executed twice (16 and 5 worker processes), {diverged} diverged",
        world.name()
    );
    if diverged > 0 { 2 } else { 0 }
}
