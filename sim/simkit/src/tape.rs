//! The tape: the single source of every nondeterministic decision of a run.
//!
//! Generate mode draws from a SplitMix64-seeded xoshiro256** PRNG and records
//! each value; replay mode reads the recorded values (exhausted => 0). Value 0
//! is by convention the simplest choice.

#[derive(Clone)]
pub struct Rng {
    s: [u64; 4],
}

fn splitmix(x: &mut u64) -> u64 {
    *x = x.wrapping_add(0x9E3779B97F4A7C15);
    let mut z = *x;
    z = (z ^ (z >> 30)).wrapping_mul(0xBF58476D1CE4E5B9);
    z = (z ^ (z >> 27)).wrapping_mul(0x94D049BB133111EB);
    z ^ (z >> 31)
}

impl Rng {
    pub fn new(seed: u64) -> Self {
        let mut x = seed;
        let s = [
            splitmix(&mut x),
            splitmix(&mut x),
            splitmix(&mut x),
            splitmix(&mut x),
        ];
        Rng { s }
    }
    pub fn next(&mut self) -> u64 {
        let r = self.s[1].wrapping_mul(5).rotate_left(7).wrapping_mul(9);
        let t = self.s[1] << 17;
        self.s[2] ^= self.s[0];
        self.s[3] ^= self.s[1];
        self.s[1] ^= self.s[2];
        self.s[0] ^= self.s[3];
        self.s[2] ^= t;
        self.s[3] = self.s[3].rotate_left(45);
        r
    }
}

/// Mix a base seed and a run index into a run seed.
pub fn mix_seed(base: u64, idx: u64) -> u64 {
    let mut x = base ^ idx.wrapping_mul(0xD6E8FEB86659FD93);
    splitmix(&mut x)
}

enum Mode {
    Gen(Rng),
    Replay { vals: Vec<u64>, pos: usize },
}

pub struct Tape {
    mode: Mode,
    rec: Vec<u64>,
}

impl Tape {
    pub fn generate(seed: u64) -> Self {
        Tape {
            mode: Mode::Gen(Rng::new(seed)),
            rec: Vec::new(),
        }
    }
    pub fn replay(vals: Vec<u64>) -> Self {
        Tape {
            mode: Mode::Replay { vals, pos: 0 },
            rec: Vec::new(),
        }
    }
    /// The values consumed so far (reduced modulo their bound).
    pub fn recorded(&self) -> &[u64] {
        &self.rec
    }
    pub fn into_recorded(self) -> Vec<u64> {
        self.rec
    }

    /// A value in `0..n` (n == 0 is treated as 1).
    pub fn choose(&mut self, n: u64) -> u64 {
        let n = n.max(1);
        let raw = match &mut self.mode {
            Mode::Gen(r) => r.next(),
            Mode::Replay { vals, pos } => {
                let v = vals.get(*pos).copied().unwrap_or(0);
                *pos += 1;
                v
            }
        };
        let v = raw % n;
        self.rec.push(v);
        v
    }
    pub fn below(&mut self, n: usize) -> usize {
        self.choose(n as u64) as usize
    }
    /// Inclusive range.
    pub fn range(&mut self, lo: u64, hi: u64) -> u64 {
        debug_assert!(hi >= lo);
        lo + self.choose(hi - lo + 1)
    }
    /// true with probability num/den. 0 => false.
    pub fn chance(&mut self, num: u64, den: u64) -> bool {
        // arrange that tape value 0 means "false"
        let v = self.choose(den);
        v >= den - num.min(den) && num > 0
    }
    pub fn coin(&mut self) -> bool {
        self.choose(2) == 1
    }
    /// Index chosen according to weights; tape value 0 maps to index 0.
    pub fn weighted(&mut self, w: &[u64]) -> usize {
        let total: u64 = w.iter().sum();
        let mut v = self.choose(total.max(1));
        for (i, wi) in w.iter().enumerate() {
            if v < *wi {
                return i;
            }
            v -= *wi;
        }
        0
    }
    pub fn pick<'a, T>(&mut self, xs: &'a [T]) -> &'a T {
        let i = self.below(xs.len());
        &xs[i]
    }
    /// A "small-biased" integer in 0..=max: half of the time < 4.
    pub fn small(&mut self, max: u64) -> u64 {
        if max <= 3 {
            return self.choose(max + 1);
        }
        if self.choose(2) == 0 {
            self.choose(4)
        } else {
            self.choose(max + 1)
        }
    }
    pub fn bytes(&mut self, len: usize) -> Vec<u8> {
        (0..len).map(|_| self.choose(256) as u8).collect()
    }
    /// Fisher-Yates shuffle driven by the tape.
    pub fn shuffle<T>(&mut self, xs: &mut [T]) {
        for i in (1..xs.len()).rev() {
            let j = self.below(i + 1);
            xs.swap(i, j);
        }
    }
}
