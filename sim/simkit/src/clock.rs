//! Simulated wall clock.
//!
//! With feature `simclock` this crate defines the C symbol `clock_gettime`; the executable's
//! definition takes precedence over libc's, so `std::time::SystemTime::now()` (and therefore
//! `Tai64::now()`) reads the simulated clock once `enable()` was called. All other clock ids
//! (CLOCK_MONOTONIC used by `Instant`, …) go to the raw syscall. The clock is process-global:
//! runs are parallelised over processes only.

#[cfg(feature = "simclock")]
mod imp {
    use std::sync::atomic::{AtomicBool, AtomicI64, Ordering};

    static ENABLED: AtomicBool = AtomicBool::new(false);
    static SIM_NS: AtomicI64 = AtomicI64::new(0);

    #[unsafe(no_mangle)]
    pub unsafe extern "C" fn clock_gettime(
        clk: libc::clockid_t,
        ts: *mut libc::timespec,
    ) -> libc::c_int {
        if clk == libc::CLOCK_REALTIME && ENABLED.load(Ordering::SeqCst) && !ts.is_null() {
            let ns = SIM_NS.load(Ordering::SeqCst);
            unsafe {
                (*ts).tv_sec = (ns / 1_000_000_000) as libc::time_t;
                (*ts).tv_nsec = (ns % 1_000_000_000) as libc::c_long;
            }
            return 0;
        }
        unsafe { libc::syscall(libc::SYS_clock_gettime, clk, ts) as libc::c_int }
    }

    pub fn enable(start_unix_ms: i64) {
        SIM_NS.store(start_unix_ms * 1_000_000, Ordering::SeqCst);
        ENABLED.store(true, Ordering::SeqCst);
    }
    pub fn disable() {
        ENABLED.store(false, Ordering::SeqCst);
    }
    pub fn set_unix_ms(ms: i64) {
        SIM_NS.store(ms * 1_000_000, Ordering::SeqCst);
    }
    pub fn advance_ms(ms: i64) {
        SIM_NS.fetch_add(ms * 1_000_000, Ordering::SeqCst);
    }
    pub fn now_unix_ms() -> i64 {
        SIM_NS.load(Ordering::SeqCst) / 1_000_000
    }
}

#[cfg(feature = "simclock")]
pub use imp::*;
