//! Shared simulation state of the W5 world: the tape, the event buffer, the simulated chain
//! ("the database"), the simulated clock, the fault plan and the C24 oracle.
//!
//! Everything runs on one thread (current-thread tokio runtime, paused clock); the `Mutex` only
//! exists because the fuel-core port traits demand `Send + Sync`.

use fuel_core_chain_config::ConsensusConfig;
use fuel_core_poa::verifier::verify_consensus;
use fuel_core_types::{
    blockchain::{
        SealedBlock,
        block::Block,
        consensus::Consensus,
        header::{
            BlockHeader,
            PartialBlockHeader,
        },
        primitives::{
            BlockId,
            DaBlockHeight,
        },
    },
    fuel_tx::Transaction,
    fuel_types::{
        Address,
        Bytes32,
    },
    services::block_importer::BlockImportInfo,
    tai64::Tai64,
};
use simkit::{
    Ctx,
    Tape,
};
use std::{
    collections::{
        BTreeMap,
        BTreeSet,
        VecDeque,
    },
    sync::{
        Arc,
        Mutex,
    },
};
use tokio::time::Instant;

pub const PROP: &str = "C24";

/// Buffered `Ctx` operation (ports cannot hold `&mut Ctx`; the driver flushes in order).
pub enum Out {
    Ev(String),
    Op(String),
    Fault(&'static str),
    Probe(&'static str),
    Check {
        class: String,
        ok: bool,
        detail: String,
    },
}

#[derive(Clone, Copy, PartialEq, Eq, Debug)]
pub enum Trig {
    Interval,
    Instant,
    Open,
    Never,
}

#[derive(Clone, Debug)]
pub struct Cfg {
    pub trig: Trig,
    /// block_time (Interval) / period (Open); unused otherwise.
    pub period_ms: u64,
    pub production_timeout_ms: u64,
    pub min_peers: usize,
    pub time_until_synced_ms: u64,
    /// HA mode: reconciliation port with leader/follower/unreconciled states; otherwise the
    /// port behaves like `NoopReconciliationAdapter` (always leader, no latency).
    pub ha: bool,
    /// Blocks imported "from the network" may appear.
    pub net: bool,
    /// The sim producer rejects a height != DB height + 1 like the real `Producer`.
    pub strict_producer: bool,
    /// Maximal virtual latency of one port call leg (0 = no latency at all).
    pub lat_max: u64,
    pub stream_delay_max: u64,
    // fault rates, percent per call (0 = kind disabled in this run)
    pub f_produce: u64,
    pub f_produce_slow: u64,
    pub f_seal: u64,
    pub f_commit: u64,
    pub f_commit_lostack: u64,
    pub f_dbread: u64,
    pub f_stream_drop: u64,
    pub f_recon_err: u64,
    pub f_recon_import: u64,
    pub f_release_err: u64,
    pub f_predef_err: u64,
    pub clock_jumps: bool,
    pub signer_toggles: bool,
    pub predefined: bool,
    pub delayed_ready: bool,
}

#[derive(Clone, Copy, PartialEq, Eq, Debug)]
pub enum Origin {
    /// The block the service was started with.
    Init,
    /// Committed through `commit_result` by the task (acknowledged).
    Own,
    /// Committed through `commit_result` but the importer reported an error (lost ack).
    OwnLostAck,
    /// Committed through `execute_and_commit` by the task (reconciliation).
    Reconciled,
    /// Imported from the network behind the task's back.
    Net,
}

#[derive(Clone)]
pub struct ChainBlock {
    pub h: u32,
    pub time: u64,
    pub id: BlockId,
    pub origin: Origin,
    pub header: BlockHeader,
    pub predefined: bool,
}

#[derive(Clone, Copy, PartialEq, Eq, Debug)]
pub enum Role {
    Leader,
    Follower,
}

/// The production attempt in flight / last seen (one `produce_*` request of the task).
#[derive(Clone)]
pub struct Attempt {
    pub h: u32,
    pub t_ms: u64,
    /// Might be a manual request (a manual client was waiting for its answer).
    pub ambiguous: bool,
    pub predefined: bool,
}

pub struct Sh {
    pub tape: Tape,
    pub out: Vec<Out>,
    pub t0: Instant,
    pub cfg: Cfg,
    pub faults_on: bool,

    // --- clock (GetTime) ---
    pub clock_base: u64,
    pub clock_off_ms: i64,

    // --- the database ---
    pub chain: Vec<ChainBlock>,
    /// Some block entered the chain without the task committing it (network import or lost ack).
    pub foreign_seen: bool,
    pub net_imports: u64,

    // --- what the task definitely knows ---
    /// max(initial height, acknowledged own commits, acknowledged reconciliation imports,
    /// heights returned by `latest_block_height()`).
    pub l_known: u32,
    /// Highest height returned by `latest_block_height()` so far.
    pub db_read_max: u32,

    // --- signer ---
    pub signer_available: bool,
    pub signer_addr: Address,
    pub sealed: BTreeSet<[u8; 32]>,

    // --- production bookkeeping ---
    pub attempt: Option<Attempt>,
    /// (height, production start ms) of the last acknowledged, unambiguous trigger-produced
    /// commit; reset by anything else that extends the chain.
    pub interval_base: Option<(u32, u64)>,
    pub manual_inflight: u32,
    pub own_commits: u64,
    pub last_own_commit_ms: u64,

    // --- block stream towards SyncTask ---
    pub stream_q: VecDeque<(u64, BlockImportInfo)>,
    pub stream_last_at: u64,
    pub stream_tx: Option<tokio::sync::mpsc::UnboundedSender<BlockImportInfo>>,
    pub stream_rx: Option<tokio::sync::mpsc::UnboundedReceiver<BlockImportInfo>>,
    pub stream_notify: Arc<tokio::sync::Notify>,
    pub stream_dropped: u64,

    // --- other channels ---
    pub peers_tx: Option<tokio::sync::mpsc::UnboundedSender<usize>>,
    pub peers_rx: Option<tokio::sync::mpsc::UnboundedReceiver<usize>>,
    pub tx_notify: tokio::sync::watch::Sender<()>,
    pub ready: Arc<std::sync::atomic::AtomicBool>,
    pub ready_notify: Arc<tokio::sync::Notify>,

    // --- HA / reconciliation ---
    pub role: Role,
    /// Blocks of the other leader that are not in the local DB yet.
    pub redis: BTreeMap<u32, SealedBlock>,
    /// Blocks of the other leader that already reached the local DB.
    pub redis_hist: BTreeMap<u32, SealedBlock>,

    // --- predefined blocks ---
    pub predefined: BTreeMap<u32, Block>,
    pub predef_err_streak: u32,

    // --- watchdog against zero-time livelocks ---
    pub wd_instant: u64,
    pub wd_calls: u64,
}

pub type Shared = Arc<Mutex<Sh>>;

pub fn with<R>(sh: &Shared, f: impl FnOnce(&mut Sh) -> R) -> R {
    let mut g = sh.lock().unwrap_or_else(|e| e.into_inner());
    f(&mut g)
}

pub fn make_block(
    h: u32,
    time: u64,
    prev: &BlockId,
    tag: u64,
    txs: Vec<Transaction>,
) -> Block {
    let mut header = PartialBlockHeader::default();
    header.consensus.height = h.into();
    header.consensus.time = Tai64(time);
    let mut root = [0u8; 32];
    root.copy_from_slice(prev.as_slice());
    header.consensus.prev_root = Bytes32::new(root);
    header.application.da_height = DaBlockHeight(tag);
    Block::new(header, txs, &[], Bytes32::zeroed()).expect("block header generation")
}

pub fn id_bytes(id: &BlockId) -> [u8; 32] {
    let mut b = [0u8; 32];
    b.copy_from_slice(id.as_slice());
    b
}

impl Sh {
    pub fn now_ms(&self) -> u64 {
        Instant::now().duration_since(self.t0).as_millis() as u64
    }
    pub fn clock_now(&self) -> u64 {
        let ms = (self.now_ms() as i64).saturating_add(self.clock_off_ms);
        let secs = ms.div_euclid(1000);
        (self.clock_base as i64).saturating_add(secs).max(0) as u64
    }
    /// Timestamp relative to the clock base (readable logs).
    pub fn rel(&self, t: u64) -> i64 {
        t as i64 - self.clock_base as i64
    }
    pub fn ev(&mut self, s: impl Into<String>) {
        let t = self.now_ms();
        self.out.push(Out::Ev(format!("[{t}] {}", s.into())));
    }
    pub fn op(&mut self, s: impl Into<String>) {
        let t = self.now_ms();
        self.out.push(Out::Op(format!("[{t}] {}", s.into())));
    }
    pub fn fault(&mut self, k: &'static str) {
        self.out.push(Out::Fault(k));
    }
    pub fn probe(&mut self, k: &'static str) {
        self.out.push(Out::Probe(k));
    }
    pub fn check(&mut self, class: &str, ok: bool, detail: impl FnOnce(&Sh) -> String) -> bool {
        let detail = if ok { String::new() } else { detail(self) };
        self.out.push(Out::Check {
            class: class.to_string(),
            ok,
            detail,
        });
        ok
    }
    pub fn flush(&mut self, ctx: &mut Ctx) {
        for o in self.out.drain(..) {
            match o {
                Out::Ev(s) => ctx.ev(s),
                Out::Op(s) => ctx.op(s),
                Out::Fault(k) => ctx.fault(k),
                Out::Probe(k) => ctx.probe(k),
                Out::Check { class, ok, detail } => {
                    ctx.check(PROP, &class, ok, || detail);
                }
            }
        }
    }

    /// Called at the start of every async port call: a port that is called more than a few
    /// thousand times without virtual time passing means the service spins (the run would
    /// never end); reported as a harness error with the place.
    pub fn watchdog(&mut self, what: &str) {
        let now = self.now_ms();
        if now != self.wd_instant {
            self.wd_instant = now;
            self.wd_calls = 0;
        }
        self.wd_calls += 1;
        if self.wd_calls > 20_000 {
            panic!("w5_poa watchdog: {what} called {} times at virtual instant {now} ms (zero-time loop)", self.wd_calls);
        }
    }

    /// One leg of virtual latency of a port call (0 most of the time).
    pub fn lat(&mut self) -> u64 {
        let max = self.cfg.lat_max;
        if max == 0 {
            return 0;
        }
        match self.tape.choose(4) {
            0 | 1 => 0,
            2 => self.tape.choose(4),
            _ => self.tape.choose(max + 1),
        }
    }
    /// Does fault kind with `rate` percent fire now?
    pub fn fire(&mut self, rate: u64) -> bool {
        self.faults_on && rate > 0 && self.tape.chance(rate, 100)
    }

    pub fn latest(&self) -> u32 {
        self.chain.last().expect("chain never empty").h
    }
    pub fn tip(&self) -> &ChainBlock {
        self.chain.last().expect("chain never empty")
    }
    pub fn block_at(&self, h: u32) -> Option<&ChainBlock> {
        let h0 = self.chain[0].h;
        if h < h0 {
            return None;
        }
        self.chain.get((h - h0) as usize)
    }

    /// Append a block to the simulated database and announce it on the block stream.
    pub fn db_append(&mut self, block: &Block, origin: Origin, predefined: bool) {
        let header = block.header().clone();
        let h: u32 = (*header.height()).into();
        assert_eq!(h, self.latest() + 1, "sim importer appends consecutive heights only");
        let cb = ChainBlock {
            h,
            time: header.time().0,
            id: block.id(),
            origin,
            header: header.clone(),
            predefined,
        };
        self.chain.push(cb);
        if origin != Origin::Own || predefined {
            // anything but an acknowledged, ordinary own block may move `last_block_created`
            self.interval_base = None;
        }
        if matches!(origin, Origin::Net | Origin::OwnLostAck) {
            self.foreign_seen = true;
        }
        // a block of the other leader that reached the DB is no longer "unreconciled"
        if let Some(b) = self.redis.remove(&h) {
            self.redis_hist.insert(h, b);
        }
        let info = match origin {
            Origin::Own | Origin::OwnLostAck => BlockImportInfo::from(header),
            _ => BlockImportInfo::new_from_network(header),
        };
        self.emit_stream(info, h);
    }

    fn emit_stream(&mut self, info: BlockImportInfo, h: u32) {
        if self.fire(self.cfg.f_stream_drop) {
            // BroadcastStream + filter_map(ok): a lagging receiver silently loses items
            self.fault("stream_item_lost");
            self.stream_dropped += 1;
            self.ev(format!("stream: item h={h} lost (lagged receiver)"));
            return;
        }
        let delay = if self.cfg.stream_delay_max > 0 && self.faults_on {
            match self.tape.choose(3) {
                0 => 0,
                1 => self.tape.choose(10),
                _ => self.tape.choose(self.cfg.stream_delay_max + 1),
            }
        } else {
            0
        };
        if delay > 0 {
            self.fault("stream_item_delayed");
        }
        let at = (self.now_ms() + delay).max(self.stream_last_at);
        self.stream_last_at = at;
        self.stream_q.push_back((at, info));
        self.stream_notify.notify_one();
    }

    // ------------------------------------------------------------------------------------
    // Oracle
    // ------------------------------------------------------------------------------------

    /// `L < h <= K + 1`: L = what the task definitely knows, K = DB height (the most it could
    /// know). Without foreign blocks K == L and this is "exactly the next height".
    pub fn check_height(&mut self, what: &str, h: u32) -> bool {
        let l = self.l_known;
        let k = self.latest();
        let a = self.check(&format!("{what}-height-not-above-known"), h > l, |s| {
            format!(
                "{what} for height {h} but the task already knows height {l} is committed (DB height {k}, t={} ms)",
                s.now_ms()
            )
        });
        let b = self.check(&format!("{what}-height-beyond-next"), h <= k.saturating_add(1), |s| {
            format!(
                "{what} for height {h} but the highest committed height anywhere is {k} (task knows {l}, t={} ms)",
                s.now_ms()
            )
        });
        if k == l {
            self.probe("height_checked_exact");
        } else {
            self.probe("height_checked_with_unknown_foreign_blocks");
        }
        a && b
    }

    /// Timestamp of a block the task wants at height `h` against its parent in the DB.
    /// Only meaningful when `h` is the next DB height (otherwise the request is stale and will
    /// be rejected).
    pub fn check_time(&mut self, what: &str, h: u32, time: u64) {
        if h != self.latest().saturating_add(1) {
            return;
        }
        let parent = self.tip().clone();
        let ok = time >= parent.time;
        // Narrow class for the one way the task can be blind: the parent never went through
        // the task (network import / lost ack) and the task adopted its *height* from
        // `latest_block_height()`, which carries no timestamp.
        let blind = matches!(parent.origin, Origin::Net | Origin::OwnLostAck)
            && self.db_read_max >= parent.h;
        let class = if blind {
            "time-below-parent:height-resynced-from-db"
        } else {
            "time-below-parent"
        };
        self.check(class, ok, |s| {
            format!(
                "{what} height {h} with timestamp {} < timestamp {} of its parent {} ({:?}{}); clock now {}, t={} ms",
                s.rel(time),
                s.rel(parent.time),
                parent.h,
                parent.origin,
                if parent.predefined { ", predefined" } else { "" },
                s.rel(s.clock_now()),
                s.now_ms()
            )
        });
    }

    /// The consensus handed to the importer must be the signer's seal over exactly this block.
    pub fn check_sealed(&mut self, sealed: &SealedBlock) {
        let header = sealed.entity.header();
        let id = sealed.entity.id();
        let h: u32 = (*header.height()).into();
        let valid = match &sealed.consensus {
            Consensus::PoA(poa) => verify_consensus(
                &ConsensusConfig::PoA {
                    signing_key: self.signer_addr,
                },
                header,
                poa,
            ),
            _ => false,
        };
        self.check("commit-unsealed", valid, |_| {
            format!(
                "commit_result for height {h}: consensus {:?} is not the signer's PoA seal over block {id}",
                sealed.consensus
            )
        });
        let by_signer = self.sealed.contains(&id_bytes(&id));
        self.check("commit-before-seal", by_signer, |_| {
            format!("commit_result for height {h}, block {id}: the signer was never asked to seal this block")
        });
    }

    /// Interval trigger: an unambiguous trigger production for height hb+1 directly after the
    /// acknowledged unambiguous trigger-produced block hb must start >= block_time later.
    pub fn check_interval(&mut self, h: u32, t_ms: u64, ambiguous: bool) {
        if self.cfg.trig != Trig::Interval || ambiguous {
            return;
        }
        if let Some((hb, tb)) = self.interval_base {
            if h == hb.saturating_add(1) {
                let bt = self.cfg.period_ms;
                self.probe("interval_spacing_checked");
                self.check("interval-too-soon", t_ms.saturating_sub(tb) >= bt, |_| {
                    format!(
                        "interval trigger (block_time {bt} ms): production of height {h} started at {t_ms} ms, only {} ms after the production of height {hb} started ({tb} ms)",
                        t_ms - tb
                    )
                });
            }
        }
    }
}
