//! The simulated parties behind the PoA port traits. Every async call: log + oracle at the
//! request instant, a tape-chosen virtual latency, the decision (fault / reject like the real
//! component / apply), another latency, the answer. An error answer always costs >= 1 ms of
//! virtual time (a failing component is never infinitely fast), which keeps the service's
//! error-retry paths from spinning at one virtual instant.

use crate::model::*;
use anyhow::anyhow;
use fuel_core_poa::ports::{
    BlockImporter,
    BlockProducer,
    BlockReconciliationReadPort,
    BlockSigner,
    GetTime,
    LeaderState,
    P2pPort,
    PredefinedBlocks,
    TransactionPool,
    TransactionsSource,
    WaitForReadySignal,
};
use fuel_core_services::stream::BoxStream;
use fuel_core_storage::transactional::Changes;
use fuel_core_types::{
    blockchain::{
        SealedBlock,
        block::Block,
        consensus::{
            Consensus,
            poa::PoAConsensus,
        },
    },
    fuel_types::BlockHeight,
    services::{
        block_importer::{
            BlockImportInfo,
            UncommittedResult as UncommittedImportResult,
        },
        executor::{
            ExecutionResult,
            UncommittedResult as UncommittedExecutionResult,
        },
    },
    signer::SignMode,
    tai64::Tai64,
};
use std::{
    sync::Arc,
    time::Duration,
};
use tokio::time::{
    Instant,
    sleep,
};
use tokio_stream::wrappers::UnboundedReceiverStream;

pub const TAG_OWN: u64 = 1;
pub const TAG_NET: u64 = 2;
pub const TAG_OTHER_LEADER: u64 = 3;
pub const TAG_PREDEFINED: u64 = 4;

#[derive(Clone)]
pub struct Sim {
    pub sh: Shared,
    pub key: Arc<SignMode>,
}

async fn nap(ms: u64) {
    if ms > 0 {
        sleep(Duration::from_millis(ms)).await;
    }
}

fn short(id: &fuel_core_types::blockchain::primitives::BlockId) -> String {
    let b = id.as_slice();
    format!("{:02x}{:02x}{:02x}{:02x}", b[0], b[1], b[2], b[3])
}

fn execution_result(block: Block) -> UncommittedExecutionResult<Changes> {
    UncommittedExecutionResult::new(
        ExecutionResult {
            block,
            skipped_transactions: Default::default(),
            tx_status: Default::default(),
            events: Default::default(),
        },
        Changes::default(),
    )
}

impl TransactionPool for Sim {
    fn new_txs_watcher(&self) -> tokio::sync::watch::Receiver<()> {
        with(&self.sh, |s| s.tx_notify.subscribe())
    }
}

impl GetTime for Sim {
    fn now(&self) -> Tai64 {
        with(&self.sh, |s| Tai64(s.clock_now()))
    }
}

impl WaitForReadySignal for Sim {
    async fn wait_for_ready_signal(&self) {
        let (flag, notify) = with(&self.sh, |s| (s.ready.clone(), s.ready_notify.clone()));
        loop {
            if flag.load(std::sync::atomic::Ordering::SeqCst) {
                return;
            }
            notify.notified().await;
        }
    }
}

impl P2pPort for Sim {
    fn reserved_peers_count(&self) -> BoxStream<usize> {
        let rx = with(&self.sh, |s| s.peers_rx.take()).expect("reserved_peers_count called once");
        Box::pin(UnboundedReceiverStream::new(rx))
    }
}

impl PredefinedBlocks for Sim {
    fn get_block(&self, height: &BlockHeight) -> anyhow::Result<Option<Block>> {
        let h: u32 = (*height).into();
        with(&self.sh, |s| {
            if s.predefined.is_empty() {
                return Ok(None);
            }
            // `get_block` is synchronous and an error is retried immediately by the task:
            // at most two errors in a row so that the retry loop ends.
            if s.predef_err_streak < 2 && s.fire(s.cfg.f_predef_err) {
                s.predef_err_streak += 1;
                s.fault("predefined_read_error");
                s.ev(format!("predefined.get_block({h}) -> error"));
                return Err(anyhow!("injected: cannot read predefined block {h}"));
            }
            s.predef_err_streak = 0;
            let b = s.predefined.get(&h).cloned();
            if b.is_some() {
                s.ev(format!("predefined.get_block({h}) -> block"));
            }
            Ok(b)
        })
    }
}

#[async_trait::async_trait]
impl BlockSigner for Sim {
    async fn seal_block(&self, block: &Block) -> anyhow::Result<Consensus> {
        let id = block.id();
        let h: u32 = (*block.header().height()).into();
        let (pre, fail) = with(&self.sh, |s| {
            s.watchdog("seal_block");
            s.ev(format!("seal h={h} id={}", short(&id)));
            let fail = s.fire(s.cfg.f_seal);
            (s.lat(), fail)
        });
        nap(pre).await;
        if fail {
            nap(1).await;
            with(&self.sh, |s| {
                s.fault("signer_error");
                s.ev(format!("seal h={h} -> error"));
            });
            return Err(anyhow!("injected: signer failed"));
        }
        // the same computation as `FuelBlockSigner::seal_block`
        let signature = self.key.sign_message(id.into_message()).await?;
        let post = with(&self.sh, |s| {
            s.sealed.insert(id_bytes(&id));
            s.lat()
        });
        nap(post).await;
        Ok(Consensus::PoA(PoAConsensus::new(signature)))
    }

    fn is_available(&self) -> bool {
        with(&self.sh, |s| {
            if !s.signer_available {
                s.ev("signer.is_available -> false");
                s.probe("produce_refused_signer_unavailable");
            }
            s.signer_available
        })
    }
}

#[async_trait::async_trait]
impl BlockProducer for Sim {
    async fn produce_and_execute_block(
        &self,
        height: BlockHeight,
        block_time: Tai64,
        source: TransactionsSource,
        deadline: Instant,
    ) -> anyhow::Result<UncommittedExecutionResult<Changes>> {
        let h: u32 = height.into();
        let (specific, txs) = match source {
            TransactionsSource::TxPool => (false, vec![]),
            TransactionsSource::SpecificTransactions(txs) => (true, txs),
        };
        let pre = with(&self.sh, |s| {
            s.watchdog("produce_and_execute_block");
            let t = s.now_ms();
            let ambiguous = specific || s.manual_inflight > 0;
            let now = Instant::now();
            let dl = if deadline >= now {
                deadline.duration_since(now).as_millis() as i64
            } else {
                -(now.duration_since(deadline).as_millis() as i64)
            };
            s.op(format!(
                "produce h={h} time={} src={} deadline={dl:+}ms{}",
                s.rel(block_time.0),
                if specific { "txs" } else { "pool" },
                if ambiguous { " (maybe manual)" } else { "" }
            ));
            s.check_height("produce", h);
            s.check_time("produce", h, block_time.0);
            s.check_interval(h, t, ambiguous);
            if let Some(prev) = &s.attempt {
                if prev.h == h && !prev.predefined {
                    s.probe("same_height_requested_again");
                }
            }
            s.attempt = Some(Attempt {
                h,
                t_ms: t,
                ambiguous,
                predefined: false,
            });
            if s.fire(s.cfg.f_produce_slow) {
                s.fault("producer_slower_than_timeout");
                s.cfg.production_timeout_ms + 1 + s.tape.choose(500)
            } else {
                s.lat()
            }
        });
        nap(pre).await;
        let res = with(&self.sh, |s| {
            if s.fire(s.cfg.f_produce) {
                s.fault("producer_error");
                return Err(anyhow!("injected: block production failed"));
            }
            let tip = s.tip().clone();
            if h != tip.h.saturating_add(1) {
                if s.cfg.strict_producer {
                    s.probe("producer_rejected_stale_height");
                    return Err(anyhow!(
                        "MustProduceBlockWithExpectedHeight requested {h} expected {}",
                        tip.h.saturating_add(1)
                    ));
                }
                s.probe("lenient_producer_built_stale_height");
            }
            let prev = s
                .block_at(h.wrapping_sub(1))
                .map(|b| b.id)
                .unwrap_or(tip.id);
            Ok(make_block(h, block_time.0, &prev, TAG_OWN, txs))
        });
        match res {
            Err(e) => {
                nap(1).await;
                with(&self.sh, |s| s.ev(format!("produce h={h} -> error: {e}")));
                Err(e)
            }
            Ok(block) => {
                let post = with(&self.sh, |s| s.lat());
                nap(post).await;
                with(&self.sh, |s| {
                    s.ev(format!("produce h={h} -> block {}", short(&block.id())))
                });
                Ok(execution_result(block))
            }
        }
    }

    async fn produce_predefined_block(
        &self,
        block: &Block,
    ) -> anyhow::Result<UncommittedExecutionResult<Changes>> {
        let hpd: u32 = (*block.header().height()).into();
        let time = block.header().time().0;
        let pre = with(&self.sh, |s| {
            s.watchdog("produce_predefined_block");
            let t = s.now_ms();
            s.op(format!("produce-predefined h={hpd} time={}", s.rel(time)));
            s.check_height("produce-predefined", hpd);
            s.attempt = Some(Attempt {
                h: hpd,
                t_ms: t,
                ambiguous: true,
                predefined: true,
            });
            s.lat()
        });
        nap(pre).await;
        let res = with(&self.sh, |s| {
            if s.fire(s.cfg.f_produce) {
                s.fault("producer_error");
                return Err(anyhow!("injected: predefined block production failed"));
            }
            // Like `Producer::produce_and_execute_predefined`: the header is built on the
            // latest DB block (height = DB height + 1), time and transactions are taken from
            // the predefined block.
            let tip = s.tip().clone();
            let h = tip.h.saturating_add(1);
            if h != hpd {
                s.probe("predefined_block_rebased_on_db_height");
            }
            if time < tip.time {
                s.probe("predefined_time_below_parent(input)");
            }
            if let Some(a) = s.attempt.as_mut() {
                a.h = h;
            }
            Ok(make_block(
                h,
                time,
                &tip.id,
                TAG_PREDEFINED,
                block.transactions().to_vec(),
            ))
        });
        match res {
            Err(e) => {
                nap(1).await;
                with(&self.sh, |s| s.ev(format!("produce-predefined h={hpd} -> error: {e}")));
                Err(e)
            }
            Ok(b) => {
                let post = with(&self.sh, |s| s.lat());
                nap(post).await;
                with(&self.sh, |s| {
                    s.ev(format!(
                        "produce-predefined h={hpd} -> block {} at height {}",
                        short(&b.id()),
                        u32::from(*b.header().height())
                    ))
                });
                Ok(execution_result(b))
            }
        }
    }
}

#[async_trait::async_trait]
impl BlockImporter for Sim {
    async fn commit_result(
        &self,
        result: UncommittedImportResult<Changes>,
    ) -> anyhow::Result<()> {
        let (res, _changes) = result.into();
        let sealed = res.sealed_block;
        let h: u32 = (*sealed.entity.header().height()).into();
        let time = sealed.entity.header().time().0;
        let id = sealed.entity.id();
        let pre = with(&self.sh, |s| {
            s.watchdog("commit_result");
            s.op(format!(
                "commit h={h} time={} id={} db={}",
                s.rel(time),
                short(&id),
                s.latest()
            ));
            s.check_height("commit", h);
            let predefined = s.attempt.as_ref().map(|a| a.predefined).unwrap_or(false);
            if !predefined {
                s.check_time("commit", h, time);
            }
            s.check_sealed(&sealed);
            s.lat()
        });
        nap(pre).await;
        let mut fenced = false;
        let res = with(&self.sh, |s| {
            if s.fire(s.cfg.f_commit) {
                s.fault("importer_error_nothing_committed");
                return Err(anyhow!("injected: importer failed before the commit"));
            }
            // create_block_changes
            if !matches!(sealed.consensus, Consensus::PoA(_)) {
                return Err(anyhow!("InvalidUnderlyingDatabaseGenesisState / unsupported consensus"));
            }
            let expected = s.latest().saturating_add(1);
            if h != expected {
                s.probe("importer_rejected_incorrect_height");
                return Err(anyhow!("IncorrectBlockHeight expected {expected} got {h}"));
            }
            // publish_produced_block (leader lease fencing) comes before the DB commit
            if s.cfg.ha && (s.role == Role::Follower || s.redis.contains_key(&h)) {
                s.probe("importer_rejected_by_lease_fencing");
                fenced = true;
                return Err(anyhow!("FailedBlockReconciliationWrite: fencing rejected the block"));
            }
            let predefined = s.attempt.as_ref().map(|a| a.predefined).unwrap_or(false);
            if s.fire(s.cfg.f_commit_lostack) {
                s.fault("importer_committed_but_reported_error");
                s.db_append(&sealed.entity, Origin::OwnLostAck, predefined);
                return Err(anyhow!("injected: commit applied but the acknowledgement was lost"));
            }
            s.db_append(&sealed.entity, Origin::Own, predefined);
            Ok(())
        });
        match res {
            Err(e) => {
                // a quorum write to the lease store that ends in a fencing error takes a while
                nap(if fenced { 100 } else { 1 }).await;
                with(&self.sh, |s| s.ev(format!("commit h={h} -> error: {e}")));
                Err(e)
            }
            Ok(()) => {
                let post = with(&self.sh, |s| s.lat());
                nap(post).await;
                with(&self.sh, |s| {
                    s.l_known = s.l_known.max(h);
                    s.own_commits += 1;
                    s.last_own_commit_ms = s.now_ms();
                    let base = match &s.attempt {
                        Some(a)
                            if a.h == h
                                && !a.ambiguous
                                && !a.predefined
                                && s.latest() == h
                                && s.cfg.trig == Trig::Interval =>
                        {
                            Some((h, a.t_ms))
                        }
                        _ => None,
                    };
                    s.interval_base = base;
                    s.ev(format!("commit h={h} -> ok"));
                });
                Ok(())
            }
        }
    }

    async fn execute_and_commit(&self, block: SealedBlock) -> anyhow::Result<()> {
        let h: u32 = (*block.entity.header().height()).into();
        let time = block.entity.header().time().0;
        let pre = with(&self.sh, |s| {
            s.watchdog("execute_and_commit");
            s.op(format!(
                "reconcile-import h={h} time={} db={}",
                s.rel(time),
                s.latest()
            ));
            s.check_height("reconcile", h);
            s.lat()
        });
        nap(pre).await;
        let res = with(&self.sh, |s| {
            if s.fire(s.cfg.f_recon_import) {
                s.fault("importer_error_on_reconciliation_import");
                return Err(anyhow!("injected: execute_and_commit failed"));
            }
            let expected = s.latest().saturating_add(1);
            if h != expected {
                s.probe("importer_rejected_reconciliation_height");
                return Err(anyhow!("IncorrectBlockHeight expected {expected} got {h}"));
            }
            s.db_append(&block.entity, Origin::Reconciled, false);
            Ok(())
        });
        match res {
            Err(e) => {
                nap(1).await;
                with(&self.sh, |s| s.ev(format!("reconcile-import h={h} -> error: {e}")));
                Err(e)
            }
            Ok(()) => {
                let post = with(&self.sh, |s| s.lat());
                nap(post).await;
                with(&self.sh, |s| {
                    s.l_known = s.l_known.max(h);
                    s.probe("reconciliation_import_ok");
                    s.ev(format!("reconcile-import h={h} -> ok"));
                });
                Ok(())
            }
        }
    }

    fn block_stream(&self) -> BoxStream<BlockImportInfo> {
        let rx = with(&self.sh, |s| s.stream_rx.take()).expect("block_stream called once");
        Box::pin(UnboundedReceiverStream::new(rx))
    }

    fn latest_block_height(&self) -> anyhow::Result<Option<BlockHeight>> {
        with(&self.sh, |s| {
            if s.fire(s.cfg.f_dbread) {
                s.fault("db_height_read_error");
                s.ev("db.latest_block_height -> error");
                return Err(anyhow!("injected: database read failed"));
            }
            let h = s.latest();
            if h > s.l_known {
                s.probe("task_learned_height_from_db_read");
            }
            s.db_read_max = s.db_read_max.max(h);
            s.l_known = s.l_known.max(h);
            s.ev(format!("db.latest_block_height -> {h}"));
            Ok(Some(h.into()))
        })
    }
}

#[async_trait::async_trait]
impl BlockReconciliationReadPort for Sim {
    async fn leader_state(&self, next_height: BlockHeight) -> anyhow::Result<LeaderState> {
        let next: u32 = next_height.into();
        let (ha, pre) = with(&self.sh, |s| {
            s.watchdog("leader_state");
            s.check_height("leader-state", next);
            if !s.cfg.ha {
                return (false, 0);
            }
            s.ev(format!("leader_state next={next}"));
            (true, 1 + s.lat())
        });
        if !ha {
            // NoopReconciliationAdapter
            return Ok(LeaderState::ReconciledLeader);
        }
        nap(pre).await;
        let (extra, res, text) = with(&self.sh, |s| {
            if s.fire(s.cfg.f_recon_err) {
                s.fault("leader_state_error");
                let d = 20 + s.tape.choose(180);
                return (d, Err(anyhow!("injected: redis quorum unreachable")), "error".to_string());
            }
            if s.role == Role::Follower {
                let d = 50 + s.tape.choose(250);
                return (d, Ok(LeaderState::ReconciledFollower), "follower".to_string());
            }
            // leader: everything the other leader wrote from `next` on, contiguous; the real
            // adapter may also hand over entries the DB already has when p2p raced.
            let mut start = next;
            if !s.redis_hist.is_empty() && s.tape.chance(1, 3) {
                let back = 1 + s.tape.choose(2) as u32;
                let mut c = next;
                for _ in 0..back {
                    if c > 0 && s.redis_hist.contains_key(&(c - 1)) {
                        c -= 1;
                    }
                }
                start = c;
            }
            let mut blocks = Vec::new();
            let mut c = start;
            loop {
                // entries stay in the lease store's stream after they reached the local DB
                match s.redis.get(&c).or_else(|| s.redis_hist.get(&c)) {
                    Some(b) => blocks.push(b.clone()),
                    None => break,
                }
                c += 1;
            }
            let has_new = blocks
                .iter()
                .any(|b| u32::from(*b.entity.header().height()) >= next);
            if !has_new {
                return (0, Ok(LeaderState::ReconciledLeader), "leader".to_string());
            }
            if start < next {
                s.probe("unreconciled_list_contains_known_heights");
            }
            let hs: Vec<u32> = blocks
                .iter()
                .map(|b| u32::from(*b.entity.header().height()))
                .collect();
            (
                0,
                Ok(LeaderState::UnreconciledBlocks(blocks)),
                format!("unreconciled {hs:?}"),
            )
        });
        nap(extra).await;
        with(&self.sh, |s| s.ev(format!("leader_state next={next} -> {text}")));
        res
    }

    async fn release(&self) -> anyhow::Result<()> {
        let (ha, pre, fail) = with(&self.sh, |s| {
            s.watchdog("release");
            if !s.cfg.ha {
                return (false, 0, false);
            }
            s.ev("release lease");
            let fail = s.fire(s.cfg.f_release_err);
            (true, 1 + s.lat(), fail)
        });
        if !ha {
            return Ok(());
        }
        nap(pre).await;
        if fail {
            with(&self.sh, |s| s.fault("lease_release_error"));
            return Err(anyhow!("injected: failed to release lease on quorum"));
        }
        Ok(())
    }
}
