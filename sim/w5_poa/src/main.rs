//! W5 poa — the REAL PoA block production service (`fuel_core_poa::service::new_service`:
//! `MainTask` + `SyncTask` under `ServiceRunner`) on a paused current-thread tokio runtime,
//! wired to simulated parties: block producer, block importer (the committed chain, block
//! stream incl. network imports), signer, txpool watcher, predefined blocks, leader lease /
//! reconciliation port, reserved-peers stream, `GetTime` clock, manual production clients.
//! One tape decides configuration, workload, latencies and faults. Property: C24.

mod model;
mod ports;

use fuel_core_chain_config::default_consensus_dev_key;
use fuel_core_poa::{
    Config,
    Trigger,
    service::{
        Mode,
        new_service,
    },
};
use fuel_core_services::{
    Service as _,
    State,
};
use fuel_core_types::{
    blockchain::{
        SealedBlock,
        consensus::{
            Consensus,
            poa::PoAConsensus,
        },
        primitives::BlockId,
    },
    fuel_tx::{
        Input,
        Transaction,
    },
    fuel_types::Bytes32,
    secrecy::Secret,
    signer::SignMode,
    tai64::Tai64,
};
use model::*;
use ports::*;
use simkit::{
    Ctx,
    Tape,
    Tier,
    World,
};
use std::{
    collections::{
        BTreeMap,
        BTreeSet,
        VecDeque,
    },
    sync::{
        Arc,
        Mutex,
        atomic::{
            AtomicBool,
            Ordering,
        },
    },
    time::Duration,
};
use tokio::time::{
    Instant,
    sleep,
    timeout,
};

struct Poa;

fn draw_cfg(t: &mut Tape) -> Cfg {
    let trig = [Trig::Interval, Trig::Instant, Trig::Open, Trig::Never][t.weighted(&[4, 2, 2, 2])];
    let period_ms = *t.pick(&[1000u64, 2000, 500, 250, 3000, 10_000]);
    let production_timeout_ms = *t.pick(&[20_000u64, 2000, 700]);
    let min_peers = *t.pick(&[0usize, 0, 1, 2]);
    let mut time_until_synced_ms = *t.pick(&[0u64, 0, 500, 2000, 5000]);
    let ha = t.chance(1, 3);
    let net = t.chance(1, 2);
    // Without a timer SyncTask can never (again) report Synced once it needs peers or saw a
    // network block, and the task then never produces: keep such configurations, but rare.
    if time_until_synced_ms == 0 && (min_peers > 0 || net || ha) && !t.chance(1, 6) {
        time_until_synced_ms = 500;
    }
    let strict_producer = !t.chance(1, 4);
    let lat_max = *t.pick(&[0u64, 5, 50, 400]);
    let fault_free = t.chance(1, 8);
    let rate = |t: &mut Tape| -> u64 {
        if fault_free {
            0
        } else {
            *t.pick(&[0u64, 0, 0, 5, 15, 40])
        }
    };
    let f_produce = rate(t);
    let f_produce_slow = rate(t).min(15);
    let f_seal = rate(t);
    let f_commit = rate(t);
    let f_commit_lostack = rate(t).min(15);
    let f_dbread = rate(t);
    let f_stream_drop = rate(t).min(15);
    let f_recon_err = rate(t);
    let f_recon_import = rate(t);
    let f_release_err = rate(t);
    let f_predef_err = rate(t);
    let stream_delay_max = if fault_free {
        0
    } else {
        *t.pick(&[0u64, 0, 20, 300, 3000])
    };
    let clock_jumps = !fault_free && t.chance(1, 3);
    let predefined = t.chance(1, 5);
    let signer_toggles = !fault_free && !predefined && t.chance(1, 4);
    let delayed_ready = t.chance(1, 6);
    Cfg {
        trig,
        period_ms,
        production_timeout_ms,
        min_peers,
        time_until_synced_ms,
        ha,
        net,
        strict_producer,
        lat_max,
        stream_delay_max,
        f_produce,
        f_produce_slow,
        f_seal,
        f_commit,
        f_commit_lostack,
        f_dbread,
        f_stream_drop,
        f_recon_err,
        f_recon_import,
        f_release_err,
        f_predef_err,
        clock_jumps,
        signer_toggles,
        predefined,
        delayed_ready,
    }
}

/// A harness task; a panic inside it must not be swallowed by tokio.
fn spawn_h<F>(flag: &Arc<AtomicBool>, fut: F)
where
    F: std::future::Future<Output = ()> + Send + 'static,
{
    struct Guard(Arc<AtomicBool>);
    impl Drop for Guard {
        fn drop(&mut self) {
            if std::thread::panicking() {
                self.0.store(true, Ordering::SeqCst);
            }
        }
    }
    let g = Guard(flag.clone());
    tokio::spawn(async move {
        let _g = g;
        fut.await;
    });
}

/// A block imported from the network (not through the task) on top of the DB tip.
fn foreign_import(s: &mut Sh) {
    let tip = s.tip().clone();
    let h = tip.h + 1;
    let now = s.clock_now();
    let time = match s.tape.choose(5) {
        0 => tip.time.max(now),
        1 => tip.time,
        // the producer of that block had a clock ahead of ours
        2 => tip.time.max(now + 1 + s.tape.choose(30)),
        // ... or behind
        3 => tip.time.max(now.saturating_sub(1 + s.tape.choose(30))),
        _ => tip.time + s.tape.choose(5),
    };
    let block = make_block(h, time, &tip.id, TAG_NET, vec![]);
    s.op(format!("net-import h={h} time={}", s.rel(time)));
    s.net_imports += 1;
    s.db_append(&block, Origin::Net, false);
}

/// The other leader (we are follower) writes blocks to the lease store.
fn other_leader_blocks(s: &mut Sh, n: u32) {
    for _ in 0..n {
        let (ph, ptime, pid): (u32, u64, BlockId) = match s.redis.iter().next_back() {
            Some((h, b)) => (*h, b.entity.header().time().0, b.entity.id()),
            None => {
                let t = s.tip();
                (t.h, t.time, t.id)
            }
        };
        let now = s.clock_now();
        let time = match s.tape.choose(4) {
            0 => ptime.max(now),
            1 => ptime,
            2 => ptime.max(now + 1 + s.tape.choose(10)),
            _ => ptime + s.tape.choose(3),
        };
        let block = make_block(ph + 1, time, &pid, TAG_OTHER_LEADER, vec![]);
        s.op(format!("other-leader wrote h={} time={}", ph + 1, s.rel(time)));
        s.redis.insert(
            ph + 1,
            SealedBlock {
                entity: block,
                consensus: Consensus::PoA(PoAConsensus::new(Default::default())),
            },
        );
    }
}

/// p2p delivers the next block of the other leader (if it is the next DB height).
fn p2p_deliver(s: &mut Sh) -> bool {
    let next = s.latest() + 1;
    let Some(b) = s.redis.get(&next).cloned() else {
        return false;
    };
    s.op(format!(
        "net-import (other leader's block) h={next} time={}",
        s.rel(b.entity.header().time().0)
    ));
    s.net_imports += 1;
    s.db_append(&b.entity, Origin::Net, false);
    true
}

fn manual_mode_text(m: &Mode) -> String {
    match m {
        Mode::Blocks { number_of_blocks } => format!("blocks({number_of_blocks})"),
        Mode::BlockWithTransactions(t) => format!("block_with_txs({})", t.len()),
    }
}

impl World for Poa {
    fn name(&self) -> &'static str {
        "w5_poa"
    }
    fn properties(&self) -> Vec<&'static str> {
        vec!["C24"]
    }
    fn real_components(&self) -> Vec<&'static str> {
        vec![
            "fuel_core_poa::service::{new_service, MainTask} (run loop, triggers Never/Instant/Interval/Open, manual production, predefined blocks, reconciliation path, next_time/increase_time)",
            "fuel_core_poa::sync::SyncTask (started by MainTask::into_task, fed by the simulated block stream and reserved-peers stream)",
            "fuel_core_services::ServiceRunner (task lifecycle, panic capture)",
            "fuel_core_poa::service::SharedState::manually_produce_block",
            "fuel_core_poa::verifier::verify_consensus + SignMode::sign_message (real secp256k1 seal and its verification in the oracle)",
            "tokio time (paused, auto-advancing) and sync primitives",
        ]
    }
    fn stubs(&self) -> Vec<&'static str> {
        vec![
            "block producer (builds a header-only block for the requested height/time; rejects height != DB height+1 like the real Producer in 3 of 4 runs)",
            "block importer (in-memory chain; rejects height != latest+1 and non-PoA consensus like create_block_changes; lease fencing in HA runs; emits the block stream)",
            "signer (real SignMode::Key signature, injected failures / unavailability)",
            "leader lease + reconciliation port (model of the Redis adapter's answers: leader / follower / unreconciled blocks / error; no Redis protocol)",
            "network (blocks appear in the DB behind the task's back), txpool notifications, reserved-peer counts, predefined block store, GetTime clock",
        ]
    }
    fn default_runs(&self, _prop: &str, tier: Tier) -> u64 {
        match tier {
            Tier::Quick => 6000,
            Tier::Thorough => 150_000,
        }
    }
    fn nontrivial_min_ops(&self, _prop: &str) -> u64 {
        5
    }
    fn assumptions(&self, _prop: &str) -> Vec<String> {
        vec![
            "height clause: every produce/commit request h satisfies L < h <= K+1 (L = highest height the task was told or committed itself, K = DB height); equals 'exactly the next height' whenever no block entered the DB behind the task's back".into(),
            "timestamp clause is evaluated against the parent block in the DB when the request is for the next DB height (what verify_block_fields enforces on other nodes); predefined blocks carry an operator-given time and are exempt".into(),
            "interval clause is evaluated between production starts of directly successive, unambiguously trigger-produced blocks with nothing else extending the chain in between".into(),
            "liveness is not part of the property text; it is asserted only after all faults stopped, when the sync configuration allows the node to become synced again, with a generous bound".into(),
            "a failing port call costs >= 1 ms of virtual time; get_block fails at most twice in a row; signer availability only changes in runs without predefined blocks (otherwise the task's immediate-retry paths would spin without time passing)".into(),
        ]
    }
    fn uses_global_clock(&self) -> bool {
        false
    }

    fn run(&self, ctx: &mut Ctx) {
        ctx.scope(PROP);
        // prometheus registry of fuel-core-metrics is process global and every ServiceRunner
        // registers into it (and re-encodes it): start each run from an empty registry.
        *fuel_core_metrics::global_registry().registry.lock() = Default::default();

        let thorough = ctx.tier == Tier::Thorough;
        let cfg = draw_cfg(&mut ctx.tape);
        let h0 = *ctx.tape.pick(&[1u32, 0, 7, 100_000]);
        let age: i64 = *ctx.tape.pick(&[0i64, 1, 10, 1000, -5]);
        let max_steps = if thorough { 60 } else { 33 };
        let steps = 8 + ctx.tape.choose(max_steps);

        let clock_base = Tai64::UNIX_EPOCH.0 + 1_700_000_000;
        let init_time = (clock_base as i64 - age) as u64;
        let key = default_consensus_dev_key();
        let signer_addr = Input::owner(&key.public_key());
        let sign_mode = Arc::new(SignMode::Key(Secret::new(key.into())));

        ctx.ev(format!(
            "cfg {cfg:?} h0={h0} init_age={age}s steps={steps}"
        ));

        let rt = tokio::runtime::Builder::new_current_thread()
            .enable_time()
            .start_paused(true)
            .rng_seed(tokio::runtime::RngSeed::from_bytes(b"w5_poa"))
            .build()
            .expect("runtime");

        let tape = std::mem::replace(&mut ctx.tape, Tape::replay(vec![]));
        let harness_panic = Arc::new(AtomicBool::new(false));
        let mut service_panic: Option<String> = None;
        let sh_out: Shared;
        {
            let _enter = rt.enter();
            let (stream_tx, stream_rx) = tokio::sync::mpsc::unbounded_channel();
            let (peers_tx, peers_rx) = tokio::sync::mpsc::unbounded_channel();
            let (tx_notify, _) = tokio::sync::watch::channel(());
            let zero = BlockId::from(Bytes32::zeroed());
            let init_block = make_block(h0, init_time, &zero, 0, vec![]);
            let init = ChainBlock {
                h: h0,
                time: init_time,
                id: init_block.id(),
                origin: Origin::Init,
                header: init_block.header().clone(),
                predefined: false,
            };
            let sh = Sh {
                tape,
                out: Vec::new(),
                t0: Instant::now(),
                cfg: cfg.clone(),
                faults_on: true,
                clock_base,
                clock_off_ms: 0,
                chain: vec![init],
                foreign_seen: false,
                net_imports: 0,
                l_known: h0,
                db_read_max: 0,
                signer_available: true,
                signer_addr,
                sealed: BTreeSet::new(),
                attempt: None,
                interval_base: None,
                manual_inflight: 0,
                own_commits: 0,
                last_own_commit_ms: 0,
                stream_q: VecDeque::new(),
                stream_last_at: 0,
                stream_tx: Some(stream_tx),
                stream_rx: Some(stream_rx),
                stream_notify: Arc::new(tokio::sync::Notify::new()),
                stream_dropped: 0,
                peers_tx: Some(peers_tx),
                peers_rx: Some(peers_rx),
                tx_notify,
                ready: Arc::new(AtomicBool::new(!cfg.delayed_ready)),
                ready_notify: Arc::new(tokio::sync::Notify::new()),
                role: Role::Leader,
                redis: BTreeMap::new(),
                redis_hist: BTreeMap::new(),
                predefined: BTreeMap::new(),
                predef_err_streak: 0,
                wd_instant: 0,
                wd_calls: 0,
            };
            let sh: Shared = Arc::new(Mutex::new(sh));
            sh_out = sh.clone();
            rt.block_on(drive(
                sh.clone(),
                sign_mode,
                cfg.clone(),
                steps,
                ctx,
                harness_panic.clone(),
                &mut service_panic,
            ));
        }
        drop(rt);
        ctx.tape = with(&sh_out, |s| {
            s.flush(ctx);
            std::mem::replace(&mut s.tape, Tape::replay(vec![]))
        });
        if harness_panic.load(Ordering::SeqCst) {
            panic!("a w5_poa harness task panicked (see first panic location)");
        }
        if ctx.failed() {
            // a violation was recorded before the task died (e.g. the zero-time-loop watchdog
            // fired after the oracle had already flagged the requests): report the violation
            return;
        }
        if let Some(msg) = service_panic {
            // The ServiceRunner caught a panic of the task (fuel-core code or a sim port called
            // by it). Re-raise it: simkit attributes it by the location of the first panic.
            std::panic::resume_unwind(Box::new(msg));
        }
    }
}

fn service_state_panic(state: State) -> Option<String> {
    match state {
        State::StoppedWithError(m) => Some(m),
        _ => None,
    }
}

#[allow(clippy::too_many_arguments)]
async fn drive(
    sh: Shared,
    key: Arc<SignMode>,
    cfg: Cfg,
    steps: u64,
    ctx: &mut Ctx,
    hp: Arc<AtomicBool>,
    service_panic: &mut Option<String>,
) {
    let sim = Sim {
        sh: sh.clone(),
        key,
    };
    let period = cfg.period_ms;

    // ---- predefined blocks (operator input) ----
    if cfg.predefined {
        with(&sh, |s| {
            let h0 = s.latest();
            let t0 = s.tip().time;
            let zero = BlockId::from(Bytes32::zeroed());
            for i in 1..=6u32 {
                if s.tape.coin() {
                    let dt = *s.tape.pick(&[0u64, 1, 5, 60]) * i as u64;
                    let b = make_block(h0 + i, t0 + dt, &zero, TAG_PREDEFINED, vec![]);
                    s.ev(format!("predefined block for h={} time={}", h0 + i, s.rel(t0 + dt)));
                    s.predefined.insert(h0 + i, b);
                }
            }
        });
    }

    // ---- the service under test ----
    let trigger = match cfg.trig {
        Trig::Interval => Trigger::Interval {
            block_time: Duration::from_millis(period),
        },
        Trig::Open => Trigger::Open {
            period: Duration::from_millis(period),
        },
        Trig::Instant => Trigger::Instant,
        Trig::Never => Trigger::Never,
    };
    let config = Config {
        trigger,
        signer: SignMode::Unavailable,
        metrics: false,
        min_connected_reserved_peers: cfg.min_peers,
        time_until_synced: Duration::from_millis(cfg.time_until_synced_ms),
        production_timeout: Duration::from_millis(cfg.production_timeout_ms),
        chain_id: Default::default(),
    };
    let last_header = with(&sh, |s| s.tip().header.clone());
    ctx.ev("new_service");
    let service = new_service(
        &last_header,
        config,
        sim.clone(),
        sim.clone(),
        sim.clone(),
        sim.clone(),
        Arc::new(sim.clone()),
        sim.clone(),
        sim.clone(),
        sim.clone(),
        sim.clone(),
    );

    // block stream pump: FIFO, each item not before its (tape-chosen) delivery time
    {
        let sh = sh.clone();
        spawn_h(&hp, async move {
            let (notify, t0) = with(&sh, |s| (s.stream_notify.clone(), s.t0));
            loop {
                let next = with(&sh, |s| s.stream_q.front().map(|x| x.0));
                match next {
                    None => notify.notified().await,
                    Some(at) => {
                        tokio::time::sleep_until(t0 + Duration::from_millis(at)).await;
                        with(&sh, |s| {
                            if let Some((_, info)) = s.stream_q.pop_front() {
                                s.ev(format!(
                                    "stream: deliver h={} local={}",
                                    u32::from(*info.block_header.height()),
                                    info.is_locally_produced()
                                ));
                                if let Some(tx) = &s.stream_tx {
                                    let _ = tx.send(info);
                                }
                            }
                        });
                    }
                }
            }
        });
    }

    // blocks that reach the DB between the read of `last_block` and the start of the task
    if cfg.net && !cfg.ha {
        with(&sh, |s| {
            let n = *s.tape.pick(&[0u32, 0, 0, 1, 2]);
            for _ in 0..n {
                foreign_import(s);
            }
        });
    }

    if let Err(e) = service.start_and_await().await {
        with(&sh, |s| s.ev(format!("start_and_await -> error {e}")));
    }
    with(&sh, |s| {
        s.ev("service started");
        s.flush(ctx);
    });

    let mut manual_id = 0u32;
    let mut ready_sent = !cfg.delayed_ready;

    for step in 0..steps {
        if ctx.failed() {
            break;
        }
        if let Some(m) = service_state_panic(service.state()) {
            *service_panic = Some(m);
            break;
        }
        // ---- choose and perform one workload operation ----
        let w_tx = if cfg.trig == Trig::Instant { 6 } else { 1 };
        let w_manual = match cfg.trig {
            Trig::Never => 8,
            Trig::Open => 1,
            _ => 3,
        };
        let w_net = if cfg.net && !cfg.ha { 4 } else { 0 };
        let w_clock = if cfg.clock_jumps { 2 } else { 0 };
        let w_signer = if cfg.signer_toggles { 1 } else { 0 };
        let w_ha = if cfg.ha { 1 } else { 0 };
        let w_peers = if cfg.min_peers > 0 || cfg.time_until_synced_ms > 0 {
            2
        } else {
            0
        };
        let w_ready = if ready_sent { 0 } else { 4 };
        let kind = with(&sh, |s| {
            s.tape.weighted(&[
                3,
                w_tx,
                w_manual,
                w_net,
                w_clock,
                w_signer,
                2 * w_ha,
                3 * w_ha,
                3 * w_ha,
                w_peers,
                w_ready,
            ])
        });
        match kind {
            0 => with(&sh, |s| s.op("idle")),
            1 => with(&sh, |s| {
                s.op("txpool: new executable transactions");
                s.tx_notify.send_replace(());
            }),
            2 => {
                manual_id += 1;
                let id = manual_id;
                let (start, mode, wait) = with(&sh, |s| {
                    let now = s.clock_now();
                    let tip_time = s.tip().time;
                    let start = match s.tape.weighted(&[4, 2, 1, 1, 1, 1, 1]) {
                        0 => None,
                        1 => Some(now),
                        2 => Some(now + 5),
                        3 => Some(now + 100),
                        4 => Some(tip_time),
                        5 => Some(tip_time.saturating_sub(1 + s.tape.choose(20))),
                        _ => Some(now.saturating_sub(50)),
                    };
                    let mode = if s.tape.chance(1, 5) {
                        let k = s.tape.choose(3) as usize;
                        Mode::BlockWithTransactions(vec![Transaction::default_test_tx(); k])
                    } else {
                        Mode::Blocks {
                            number_of_blocks: *s.tape.pick(&[1u32, 1, 2, 3, 4, 0]),
                        }
                    };
                    let wait = s.tape.coin();
                    s.op(format!(
                        "manual#{id} start_time={} mode={} wait={wait}",
                        start.map(|t| s.rel(t).to_string()).unwrap_or("none".into()),
                        manual_mode_text(&mode)
                    ));
                    s.manual_inflight += 1;
                    (start, mode, wait)
                });
                let shared = service.shared.clone();
                let (done_tx, done_rx) = tokio::sync::oneshot::channel::<()>();
                let sh2 = sh.clone();
                spawn_h(&hp, async move {
                    let r = shared.manually_produce_block(start.map(Tai64), mode).await;
                    with(&sh2, |s| {
                        s.manual_inflight -= 1;
                        match &r {
                            Ok(()) => {
                                s.probe("manual_request_ok");
                                s.ev(format!("manual#{id} -> ok"))
                            }
                            Err(e) => {
                                s.probe("manual_request_err");
                                s.ev(format!("manual#{id} -> error: {e}"))
                            }
                        }
                    });
                    let _ = done_tx.send(());
                });
                if wait {
                    let w = 4 * period + 2000 + cfg.production_timeout_ms.min(3000);
                    if timeout(Duration::from_millis(w), done_rx).await.is_err() {
                        with(&sh, |s| s.ev(format!("manual#{id} still pending after {w} ms")));
                    }
                }
            }
            3 => {
                let (delay, n, gaps) = with(&sh, |s| {
                    let delay = *s.tape.pick(&[0u64, 0, 1, period / 2, period, period + 1]);
                    let n = 1 + s.tape.choose(3);
                    let gaps: Vec<u64> = (0..n).map(|_| s.tape.choose(3) * (period / 4)).collect();
                    s.ev(format!("network: {n} block(s) will arrive in {delay} ms"));
                    (delay, n, gaps)
                });
                let sh2 = sh.clone();
                spawn_h(&hp, async move {
                    sleep(Duration::from_millis(delay)).await;
                    for i in 0..n as usize {
                        with(&sh2, foreign_import);
                        if gaps[i] > 0 {
                            sleep(Duration::from_millis(gaps[i])).await;
                        } else {
                            tokio::task::yield_now().await;
                        }
                    }
                });
            }
            4 => with(&sh, |s| {
                let d: i64 = match s.tape.choose(7) {
                    0 => 1000,
                    1 => 5000,
                    2 => 60_000,
                    3 => 3_600_000,
                    4 => -1000,
                    5 => -5000,
                    _ => -30_000,
                };
                s.clock_off_ms += d;
                s.fault(if d > 0 {
                    "clock_jump_forward"
                } else {
                    "clock_step_backward"
                });
                s.op(format!("clock jumps by {d} ms (now {})", s.rel(s.clock_now())));
            }),
            5 => with(&sh, |s| {
                s.signer_available = !s.signer_available;
                if !s.signer_available {
                    s.fault("signer_unavailable");
                }
                s.op(format!("signer available = {}", s.signer_available));
            }),
            6 => with(&sh, |s| {
                s.role = if s.role == Role::Leader {
                    Role::Follower
                } else {
                    Role::Leader
                };
                s.op(format!("lease: this node is now {:?}", s.role));
            }),
            7 => with(&sh, |s| {
                if s.role == Role::Follower {
                    let n = 1 + s.tape.choose(3) as u32;
                    other_leader_blocks(s, n);
                } else {
                    s.role = Role::Follower;
                    s.op("lease: this node is now Follower");
                }
            }),
            8 => {
                let (delay, n) = with(&sh, |s| {
                    let delay = *s.tape.pick(&[0u64, 0, 1, period / 2, period]);
                    let n = 1 + s.tape.choose(3);
                    s.ev(format!("p2p: up to {n} block(s) of the other leader arrive in {delay} ms"));
                    (delay, n)
                });
                let sh2 = sh.clone();
                spawn_h(&hp, async move {
                    sleep(Duration::from_millis(delay)).await;
                    for _ in 0..n {
                        if !with(&sh2, p2p_deliver) {
                            break;
                        }
                        tokio::task::yield_now().await;
                    }
                });
            }
            9 => with(&sh, |s| {
                let n = *s.tape.pick(&[cfg.min_peers, 0, cfg.min_peers + 1, 1]);
                s.op(format!("p2p: reserved peers connected = {n}"));
                if let Some(tx) = &s.peers_tx {
                    let _ = tx.send(n);
                }
            }),
            _ => with(&sh, |s| {
                s.op("block production ready signal");
                s.ready.store(true, Ordering::SeqCst);
                s.ready_notify.notify_one();
                ready_sent = true;
            }),
        }
        // ---- let simulated time pass ----
        let d = with(&sh, |s| {
            let base = period;
            *s.tape.pick(&[
                base,
                0,
                1,
                base / 4,
                base / 2,
                base - 1,
                base + 1,
                2 * base,
                3 * base + 7,
            ])
        });
        if d == 0 {
            for _ in 0..3 {
                tokio::task::yield_now().await;
            }
        } else {
            sleep(Duration::from_millis(d)).await;
        }
        with(&sh, |s| s.flush(ctx));
        let _ = step;
    }

    // ---- faults stop; liveness ----
    if !ctx.failed() && service_panic.is_none() {
        liveness(&sh, &cfg, &service.shared, ctx, &hp, &mut manual_id).await;
    }
    if let Some(m) = service_state_panic(service.state()) {
        *service_panic = Some(m);
    }

    // ---- shutdown ----
    with(&sh, |s| {
        s.faults_on = false;
        s.ev("stop service");
    });
    match timeout(Duration::from_secs(120), service.stop_and_await()).await {
        Ok(Ok(state)) => {
            if let Some(m) = service_state_panic(state) {
                service_panic.get_or_insert(m);
            }
        }
        Ok(Err(e)) => with(&sh, |s| s.ev(format!("stop_and_await -> error {e}"))),
        Err(_) => with(&sh, |s| s.ev("service did not stop within 120 s")),
    }
    with(&sh, |s| {
        let t = s.now_ms();
        s.ev(format!(
            "end: db height {} own commits {} net imports {}",
            s.latest(),
            s.own_commits,
            s.net_imports
        ));
        s.flush(ctx);
        ctx.sim_ms += t;
    });
}

async fn liveness(
    sh: &Shared,
    cfg: &Cfg,
    shared: &fuel_core_poa::service::SharedState,
    ctx: &mut Ctx,
    hp: &Arc<AtomicBool>,
    manual_id: &mut u32,
) {
    let period = cfg.period_ms;
    // all faults stop, the node holds the lease, has peers and a signing key; what the other
    // leader wrote arrives over p2p
    with(sh, |s| {
        s.faults_on = false;
        s.op("faults stop (liveness phase)");
        s.signer_available = true;
        s.role = Role::Leader;
        while p2p_deliver(s) {}
        s.redis.clear();
        s.ready.store(true, Ordering::SeqCst);
        s.ready_notify.notify_one();
        if let Some(tx) = &s.peers_tx {
            let _ = tx.send(cfg.min_peers.max(1));
        }
        s.flush(ctx);
    });
    let (net_imports, dropped) = with(sh, |s| (s.net_imports, s.stream_dropped));
    // SyncTask can only become Synced again through its timer; without a timer
    // (time_until_synced == 0) a network block or a peer requirement leaves it NotSynced for
    // good. Not part of C24: no expectation then.
    let can_sync = cfg.time_until_synced_ms > 0 || (cfg.min_peers == 0 && net_imports == 0);
    if !can_sync {
        ctx.probe("liveness_not_expected(sync_task_has_no_timer)");
        return;
    }
    if cfg.trig == Trig::Never && dropped > 0 {
        ctx.probe("liveness_not_expected(never_trigger_and_lost_stream_items)");
        return;
    }
    let retry = match cfg.trig {
        Trig::Interval | Trig::Open => period.max(1),
        _ => 1000,
    };
    let bound = cfg.time_until_synced_ms
        + cfg.stream_delay_max
        + cfg.production_timeout_ms
        + 4 * period
        + 2 * retry
        + 8 * cfg.lat_max
        + 2000;
    let before = with(sh, |s| s.own_commits);
    let start = with(sh, |s| s.now_ms());
    let step = (period / 2).clamp(50, 1000);
    let mut waited = 0;
    let mut committed = false;
    let mut next_manual_at = 0;
    while waited <= bound {
        match cfg.trig {
            Trig::Instant => with(sh, |s| {
                s.tx_notify.send_replace(());
            }),
            Trig::Never if waited >= next_manual_at => {
                // a manual request right after a network import may legitimately fail once
                // (the task learns the new height only at the start of its next iteration)
                next_manual_at = waited + bound / 4;
                *manual_id += 1;
                let id = *manual_id;
                with(sh, |s| {
                    s.manual_inflight += 1;
                    s.op(format!("manual#{id} start_time=none mode=blocks(1) (liveness)"));
                });
                let shared = shared.clone();
                let sh2 = sh.clone();
                spawn_h(hp, async move {
                    let r = shared
                        .manually_produce_block(
                            None,
                            Mode::Blocks {
                                number_of_blocks: 1,
                            },
                        )
                        .await;
                    with(&sh2, |s| {
                        s.manual_inflight -= 1;
                        s.ev(format!(
                            "manual#{id} -> {}",
                            match &r {
                                Ok(()) => "ok".to_string(),
                                Err(e) => format!("error: {e}"),
                            }
                        ));
                    });
                });
            }
            _ => {}
        }
        sleep(Duration::from_millis(step)).await;
        waited += step;
        let now_commits = with(sh, |s| {
            s.flush(ctx);
            s.own_commits
        });
        if ctx.failed() {
            return;
        }
        if now_commits > before {
            committed = true;
            break;
        }
    }
    with(sh, |s| {
        let took = s.now_ms() - start;
        if committed {
            s.probe("liveness_block_committed_after_faults_stopped");
        }
        s.check("liveness-no-commit-after-faults-stopped", committed, |s| {
            format!(
                "no block committed by the task within {bound} ms after all faults stopped (trigger {:?}, period {period} ms, waited {took} ms, db height {}, task knows {})",
                cfg.trig,
                s.latest(),
                s.l_known
            )
        });
        s.flush(ctx);
    });
}

fn main() {
    simkit::cli::main_world(&Poa)
}
