//! Status vocabulary of the harness: kinds, uniquely marked statuses, finality.
//!
//! Every status the harness hands to fuel-core carries a run-unique *marker* (in `total_gas`,
//! the submission timestamp or the reason text), so that every observation (subscription
//! item, `get_status` answer, broadcast item) can be traced back to exactly one publication
//! (or to a gossip batch that had to be rejected).

use fuel_core_types::{
    fuel_tx::TxId,
    services::{
        preconfirmation::{
            PreconfirmationStatus,
            SqueezedOut as PreconfSqueezedOut,
        },
        transaction_status::{
            PreConfirmationStatus,
            TransactionStatus,
            statuses,
        },
    },
    tai64::Tai64,
};
use std::sync::Arc;

#[derive(Clone, Copy, PartialEq, Eq, Debug, PartialOrd, Ord)]
pub enum Kind {
    Submitted,
    PreSuccess,
    PreFailure,
    PreSqueezed,
    Success,
    Failure,
    Squeezed,
}

impl Kind {
    pub const ALL: [Kind; 7] = [
        Kind::Submitted,
        Kind::PreSuccess,
        Kind::PreFailure,
        Kind::PreSqueezed,
        Kind::Success,
        Kind::Failure,
        Kind::Squeezed,
    ];
    pub const PRECONF: [Kind; 3] = [Kind::PreSuccess, Kind::PreFailure, Kind::PreSqueezed];

    /// The harness' own definition of "final" (property C22: success, failure or squeeze-out;
    /// a squeeze-out announced by a preconfirmation counts as a squeeze-out).
    pub fn is_final(self) -> bool {
        matches!(
            self,
            Kind::Success | Kind::Failure | Kind::Squeezed | Kind::PreSqueezed
        )
    }
    pub fn is_submitted(self) -> bool {
        self == Kind::Submitted
    }
    pub fn short(self) -> &'static str {
        match self {
            Kind::Submitted => "Sub",
            Kind::PreSuccess => "PreOk",
            Kind::PreFailure => "PreFail",
            Kind::PreSqueezed => "PreSqz",
            Kind::Success => "Ok",
            Kind::Failure => "Fail",
            Kind::Squeezed => "Sqz",
        }
    }
}

pub fn tx_id(i: usize) -> TxId {
    [(i as u8).wrapping_add(1); 32].into()
}

pub fn tx_index(id: &TxId, n: usize) -> Option<usize> {
    (0..n).find(|i| &tx_id(*i) == id)
}

/// A status for the `update_status` path.
pub fn mk_status(kind: Kind, marker: u64, tx: usize) -> TransactionStatus {
    match kind {
        Kind::Submitted => TransactionStatus::submitted(Tai64(marker)),
        Kind::Success => TransactionStatus::Success(Arc::new(statuses::Success {
            total_gas: marker,
            ..Default::default()
        })),
        Kind::Failure => TransactionStatus::Failure(Arc::new(statuses::Failure {
            total_gas: marker,
            ..Default::default()
        })),
        Kind::Squeezed => TransactionStatus::squeezed_out(format!("m{marker}"), tx_id(tx)),
        Kind::PreSuccess => TransactionStatus::PreConfirmationSuccess(Arc::new(
            statuses::PreConfirmationSuccess {
                total_gas: marker,
                ..Default::default()
            },
        )),
        Kind::PreFailure => TransactionStatus::PreConfirmationFailure(Arc::new(
            statuses::PreConfirmationFailure {
                total_gas: marker,
                ..Default::default()
            },
        )),
        Kind::PreSqueezed => {
            TransactionStatus::preconfirmation_squeezed_out(format!("m{marker}"))
        }
    }
}

/// A squeeze-out for the `update_statuses` path.
pub fn mk_squeezed(marker: u64, tx: usize) -> statuses::SqueezedOut {
    statuses::SqueezedOut::new(format!("m{marker}"), tx_id(tx))
}

/// A preconfirmation for the `update_preconfirmations` path and for gossip batches.
pub fn mk_preconf(kind: Kind, marker: u64, tx: usize) -> PreconfirmationStatus {
    match kind {
        Kind::PreSuccess => PreconfirmationStatus::Success {
            tx_pointer: Default::default(),
            total_gas: marker,
            total_fee: 0,
            receipts: Arc::new(vec![]),
            outputs: vec![],
        },
        Kind::PreFailure => PreconfirmationStatus::Failure {
            tx_pointer: Default::default(),
            total_gas: marker,
            total_fee: 0,
            receipts: Arc::new(vec![]),
            outputs: vec![],
        },
        _ => PreconfirmationStatus::SqueezedOut(PreconfSqueezedOut::new(
            format!("m{marker}"),
            tx_id(tx),
        )),
    }
}

fn marker_in_reason(reason: &str) -> Option<u64> {
    let rest = reason.strip_prefix('m')?;
    let digits: String = rest.chars().take_while(|c| c.is_ascii_digit()).collect();
    digits.parse().ok()
}

pub fn kind_of(s: &TransactionStatus) -> Kind {
    match s {
        TransactionStatus::Submitted(_) => Kind::Submitted,
        TransactionStatus::Success(_) => Kind::Success,
        TransactionStatus::PreConfirmationSuccess(_) => Kind::PreSuccess,
        TransactionStatus::SqueezedOut(_) => Kind::Squeezed,
        TransactionStatus::PreConfirmationSqueezedOut(_) => Kind::PreSqueezed,
        TransactionStatus::Failure(_) => Kind::Failure,
        TransactionStatus::PreConfirmationFailure(_) => Kind::PreFailure,
    }
}

pub fn marker_of(s: &TransactionStatus) -> Option<u64> {
    match s {
        TransactionStatus::Submitted(x) => Some(x.timestamp.0),
        TransactionStatus::Success(x) => Some(x.total_gas),
        TransactionStatus::PreConfirmationSuccess(x) => Some(x.total_gas),
        TransactionStatus::SqueezedOut(x) => marker_in_reason(x.reason()),
        TransactionStatus::PreConfirmationSqueezedOut(x) => marker_in_reason(&x.reason),
        TransactionStatus::Failure(x) => Some(x.total_gas),
        TransactionStatus::PreConfirmationFailure(x) => Some(x.total_gas),
    }
}

pub fn preconf_to_status(s: PreConfirmationStatus) -> TransactionStatus {
    match s {
        PreConfirmationStatus::Success(x) => TransactionStatus::PreConfirmationSuccess(x),
        PreConfirmationStatus::SqueezedOut(x) => {
            TransactionStatus::PreConfirmationSqueezedOut(x)
        }
        PreConfirmationStatus::Failure(x) => TransactionStatus::PreConfirmationFailure(x),
    }
}

pub fn describe(s: &TransactionStatus) -> String {
    format!(
        "{}#{}",
        kind_of(s).short(),
        marker_of(s).map(|m| m.to_string()).unwrap_or_else(|| "?".into())
    )
}
