//! One simulated history of the tx status manager world: configuration, parties, reference
//! model and oracles.

use crate::{
    model::{
        Kind,
        describe,
        kind_of,
        marker_of,
        mk_preconf,
        mk_squeezed,
        mk_status,
        preconf_to_status,
        tx_id,
        tx_index,
    },
    ports::{
        P2PShared,
        SimP2P,
        SimProtoKey,
        encode_msg_id,
    },
    producer::{
        Emitted,
        Producer,
    },
};
use fuel_core_services::{
    Service,
    ServiceRunner,
    State,
    stream::BoxStream,
};
use fuel_core_tx_status_manager::{
    SharedData,
    Task,
    TxStatusMessage,
    TxStatusStream,
    config::Config,
    new_service,
    ports::{
        P2PPreConfirmationGossipData,
        P2PPreConfirmationMessage,
    },
};
use fuel_core_types::{
    ed25519_dalek::{
        Signer,
        SigningKey as DalekSigningKey,
        Verifier,
    },
    fuel_crypto::{
        Message,
        SecretKey,
        Signature as ProtoSignature,
    },
    fuel_tx::{
        Address,
        Bytes64,
        Input,
        TxId,
    },
    services::{
        p2p::{
            DelegatePreConfirmationKey,
            DelegatePublicKey,
            GossipData,
            GossipsubMessageAcceptance,
            PeerId,
            Sealed,
        },
        preconfirmation::{
            Preconfirmation,
            Preconfirmations,
        },
        transaction_status::{
            PreConfirmationStatus,
            TransactionStatus,
        },
    },
    tai64::Tai64,
};
use simkit::{
    Ctx,
    Tier,
};
use std::{
    collections::{
        BTreeMap,
        BTreeSet,
    },
    sync::{
        Arc,
        Mutex,
        atomic::Ordering,
    },
    task::Poll,
    time::Duration,
};
use tokio::sync::{
    broadcast,
    mpsc,
};

const N_PROTO: usize = 3;
const MAX_TOTAL_SUBS: usize = 10;
const MAX_SENT_KEPT: usize = 24;
const BASE_UNIX_MS: u64 = 1_700_000_000_000;

// workload operations
const OP_PUBLISH: usize = 0;
const OP_READ: usize = 1;
const OP_SUBSCRIBE: usize = 2;
const OP_POLL: usize = 3;
const OP_ADVANCE: usize = 4;
const OP_SETTLE: usize = 5;
const OP_DROP: usize = 6;
const OP_SQUEEZE_BATCH: usize = 7;
const OP_PRECONF_BATCH: usize = 8;
const OP_DELEGATION: usize = 9;
const OP_GOSSIP_BATCH: usize = 10;
const OP_REPLAY: usize = 11;
const OP_ROTATE_PROTO: usize = 12;
const OP_ADVANCE_WALL: usize = 13;
const OP_PRODUCER: usize = 14;
const OP_NET_DELIVER: usize = 15;
const N_OPS: usize = 16;

struct Cfg {
    fault_free: bool,
    n_txs: usize,
    max_subs: usize,
    sub_ttl_ms: u64,
    cache_ttl_ms: u64,
    /// delegate key pool; the last key is never delegated by the harness ("unknown delegate")
    n_deleg: usize,
    steps: u64,
    w: [u64; N_OPS],
    /// out of 8: a new subscriber reads only now and then
    p_casual: u64,
    /// out of 8: a generated gossip message is deliberately invalid
    p_bad_gossip: u64,
    /// out of 16: the validity report call of a gossip message fails
    p_notify_fail: u64,
    /// out of 8: the network mistreats a message of the honest producer
    p_net_fault: u64,
    producer_echo_ms: Option<u64>,
    rt_seed: u64,
    wall_phase_ms: u64,
}

impl Cfg {
    fn draw(ctx: &mut Ctx) -> Cfg {
        let t = &mut ctx.tape;
        let fault_free = t.choose(8) == 0;
        let wide = ctx.tier == Tier::Thorough;
        let n_txs = match (ctx.prop.as_str(), wide) {
            ("C22", false) => 1 + t.below(3),
            ("C22", true) => 1 + t.below(4),
            (_, false) => 1 + t.below(4),
            (_, true) => 1 + t.below(6),
        };
        let mut max_subs = *t.pick(&[64usize, 8, 4, 3, 2, 1]);
        let mut sub_ttl_ms = *t.pick(&[600_000u64, 200, 50, 20, 5]);
        let cache_ttl_ms = *t.pick(&[5_000u64, 100, 20, 5, 1, 0]);
        let n_deleg = 2 + t.below(3);
        let steps = match ctx.tier {
            Tier::Quick => 20 + t.choose(61),
            Tier::Thorough => 20 + t.choose(181),
        };
        let mut w: [u64; N_OPS] = match ctx.prop.as_str() {
            "C22" => [10, 7, 5, 2, 3, 2, 1, 1, 2, 1, 2, 0, 0, 1, 1, 0],
            "C23" => [10, 1, 1, 9, 7, 2, 0, 2, 2, 1, 2, 0, 0, 1, 1, 0],
            _ => [3, 2, 1, 3, 1, 2, 0, 0, 1, 6, 9, 3, 1, 4, 4, 2],
        };
        // swarm: switch some operation classes off for this run
        let keep: &[usize] = match ctx.prop.as_str() {
            "C22" => &[OP_PUBLISH, OP_SUBSCRIBE, OP_READ],
            "C23" => &[OP_PUBLISH, OP_POLL, OP_ADVANCE],
            _ => &[OP_PUBLISH, OP_DELEGATION, OP_GOSSIP_BATCH],
        };
        for (i, wi) in w.iter_mut().enumerate() {
            if !keep.contains(&i) && t.choose(5) == 4 {
                *wi = 0;
            }
        }
        let mut p_casual = t.choose(7);
        let mut p_bad_gossip = 1 + t.choose(5);
        let mut p_notify_fail = t.choose(3);
        let mut p_net_fault = t.choose(4);
        let producer_on = match ctx.prop.as_str() {
            "C44" => t.choose(2) == 1,
            _ => t.choose(4) == 3,
        };
        let producer_echo_ms = if producer_on {
            Some(*t.pick(&[1_000u64, 200, 5_000, 50]))
        } else {
            w[OP_PRODUCER] = 0;
            w[OP_NET_DELIVER] = 0;
            None
        };
        let rt_seed = t.choose(1 << 16);
        let wall_phase_ms = t.choose(4) * 250 + t.choose(2) * 249;
        if fault_free {
            max_subs = 64;
            sub_ttl_ms = 600_000;
            p_casual = 0;
            p_bad_gossip = 0;
            p_notify_fail = 0;
            p_net_fault = 0;
            w[OP_DROP] = 0;
            w[OP_ROTATE_PROTO] = 0;
        }
        Cfg {
            fault_free,
            n_txs,
            max_subs,
            sub_ttl_ms,
            cache_ttl_ms,
            n_deleg,
            steps,
            w,
            p_casual,
            p_bad_gossip,
            p_notify_fail,
            p_net_fault,
            producer_echo_ms,
            rt_seed,
            wall_phase_ms,
        }
    }
}

/// One publication as the reference model sees it.
struct Pub {
    kind: Kind,
    marker: u64,
    at_ms: u64,
}

struct MarkerInfo {
    tx: usize,
    expected: TransactionStatus,
    /// sequence numbers of the publications that carried this marker (a replayed batch
    /// publishes the same statuses again)
    pubs: Vec<u64>,
    /// a gossip batch whose fate the model leaves open is in flight
    pending: bool,
    /// why the gossip batch carrying it had to be rejected (if it was never published)
    rejected: Option<String>,
}

struct Sub {
    id: usize,
    tx: usize,
    /// `None` once the subscriber dropped its stream
    stream: Option<TxStatusStream>,
    drainer: bool,
    created_ms: u64,
    /// publications with a larger sequence number were made after it subscribed
    sub_seq: u64,
    received: Vec<u64>,
    got_failed: bool,
    ended: bool,
    /// it had read everything delivered before every single publication for its tx so far
    always_drained: bool,
    drained_now: bool,
    /// upper bound of delivered-but-unread items (the subscriber channel holds 3)
    backlog: u32,
}

impl Sub {
    fn live(&self) -> bool {
        self.stream.is_some() && !self.ended
    }
}

#[derive(Clone)]
struct DelegMsg {
    proto: usize,
    deleg: usize,
    exp: u64,
    intact: bool,
    seal: Sealed<DelegatePreConfirmationKey<DelegatePublicKey>, ProtoSignature>,
    nonce: u64,
}

#[derive(Clone)]
struct BatchMsg {
    /// `None`: the signature is garbage
    signer: Option<usize>,
    exp: u64,
    intact: bool,
    entries: Vec<(usize, Kind, u64)>,
    sealed: Sealed<Preconfirmations, Bytes64>,
}

#[derive(Clone)]
enum GMsg {
    Deleg(DelegMsg),
    Batch(BatchMsg),
}

enum Expect {
    Accept,
    Reject(String),
    Any,
}

struct PendingMsg {
    id: u64,
    what: &'static str,
    expect: Expect,
    desc: String,
}

enum Verdict {
    Valid,
    Invalid(String),
    /// the property leaves the outcome open; the model adopts what the service does
    Either(&'static str),
}

type TsmService = ServiceRunner<Task<SimProtoKey, SimP2P>>;

struct Sim<'a> {
    ctx: &'a mut Ctx,
    cfg: Cfg,
    sd: SharedData,
    service: TsmService,
    gossip_tx: mpsc::UnboundedSender<P2PPreConfirmationGossipData>,
    p2p: Arc<Mutex<P2PShared>>,
    proto_addr: Arc<Mutex<Address>>,
    proto_secrets: Vec<SecretKey>,
    deleg_keys: Vec<DalekSigningKey>,
    t0: tokio::time::Instant,
    pre_listener: broadcast::Receiver<(TxId, PreConfirmationStatus)>,
    all_events: BoxStream<anyhow::Result<(TxId, TransactionStatus)>>,
    producer: Option<Producer>,
    /// messages of the honest producer the network has not delivered yet: (message, hold)
    net: Vec<(GMsg, bool)>,
    stopped: bool,

    // ---- reference model ----
    pubs: Vec<Pub>,
    by_tx: Vec<Vec<u64>>,
    markers: BTreeMap<u64, MarkerInfo>,
    next_marker: u64,
    subs: Vec<Sub>,
    unsettled_local: Vec<bool>,
    unsettled_gossip: Vec<bool>,
    gossip_in_flight: bool,
    cur_proto: usize,
    /// expiration -> delegate key of the latest delegation that had a valid signature
    registered: BTreeMap<u64, usize>,
    /// expiration -> protocol key that signed that latest delegation
    registered_by: BTreeMap<u64, usize>,
    ever_registered: BTreeSet<(u64, usize)>,
    known_exps: Vec<u64>,
    next_msg_id: u64,
    pending_msgs: Vec<PendingMsg>,
    note_log: BTreeMap<u64, Vec<GossipsubMessageAcceptance>>,
    sent: Vec<GMsg>,
    window_expect: Vec<u64>,
    window_seen_pre: Vec<u64>,
    window_seen_all: Vec<u64>,
    lagged_pre: bool,
    lagged_all: bool,
    /// transactions named by the gossip batches of the current step
    step_gossip_txs: Vec<usize>,
}

async fn poll_stream_now<T>(
    s: &mut std::pin::Pin<Box<dyn futures::Stream<Item = T> + Send + Sync>>,
) -> Poll<Option<T>> {
    // `unconstrained`: tokio's cooperative budget must not turn "an item is ready" into a
    // spurious `Pending` (the harness future runs many operations per poll).
    tokio::task::unconstrained(futures::future::poll_fn(|cx| {
        Poll::Ready(s.as_mut().poll_next(cx))
    }))
    .await
}

pub fn run(ctx: &mut Ctx) {
    // Every `ServiceRunner::new` registers two metrics in the process-global registry and
    // re-encodes the whole registry; without this reset the cost grows with every run of a
    // worker process. Harness-only; the metrics are not part of any oracle.
    *fuel_core_metrics::global_registry().registry.lock() = Default::default();
    let cfg = Cfg::draw(ctx);
    simkit::clock::enable((BASE_UNIX_MS + cfg.wall_phase_ms) as i64);
    let mut seed = [0u8; 32];
    seed[..8].copy_from_slice(&cfg.rt_seed.to_le_bytes());
    let rt = tokio::runtime::Builder::new_current_thread()
        .enable_time()
        .start_paused(true)
        .rng_seed(tokio::runtime::RngSeed::from_bytes(&seed))
        .build()
        .expect("runtime");
    rt.block_on(async {
        let mut sim = Sim::new(ctx, cfg).await;
        sim.drive().await;
        sim.finish().await;
    });
    drop(rt);
    simkit::clock::disable();
}

impl<'a> Sim<'a> {
    async fn new(ctx: &'a mut Ctx, cfg: Cfg) -> Sim<'a> {
        let proto_secrets: Vec<SecretKey> = (0..N_PROTO)
            .map(|i| SecretKey::try_from(&[0x11u8 + i as u8; 32][..]).expect("valid scalar"))
            .collect();
        let deleg_keys: Vec<DalekSigningKey> = (0..cfg.n_deleg)
            .map(|i| DalekSigningKey::from_bytes(&[0x40u8 + i as u8; 32]))
            .collect();
        let proto_addr = Arc::new(Mutex::new(Input::owner(&proto_secrets[0].public_key())));
        let p2p = Arc::new(Mutex::new(P2PShared::default()));
        let (gossip_tx, gossip_rx) = mpsc::unbounded_channel();
        ctx.ev(format!(
            "config txs={} max_subs={} sub_ttl={}ms cache_ttl={}ms delegates={} steps={} fault_free={} producer={:?} wall_phase={}",
            cfg.n_txs,
            cfg.max_subs,
            cfg.sub_ttl_ms,
            cfg.cache_ttl_ms,
            cfg.n_deleg,
            cfg.steps,
            cfg.fault_free,
            cfg.producer_echo_ms,
            cfg.wall_phase_ms
        ));
        let config = Config {
            max_tx_update_subscriptions: cfg.max_subs,
            subscription_ttl: Duration::from_millis(cfg.sub_ttl_ms),
            status_cache_ttl: Duration::from_millis(cfg.cache_ttl_ms),
            metrics: false,
        };
        let service = new_service(
            SimP2P::new(gossip_rx, p2p.clone()),
            config,
            SimProtoKey {
                addr: proto_addr.clone(),
            },
        );
        let sd = service.shared.clone();
        // observers are attached before the service runs
        let pre_listener = sd.preconfirmations_update_listener();
        let all_events = sd.subscribe_all().expect("subscribe_all");
        service
            .start_and_await()
            .await
            .expect("tx status manager starts");
        let t0 = tokio::time::Instant::now();
        let producer = match cfg.producer_echo_ms {
            Some(echo) => {
                // the first key rotation is what completes the producer's initialisation
                let p = Producer::start(
                    0,
                    proto_secrets[0],
                    // the last key of the pool stays unknown to everybody
                    deleg_keys[..cfg.n_deleg - 1].to_vec(),
                    Duration::from_millis(echo),
                )
                .expect("producer starts");
                let _ = p.rotate.send(Tai64(Tai64::now().0 + 3));
                Some(p)
            }
            None => None,
        };
        let n = cfg.n_txs;
        Sim {
            ctx,
            sd,
            service,
            gossip_tx,
            p2p,
            proto_addr,
            proto_secrets,
            deleg_keys,
            t0,
            pre_listener,
            all_events,
            producer,
            net: Vec::new(),
            stopped: false,
            pubs: Vec::new(),
            by_tx: vec![Vec::new(); n + 1],
            markers: BTreeMap::new(),
            next_marker: 1,
            subs: Vec::new(),
            unsettled_local: vec![false; n + 1],
            unsettled_gossip: vec![false; n + 1],
            gossip_in_flight: false,
            cur_proto: 0,
            registered: BTreeMap::new(),
            registered_by: BTreeMap::new(),
            ever_registered: BTreeSet::new(),
            known_exps: Vec::new(),
            next_msg_id: 1,
            pending_msgs: Vec::new(),
            note_log: BTreeMap::new(),
            sent: Vec::new(),
            window_expect: Vec::new(),
            window_seen_pre: Vec::new(),
            window_seen_all: Vec::new(),
            lagged_pre: false,
            lagged_all: false,
            step_gossip_txs: Vec::new(),
            cfg,
        }
    }

    // ------------------------------------------------------------------ clocks & settling

    fn now_ms(&self) -> u64 {
        (tokio::time::Instant::now() - self.t0).as_millis() as u64
    }

    fn now_tai(&self) -> u64 {
        Tai64::now().0
    }

    fn unsettled(&self, tx: usize) -> bool {
        self.unsettled_local[tx] || self.unsettled_gossip[tx]
    }

    fn anything_unsettled(&self) -> bool {
        self.gossip_in_flight
            || self.unsettled_local.iter().any(|b| *b)
            || self.unsettled_gossip.iter().any(|b| *b)
    }

    fn out_of_sync(&self) -> bool {
        self.stopped || !self.ctx.violations.is_empty()
    }

    /// Let simulated time pass. tokio only moves its paused clock when every task is idle, so
    /// when this returns the services have handled everything that was queued.
    async fn pass_time(&mut self, ms: u64) {
        tokio::time::sleep(Duration::from_millis(ms)).await;
        self.ctx.sim_ms += ms;
        for b in self.unsettled_local.iter_mut() {
            *b = false;
        }
        for b in self.unsettled_gossip.iter_mut() {
            *b = false;
        }
        self.gossip_in_flight = false;
        self.after_settle().await;
    }

    async fn settle(&mut self) {
        self.pass_time(1).await;
    }

    async fn after_settle(&mut self) {
        if self.stopped {
            return;
        }
        let st = self.service.state();
        if !matches!(st, State::Started) {
            self.service_failed(format!("service state is {st:?} while the world is running"));
            return;
        }
        self.process_notes();
        self.drain_listeners().await;
        self.collect_producer_output();
    }

    fn service_failed(&mut self, detail: String) {
        if self.stopped {
            return;
        }
        self.stopped = true;
        let prop = if self.ctx.panic_scope.is_empty() {
            self.ctx.prop.clone()
        } else {
            self.ctx.panic_scope.clone()
        };
        self.ctx.violate(&prop, "service-died", detail);
    }

    // ------------------------------------------------------------------ gossip reports

    fn process_notes(&mut self) {
        let notes = std::mem::take(&mut self.p2p.lock().unwrap().notes);
        for n in notes {
            self.ctx.ev(format!(
                "report msg{} peer{:?} {:?}",
                n.msg_id, n.peer, n.acceptance
            ));
            self.note_log.entry(n.msg_id).or_default().push(n.acceptance);
        }
        let pend = std::mem::take(&mut self.pending_msgs);
        for p in pend {
            let got = self.note_log.get(&p.id).cloned().unwrap_or_default();
            match &p.expect {
                Expect::Accept => {
                    let ok = got.len() == 1 && got[0] == GossipsubMessageAcceptance::Accept;
                    self.ctx.check(
                        "C44",
                        &format!("valid-{}-not-accepted", p.what),
                        ok,
                        || format!("{} (msg{}) is valid in the model but the reports were {got:?}", p.desc, p.id),
                    );
                }
                Expect::Reject(reason) => {
                    let ok = !got.is_empty()
                        && got.iter().all(|a| *a == GossipsubMessageAcceptance::Reject);
                    self.ctx.check(
                        "C44",
                        &format!("invalid-{}-not-rejected:{reason}", p.what),
                        ok,
                        || format!("{} (msg{}) is invalid ({reason}) but the reports were {got:?}", p.desc, p.id),
                    );
                }
                Expect::Any => {}
            }
        }
    }

    /// Classify an observed marker; a marker of a rejected batch anywhere is a C44 violation.
    fn sight(&mut self, marker: Option<u64>, place: &str) {
        let Some(m) = marker else { return };
        let Some(info) = self.markers.get(&m) else {
            return;
        };
        if info.pubs.is_empty() && !info.pending {
            if let Some(reason) = info.rejected.clone() {
                self.ctx.check(
                    "C44",
                    &format!("rejected-batch-took-effect:{reason}"),
                    false,
                    || format!("status #{m} of a gossip batch that had to be rejected ({reason}) was observed at {place}"),
                );
            }
        }
    }

    async fn drain_listeners(&mut self) {
        loop {
            match self.pre_listener.try_recv() {
                Ok((id, st)) => {
                    let s = preconf_to_status(st);
                    let m = marker_of(&s);
                    self.ctx.ev(format!(
                        "preconf-broadcast {:?} {}",
                        tx_index(&id, self.cfg.n_txs),
                        describe(&s)
                    ));
                    self.sight(m, "the preconfirmation broadcast");
                    if let Some(m) = m {
                        self.window_seen_pre.push(m);
                    }
                }
                Err(broadcast::error::TryRecvError::Lagged(n)) => {
                    self.ctx.ev(format!("preconf-broadcast lagged {n}"));
                    self.ctx.probe("preconfirmation_broadcast_lagged");
                    self.lagged_pre = true;
                }
                Err(_) => break,
            }
        }
        for _ in 0..256 {
            match poll_stream_now(&mut self.all_events).await {
                Poll::Ready(Some(Ok((id, s)))) => {
                    let m = marker_of(&s);
                    self.ctx.ev(format!(
                        "all-events {:?} {}",
                        tx_index(&id, self.cfg.n_txs),
                        describe(&s)
                    ));
                    self.sight(m, "the all-statuses subscription");
                    if let Some(m) = m {
                        self.window_seen_all.push(m);
                    }
                }
                Poll::Ready(Some(Err(_))) => {
                    self.ctx.ev("all-events lagged");
                    self.lagged_all = true;
                }
                _ => break,
            }
        }
        // everything a model-valid batch carried must have been broadcast (unless we lagged)
        let expect = std::mem::take(&mut self.window_expect);
        let mut pre = std::mem::take(&mut self.window_seen_pre);
        let mut all = std::mem::take(&mut self.window_seen_all);
        for m in expect {
            if !self.lagged_pre {
                let pos = pre.iter().position(|x| *x == m);
                if let Some(p) = pos {
                    pre.remove(p);
                }
                self.ctx.check(
                    "C44",
                    "accepted-batch-not-broadcast",
                    pos.is_some(),
                    || format!("status #{m} of a model-valid gossip batch never reached the preconfirmation broadcast"),
                );
            }
            if !self.lagged_all {
                let pos = all.iter().position(|x| *x == m);
                if let Some(p) = pos {
                    all.remove(p);
                }
                self.ctx.check(
                    "C44",
                    "accepted-batch-not-in-all-events",
                    pos.is_some(),
                    || format!("status #{m} of a model-valid gossip batch never reached the all-statuses subscription"),
                );
            }
        }
        self.lagged_pre = false;
        self.lagged_all = false;
    }

    // ------------------------------------------------------------------ publications

    fn fresh_marker(&mut self) -> u64 {
        let m = self.next_marker;
        self.next_marker += 1;
        m
    }

    fn register_marker(&mut self, marker: u64, tx: usize, expected: TransactionStatus) {
        self.markers.entry(marker).or_insert(MarkerInfo {
            tx,
            expected,
            pubs: Vec::new(),
            pending: false,
            rejected: None,
        });
    }

    /// The model's record of one publication (sequence number = position in the history).
    fn record_pub(&mut self, tx: usize, kind: Kind, marker: u64, gossip: bool, at_ms: u64, settled: bool) {
        self.pubs.push(Pub {
            kind,
            marker,
            at_ms,
        });
        let seq = self.pubs.len() as u64;
        self.by_tx[tx].push(seq);
        if let Some(info) = self.markers.get_mut(&marker) {
            info.pubs.push(seq);
            info.pending = false;
        }
        for s in self.subs.iter_mut() {
            if s.tx == tx && s.stream.is_some() {
                if !s.drained_now && s.always_drained {
                    s.always_drained = false;
                }
                s.drained_now = false;
                if !s.ended {
                    s.backlog += 1;
                    if s.backlog == 4 {
                        self.ctx.probe("subscriber_fell_behind_buffer_overflow");
                        self.ctx.fault("subscriber_stopped_reading_buffer_full");
                    }
                }
            }
        }
        if !settled {
            if gossip {
                self.unsettled_gossip[tx] = true;
            } else {
                self.unsettled_local[tx] = true;
            }
        }
        self.ctx.ev(format!(
            "pub seq{seq} tx{tx} {}#{marker} at {at_ms}ms{}",
            kind.short(),
            if gossip { " (gossip)" } else { "" }
        ));
    }

    /// Before a publication for `txs`: keep gossip and local publications for one transaction
    /// apart, and let the draining subscribers drain.
    async fn pre_publish(&mut self, txs: &[usize], gossip: bool) {
        let mut need = false;
        for &t in txs {
            if (gossip && self.unsettled_local[t]) || (!gossip && self.unsettled_gossip[t]) {
                need = true;
            }
            if self.unsettled(t)
                && self.subs.iter().any(|s| s.tx == t && s.drainer && s.live())
            {
                need = true;
            }
        }
        if need {
            self.settle().await;
        }
        let ids: Vec<usize> = self
            .subs
            .iter()
            .filter(|s| s.drainer && s.live() && txs.contains(&s.tx))
            .map(|s| s.id)
            .collect();
        for si in ids {
            self.drain(si, "auto-drain").await;
        }
    }

    fn draw_kind(&mut self) -> Kind {
        let i = self.ctx.tape.weighted(&[5, 3, 1, 1, 3, 1, 1]);
        Kind::ALL[i]
    }

    async fn op_publish(&mut self) {
        let tx = self.ctx.tape.below(self.cfg.n_txs);
        // now and then a burst of statuses for one transaction (fills subscriber buffers)
        let burst = if self.ctx.prop == "C22" { 4 } else { 8 };
        let reps = if self.ctx.tape.chance(1, burst) {
            2 + self.ctx.tape.choose(4)
        } else {
            1
        };
        for i in 0..reps {
            if self.out_of_sync() {
                return;
            }
            // inside a burst only the last status may be final
            self.publish_one(tx, i + 1 < reps).await;
        }
    }

    async fn publish_one(&mut self, tx: usize, non_final: bool) {
        self.ctx.scope("C22");
        let kind = if non_final {
            Kind::ALL[self.ctx.tape.weighted(&[5, 3, 1])]
        } else {
            self.draw_kind()
        };
        self.pre_publish(&[tx], false).await;
        let marker = self.fresh_marker();
        let status = mk_status(kind, marker, tx);
        self.register_marker(marker, tx, status.clone());
        self.ctx
            .op(format!("update_status tx{tx} {}#{marker}", kind.short()));
        let at = self.now_ms();
        self.sd.update_status(tx_id(tx), status);
        self.record_pub(tx, kind, marker, false, at, false);
    }

    async fn op_squeeze_batch(&mut self) {
        self.ctx.scope("C22");
        let n = 1 + self.ctx.tape.small(2) as usize;
        let mut txs = Vec::new();
        for _ in 0..n {
            txs.push(self.ctx.tape.below(self.cfg.n_txs));
        }
        self.pre_publish(&txs, false).await;
        let mut batch = Vec::new();
        let mut entries = Vec::new();
        for &tx in &txs {
            let marker = self.fresh_marker();
            let sq = mk_squeezed(marker, tx);
            self.register_marker(marker, tx, TransactionStatus::from(sq.clone()));
            batch.push((tx_id(tx), sq));
            entries.push((tx, marker));
        }
        self.ctx.op(format!("update_statuses {entries:?}"));
        let at = self.now_ms();
        self.sd.update_statuses(batch);
        for (tx, marker) in entries {
            self.record_pub(tx, Kind::Squeezed, marker, false, at, false);
        }
    }

    fn draw_preconf_entries(&mut self, max: u64) -> Vec<(usize, Kind, u64)> {
        let n = 1 + self.ctx.tape.small(max - 1) as usize;
        let mut v = Vec::new();
        for _ in 0..n {
            let tx = self.ctx.tape.below(self.cfg.n_txs);
            let kind = Kind::PRECONF[self.ctx.tape.weighted(&[4, 2, 1])];
            let marker = self.fresh_marker();
            v.push((tx, kind, marker));
        }
        v
    }

    fn build_preconfs(&mut self, entries: &[(usize, Kind, u64)]) -> Vec<Preconfirmation> {
        entries
            .iter()
            .map(|&(tx, kind, marker)| {
                let status = mk_preconf(kind, marker, tx);
                self.register_marker(marker, tx, TransactionStatus::from(status.clone()));
                Preconfirmation {
                    tx_id: tx_id(tx),
                    status,
                }
            })
            .collect()
    }

    async fn op_preconf_batch(&mut self) {
        self.ctx.scope("C22");
        let entries = self.draw_preconf_entries(3);
        let txs: Vec<usize> = entries.iter().map(|e| e.0).collect();
        self.pre_publish(&txs, false).await;
        let preconfs = self.build_preconfs(&entries);
        self.ctx.op(format!("update_preconfirmations {entries:?}"));
        let at = self.now_ms();
        self.sd.update_preconfirmations(preconfs);
        for (tx, kind, marker) in entries {
            self.record_pub(tx, kind, marker, false, at, false);
        }
    }

    // ------------------------------------------------------------------ subscribers

    async fn op_subscribe(&mut self) {
        self.ctx.scope("C22");
        let cap = match self.ctx.tier {
            Tier::Quick => MAX_TOTAL_SUBS,
            Tier::Thorough => 2 * MAX_TOTAL_SUBS,
        };
        if self.subs.len() >= cap {
            return;
        }
        let tx = self.ctx.tape.below(self.cfg.n_txs);
        let casual = self.ctx.tape.chance(self.cfg.p_casual, 8);
        if self.unsettled(tx) {
            self.settle().await;
        }
        let id = self.subs.len();
        self.ctx.op(format!(
            "subscribe s{id} tx{tx} {}",
            if casual { "casual" } else { "drainer" }
        ));
        let created_ms = self.now_ms();
        let res = tokio::task::unconstrained(self.sd.subscribe(tx_id(tx))).await;
        match res {
            Ok(stream) => {
                self.subs.push(Sub {
                    id,
                    tx,
                    stream: Some(stream),
                    drainer: !casual,
                    created_ms,
                    sub_seq: self.pubs.len() as u64,
                    received: Vec::new(),
                    got_failed: false,
                    ended: false,
                    always_drained: true,
                    drained_now: true,
                    backlog: 0,
                });
                if casual {
                    self.ctx.fault("subscriber_reads_irregularly");
                }
            }
            Err(e) => {
                self.ctx.ev(format!("subscribe refused: {e}"));
                self.ctx.fault("subscription_limit_hit");
                // information only (C22 says nothing about when a subscription may be refused):
                // subscriptions that can still hold a permit = not seen ended and younger than TTL
                let ttl = self.cfg.sub_ttl_ms;
                let holders = self
                    .subs
                    .iter()
                    .filter(|s| !s.ended && created_ms - s.created_ms < ttl)
                    .count();
                if holders < self.cfg.max_subs {
                    self.ctx.probe("info_subscription_refused_below_configured_limit");
                }
                if !matches!(self.service.state(), State::Started) {
                    self.service_failed(format!("subscribe failed: {e}"));
                }
            }
        }
    }

    fn first_final_after(&self, tx: usize, after_seq: u64) -> Option<u64> {
        self.by_tx[tx]
            .iter()
            .copied()
            .find(|s| *s > after_seq && self.pubs[(*s - 1) as usize].kind.is_final())
    }

    /// Safety clauses of C22 for one received item.
    fn on_item(&mut self, si: usize, item: TxStatusMessage) {
        let (sid, stx, sub_seq, last_seq, got_failed, always_drained) = {
            let s = &self.subs[si];
            (
                s.id,
                s.tx,
                s.sub_seq,
                s.received.last().copied().unwrap_or(0),
                s.got_failed,
                s.always_drained,
            )
        };
        match item {
            TxStatusMessage::Status(st) => {
                self.ctx.ev(format!("s{sid} got {}", describe(&st)));
                let m = marker_of(&st);
                self.sight(m, "a status subscription");
                let info = m.and_then(|m| self.markers.get(&m));
                let Some(info) = info else {
                    self.ctx.check("C22", "received-unpublished-status", false, || {
                        format!("subscriber s{sid} (tx{stx}) received {st:?} which nobody published")
                    });
                    return;
                };
                if info.pubs.is_empty() {
                    // marker of a rejected / undecided gossip batch: C44's business (sight())
                    if !info.pending {
                        self.ctx.check("C22", "received-unpublished-status", false, || {
                            format!("subscriber s{sid} (tx{stx}) received {} which was never published", describe(&st))
                        });
                    }
                    return;
                }
                let (itx, same, seqs) = (info.tx, info.expected == st, info.pubs.clone());
                if !self.ctx.check("C22", "received-status-of-other-tx", itx == stx, || {
                    format!("subscriber s{sid} of tx{stx} received {} published for tx{itx}", describe(&st))
                }) {
                    return;
                }
                self.ctx.check("C22", "received-altered-status", same, || {
                    format!("subscriber s{sid} received {st:?}, which differs from what was published under that marker")
                });
                self.ctx.check("C22", "item-after-failure-marker", !got_failed, || {
                    format!("subscriber s{sid} received {} after the FailedStatus marker", describe(&st))
                });
                let floor = last_seq.max(sub_seq);
                let Some(seq) = seqs.iter().copied().find(|s| *s > floor) else {
                    if seqs.iter().all(|s| *s <= sub_seq) {
                        self.ctx.check("C22", "received-status-published-before-subscribe", false, || {
                            format!("subscriber s{sid} (subscribed after seq{sub_seq}) received {} published as seq{seqs:?}", describe(&st))
                        });
                    } else {
                        self.ctx.check("C22", "duplicate-or-out-of-order", false, || {
                            format!("subscriber s{sid} received {} (published as seq{seqs:?}) after it had already received seq{last_seq}", describe(&st))
                        });
                    }
                    return;
                };
                let ff = self.first_final_after(stx, sub_seq);
                self.ctx.check(
                    "C22",
                    "received-after-first-final",
                    ff.map(|f| seq <= f).unwrap_or(true),
                    || format!("subscriber s{sid} received seq{seq} {} although the first final status after its subscription was seq{ff:?}", describe(&st)),
                );
                self.subs[si].received.push(seq);
            }
            TxStatusMessage::FailedStatus => {
                self.ctx.ev(format!("s{sid} got FailedStatus"));
                self.ctx.probe("failed_status_marker_received");
                self.ctx.check("C22", "failure-marker-for-draining-subscriber", !always_drained, || {
                    format!("subscriber s{sid} drained its stream before every publication and still received FailedStatus")
                });
                self.ctx.check("C22", "item-after-failure-marker", !got_failed, || {
                    format!("subscriber s{sid} received a second FailedStatus")
                });
                let last_kind = if last_seq > 0 {
                    Some(self.pubs[(last_seq - 1) as usize].kind)
                } else {
                    None
                };
                self.ctx.check(
                    "C22",
                    "item-after-final-status",
                    !last_kind.map(|k| k.is_final()).unwrap_or(false),
                    || format!("subscriber s{sid} received FailedStatus after the final status seq{last_seq}"),
                );
                self.subs[si].got_failed = true;
            }
        }
    }

    /// Poll the subscriber's stream once. Returns true when an item was taken.
    async fn read_one(&mut self, si: usize) -> bool {
        let was_ended = self.subs[si].ended;
        let Some(stream) = self.subs[si].stream.as_mut() else {
            return false;
        };
        let r = poll_stream_now(stream).await;
        let (sid, tx) = (self.subs[si].id, self.subs[si].tx);
        match r {
            Poll::Ready(Some(item)) => {
                self.ctx.check("C22", "item-after-stream-end", !was_ended, || {
                    format!("subscriber s{sid} received {item:?} after its stream had ended")
                });
                self.subs[si].backlog = self.subs[si].backlog.saturating_sub(1);
                self.on_item(si, item);
                true
            }
            Poll::Ready(None) => {
                if !was_ended {
                    self.ctx.ev(format!("s{sid} stream ended"));
                }
                self.subs[si].ended = true;
                self.subs[si].backlog = 0;
                self.subs[si].drained_now = !self.unsettled(tx);
                false
            }
            Poll::Pending => {
                self.ctx.check("C22", "item-after-stream-end", !was_ended, || {
                    format!("stream of subscriber s{sid} became pending again after it had ended")
                });
                self.subs[si].drained_now = !self.unsettled(tx);
                if !self.unsettled(tx) {
                    self.subs[si].backlog = 0;
                }
                false
            }
        }
    }

    async fn drain(&mut self, si: usize, why: &str) {
        if self.subs[si].stream.is_none() {
            return;
        }
        if !why.is_empty() {
            self.ctx.ev(format!("{why} s{}", self.subs[si].id));
        }
        let mut n = 0;
        while self.read_one(si).await {
            n += 1;
            if n > 64 || self.out_of_sync() {
                return;
            }
        }
        self.check_complete(si);
    }

    /// Completeness clauses of C22 for a subscriber that has just found its stream empty.
    fn check_complete(&mut self, si: usize) {
        let s = &self.subs[si];
        if !s.always_drained || !s.drained_now || s.stream.is_none() {
            return;
        }
        let (sid, tx, created, sub_seq, ended) = (s.id, s.tx, s.created_ms, s.sub_seq, s.ended);
        let ttl = self.cfg.sub_ttl_ms;
        let now = self.now_ms();
        // publications after the subscription, made while it was alive, up to the first final
        let mut expected = Vec::new();
        let mut final_expected = false;
        for &seq in self.by_tx[tx].iter().filter(|q| **q > sub_seq) {
            let p = &self.pubs[(seq - 1) as usize];
            if p.at_ms - created >= ttl {
                break;
            }
            expected.push(seq);
            if p.kind.is_final() {
                final_expected = true;
                break;
            }
        }
        let received = s.received.clone();
        let missing: Vec<u64> = expected
            .iter()
            .copied()
            .filter(|q| !received.contains(q))
            .collect();
        self.ctx.check(
            "C22",
            "draining-subscriber-missed-status",
            missing.is_empty(),
            || format!("subscriber s{sid} (tx{tx}, subscribed after seq{sub_seq} at {created}ms, ttl {ttl}ms) drained before every publication but never received seq{missing:?}; received seq{received:?}"),
        );
        if final_expected {
            self.ctx.check("C22", "stream-not-ended-after-final", ended, || {
                format!("subscriber s{sid} received the final status seq{:?} but its stream did not end", expected.last())
            });
            if ended {
                self.ctx.probe("drained_subscriber_completed");
            }
        } else if ended {
            let any_final = self.first_final_after(tx, sub_seq).is_some();
            let expired = now - created >= ttl;
            self.ctx.check(
                "C22",
                "stream-ended-early",
                any_final || expired,
                || format!("stream of draining subscriber s{sid} (tx{tx}) ended at {now}ms without a final status, {}ms after subscribing (ttl {ttl}ms)", now - created),
            );
            if expired && !any_final {
                self.ctx.probe("subscription_ttl_ended_stream");
                self.ctx.fault("subscription_ttl_expired");
            }
        }
    }

    async fn op_read(&mut self) {
        self.ctx.scope("C22");
        let cands: Vec<usize> = self
            .subs
            .iter()
            .filter(|s| s.stream.is_some())
            .map(|s| s.id)
            .collect();
        if cands.is_empty() {
            return;
        }
        let si = *self.ctx.tape.pick(&cands);
        let den = if self.ctx.prop == "C22" { 6 } else { 16 };
        if !self.subs[si].drainer && self.subs[si].live() && self.ctx.tape.chance(1, den) {
            self.lagging_scenario(si).await;
            return;
        }
        if self.ctx.tape.coin() {
            self.ctx.op(format!("read-one s{si}"));
            if !self.read_one(si).await {
                self.check_complete(si);
            }
        } else {
            self.ctx.op(format!("drain s{si}"));
            self.drain(si, "").await;
        }
    }

    /// A subscriber that stopped reading: more statuses than its channel holds are published,
    /// then it reads a little, another status arrives, and it reads everything.
    async fn lagging_scenario(&mut self, si: usize) {
        let tx = self.subs[si].tx;
        let k = 4 + self.ctx.tape.choose(2);
        self.ctx
            .op(format!("s{si} stops reading while {k} statuses are published for tx{tx}"));
        for _ in 0..k {
            self.publish_one(tx, true).await;
            if self.out_of_sync() {
                return;
            }
        }
        self.settle().await;
        let reads = 1 + self.ctx.tape.choose(3);
        for _ in 0..reads {
            if self.out_of_sync() || !self.read_one(si).await {
                break;
            }
        }
        let non_final = self.ctx.tape.coin();
        self.publish_one(tx, non_final).await;
        if self.out_of_sync() {
            return;
        }
        self.settle().await;
        self.drain(si, "lagging subscriber drains").await;
    }

    fn op_drop(&mut self) {
        let cands: Vec<usize> = self
            .subs
            .iter()
            .filter(|s| s.stream.is_some())
            .map(|s| s.id)
            .collect();
        if cands.is_empty() {
            return;
        }
        let si = *self.ctx.tape.pick(&cands);
        self.ctx.op(format!("drop s{si}"));
        self.ctx.fault("subscriber_dropped_stream");
        self.subs[si].stream = None;
    }

    // ------------------------------------------------------------------ status cache

    async fn poll_status(&mut self, tx: usize) {
        self.ctx.scope("C23");
        self.ctx.op(format!("get_status tx{tx}"));
        let res = tokio::task::unconstrained(self.sd.get_status(tx_id(tx))).await;
        let got = match res {
            Ok(g) => g,
            Err(e) => {
                self.service_failed(format!("get_status failed: {e}"));
                return;
            }
        };
        let now = self.now_ms();
        let ttl = self.cfg.cache_ttl_ms;
        self.ctx.ev(format!(
            "status tx{tx} at {now}ms -> {}",
            got.as_ref().map(describe).unwrap_or_else(|| "none".into())
        ));
        if let Some(s) = &got {
            self.sight(marker_of(s), "get_status");
            if self.out_of_sync() {
                return;
            }
        }
        let latest = self.by_tx[tx].last().map(|seq| &self.pubs[(*seq - 1) as usize]);
        let Some(p) = latest else {
            self.ctx.check("C23", "status-for-never-published-tx", got.is_none(), || {
                format!("tx{tx} never had a status published but get_status returned {got:?}")
            });
            return;
        };
        let (kind, marker, at) = (p.kind, p.marker, p.at_ms);
        let age = now - at;
        let expected = self.markers.get(&marker).map(|i| i.expected.clone());
        match got {
            Some(s) if Some(&s) == expected.as_ref() => {
                if !kind.is_submitted() && age >= ttl {
                    self.ctx.probe("expired_status_still_cached");
                }
            }
            Some(s) => {
                let seen = marker_of(&s)
                    .and_then(|m| self.markers.get(&m))
                    .map(|i| format!("published as seq{:?} for tx{}", i.pubs, i.tx))
                    .unwrap_or_else(|| "never published".into());
                let class = if kind_of(&s) == kind && marker_of(&s) == Some(marker) {
                    "latest-status-altered"
                } else {
                    "not-the-latest-status"
                };
                self.ctx.check("C23", class, false, || {
                    format!("get_status(tx{tx}) at {now}ms returned {} ({seen}); the most recently published status is {}#{marker} (at {at}ms, ttl {ttl}ms)", describe(&s), kind.short())
                });
            }
            None => {
                if kind.is_submitted() {
                    self.ctx.check("C23", "submitted-status-lost", false, || {
                        format!("get_status(tx{tx}) at {now}ms returned nothing; the latest status Sub#{marker} (at {at}ms) must be kept until replaced")
                    });
                } else {
                    self.ctx.check("C23", "forgotten-before-ttl", age >= ttl, || {
                        format!("get_status(tx{tx}) at {now}ms returned nothing; the latest status {}#{marker} was published at {at}ms, only {age}ms ago (ttl {ttl}ms)", kind.short())
                    });
                    if age >= ttl {
                        self.ctx.probe("status_pruned_after_ttl");
                    }
                }
            }
        }
    }

    async fn op_poll(&mut self) {
        // index n_txs is a transaction nobody ever publishes
        let tx = self.ctx.tape.below(self.cfg.n_txs + 1);
        match self.ctx.tape.choose(4) {
            0 | 1 => self.poll_status(tx).await,
            2 => self.poll_all().await,
            _ => {
                // let every cached status reach its TTL, make the service prune, look again
                let ttl = self.cfg.cache_ttl_ms.min(200);
                self.ctx
                    .op(format!("advance {ttl}ms (ttl), publish, poll all"));
                self.pass_time(ttl.max(1)).await;
                if self.out_of_sync() {
                    return;
                }
                let t = tx.min(self.cfg.n_txs - 1);
                let non_final = self.ctx.tape.coin();
                self.publish_one(t, non_final).await;
                self.poll_all().await;
            }
        }
    }

    async fn poll_all(&mut self) {
        for tx in 0..=self.cfg.n_txs {
            if self.out_of_sync() {
                return;
            }
            self.poll_status(tx).await;
        }
    }

    async fn op_advance(&mut self) {
        self.ctx.scope("C23");
        let now = self.now_ms();
        let ttl = self.cfg.cache_ttl_ms;
        let ms = match self.ctx.tape.choose(10) {
            0 => 1,
            1 => 2,
            2 => 5,
            3 => 10,
            4 => 20,
            5 => 60,
            6 => 250,
            7 => 6_000,
            k => {
                // land exactly on (k == 8) or just before (k == 9) the expiry of some status
                let tx = self.ctx.tape.below(self.cfg.n_txs);
                match self.by_tx[tx].last().map(|s| self.pubs[(*s - 1) as usize].at_ms) {
                    Some(at) if at + ttl > now + (k - 8) => at + ttl - now - (k - 8),
                    _ => 3,
                }
            }
        };
        self.ctx.op(format!("advance {ms}ms from {now}ms"));
        self.pass_time(ms.max(1)).await;
    }

    // ------------------------------------------------------------------ gossip

    fn sign_delegation(
        &self,
        proto: usize,
        deleg: usize,
        exp: u64,
    ) -> Sealed<DelegatePreConfirmationKey<DelegatePublicKey>, ProtoSignature> {
        let entity = DelegatePreConfirmationKey {
            public_key: self.deleg_keys[deleg].verifying_key(),
            expiration: Tai64(exp),
        };
        let bytes = postcard::to_allocvec(&entity).expect("encode");
        let signature = ProtoSignature::sign(&self.proto_secrets[proto], &Message::new(&bytes));
        Sealed { entity, signature }
    }

    fn sign_batch(&self, signer: usize, entity: Preconfirmations) -> Sealed<Preconfirmations, Bytes64> {
        let bytes = postcard::to_allocvec(&entity).expect("encode");
        let sig = self.deleg_keys[signer].sign(&bytes);
        Sealed {
            entity,
            signature: Bytes64::new(sig.to_bytes()),
        }
    }

    fn note_exp(&mut self, exp: u64) {
        if !self.known_exps.contains(&exp) {
            self.known_exps.push(exp);
        }
    }

    async fn op_delegation(&mut self) {
        self.ctx.scope("C44");
        let now = self.now_tai();
        if !self.cfg.fault_free && self.ctx.tape.chance(1, 24) {
            // a gossip notification whose payload was already consumed elsewhere
            let id = self.next_msg_id;
            self.next_msg_id += 1;
            self.ctx.op(format!("gossip msg{id}: empty payload"));
            self.ctx.fault("gossip_empty_payload");
            let _ = self.gossip_tx.send(GossipData {
                data: None,
                peer_id: PeerId::from(vec![9u8]),
                message_id: encode_msg_id(id),
            });
            self.gossip_in_flight = true;
            return;
        }
        let bad = self.ctx.tape.chance(self.cfg.p_bad_gossip, 8);
        // the last key of the pool is never delegated
        let deleg = self.ctx.tape.below(self.cfg.n_deleg - 1);
        let exp = match self.ctx.tape.choose(8) {
            0 => now + 2,
            1 => now + 1,
            2 => now + 5,
            3 | 4 => {
                if self.known_exps.is_empty() {
                    now + 3
                } else {
                    *self.ctx.tape.pick(&self.known_exps.clone())
                }
            }
            5 => now,
            6 => now.saturating_sub(1),
            _ => now + 30,
        };
        let mut proto = self.cur_proto;
        let mut tamper = 0;
        if bad {
            match self.ctx.tape.choose(4) {
                0 => {
                    proto = (self.cur_proto + 1 + self.ctx.tape.below(N_PROTO - 1)) % N_PROTO;
                }
                k => tamper = k,
            }
        }
        let mut seal = self.sign_delegation(proto, deleg, exp);
        let mut msg_deleg = deleg;
        let mut msg_exp = exp;
        match tamper {
            1 => {
                msg_exp = exp + 1;
                seal.entity.expiration = Tai64(msg_exp);
            }
            2 => {
                msg_deleg = (deleg + 1) % self.cfg.n_deleg;
                seal.entity.public_key = self.deleg_keys[msg_deleg].verifying_key();
            }
            3 => {
                let mut raw: [u8; 64] = *seal.signature;
                let i = self.ctx.tape.below(64);
                raw[i] ^= 1 << self.ctx.tape.choose(8);
                seal.signature = ProtoSignature::from_bytes(raw);
            }
            _ => {}
        }
        let msg = GMsg::Deleg(DelegMsg {
            proto,
            deleg: msg_deleg,
            exp: msg_exp,
            intact: tamper == 0,
            seal,
            nonce: self.next_msg_id,
        });
        self.send_gossip(msg, "peer").await;
    }

    async fn op_gossip_batch(&mut self) {
        self.ctx.scope("C44");
        let now = self.now_tai();
        let bad = self.ctx.tape.chance(self.cfg.p_bad_gossip, 8);
        let live: Vec<(u64, usize)> = self
            .registered
            .iter()
            .filter(|(e, _)| **e >= now)
            .map(|(e, k)| (*e, *k))
            .collect();
        let dead: Vec<(u64, usize)> = self
            .registered
            .iter()
            .filter(|(e, _)| **e < now)
            .map(|(e, k)| (*e, *k))
            .collect();
        // who signs, and for which expiration
        let mode = if bad { 1 + self.ctx.tape.choose(4) } else { 0 };
        let (signer, exp) = match mode {
            // an honest delegate with a live delegation (if there is one)
            0 | 4 if !live.is_empty() => {
                let (e, k) = *self.ctx.tape.pick(&live);
                (k, e)
            }
            // a delegate whose delegation has expired
            1 if !dead.is_empty() => {
                let (e, k) = *self.ctx.tape.pick(&dead);
                (k, e)
            }
            // the delegate nobody ever delegated to
            2 => {
                let e = if self.known_exps.is_empty() {
                    now + 2
                } else {
                    *self.ctx.tape.pick(&self.known_exps.clone())
                };
                (self.cfg.n_deleg - 1, e)
            }
            // any delegate with any known expiration (mismatch / overwritten / by chance valid)
            _ => {
                let k = self.ctx.tape.below(self.cfg.n_deleg);
                let e = if self.known_exps.is_empty() {
                    now + 2
                } else {
                    *self.ctx.tape.pick(&self.known_exps.clone())
                };
                (k, e)
            }
        };
        let entries = self.draw_preconf_entries(3);
        let preconfirmations = self.build_preconfs(&entries);
        let entity = Preconfirmations {
            expiration: Tai64(exp),
            preconfirmations,
        };
        let mut sealed = self.sign_batch(signer, entity);
        let mut entries = entries;
        let mut msg_exp = exp;
        let mut msg_signer = Some(signer);
        let mut intact = true;
        if mode == 4 {
            intact = false;
            match self.ctx.tape.choose(4) {
                0 => {
                    // another transaction gets the preconfirmation
                    let i = self.ctx.tape.below(entries.len());
                    let other = (entries[i].0 + 1) % (self.cfg.n_txs + 1);
                    let m = self.fresh_marker();
                    entries[i] = (other, entries[i].1, m);
                    let st = mk_preconf(entries[i].1, m, other);
                    self.register_marker(m, other, TransactionStatus::from(st.clone()));
                    sealed.entity.preconfirmations[i] = Preconfirmation {
                        tx_id: tx_id(other),
                        status: st,
                    };
                }
                1 => {
                    // the outcome is altered
                    let i = self.ctx.tape.below(entries.len());
                    let (tx, kind, _) = entries[i];
                    let nk = if kind == Kind::PreSuccess {
                        Kind::PreFailure
                    } else {
                        Kind::PreSuccess
                    };
                    let m = self.fresh_marker();
                    entries[i] = (tx, nk, m);
                    let st = mk_preconf(nk, m, tx);
                    self.register_marker(m, tx, TransactionStatus::from(st.clone()));
                    sealed.entity.preconfirmations[i].status = st;
                }
                2 => {
                    // the expiration is moved (to one with a live delegation if possible)
                    msg_exp = live
                        .iter()
                        .map(|x| x.0)
                        .find(|e| *e != exp)
                        .unwrap_or(exp + 7);
                    sealed.entity.expiration = Tai64(msg_exp);
                }
                _ => {
                    let mut raw: [u8; 64] = *sealed.signature;
                    let i = self.ctx.tape.below(64);
                    raw[i] ^= 1 << self.ctx.tape.choose(8);
                    sealed.signature = Bytes64::new(raw);
                    msg_signer = None;
                }
            }
        }
        let msg = GMsg::Batch(BatchMsg {
            signer: msg_signer,
            exp: msg_exp,
            intact,
            entries,
            sealed,
        });
        self.send_gossip(msg, "peer").await;
    }

    async fn op_replay(&mut self) {
        self.ctx.scope("C44");
        if self.sent.is_empty() {
            return;
        }
        let i = self.ctx.tape.below(self.sent.len());
        let msg = self.sent[i].clone();
        self.ctx.fault("gossip_replayed");
        self.send_gossip(msg, "replay").await;
    }

    async fn op_rotate_proto(&mut self) {
        self.ctx.scope("C44");
        if self.gossip_in_flight {
            self.settle().await;
        }
        let next = (self.cur_proto + 1 + self.ctx.tape.below(N_PROTO - 1)) % N_PROTO;
        self.ctx
            .op(format!("rotate protocol key p{} -> p{next}", self.cur_proto));
        self.ctx.fault("protocol_key_rotated");
        self.cur_proto = next;
        *self.proto_addr.lock().unwrap() =
            Input::owner(&self.proto_secrets[next].public_key());
    }

    async fn op_advance_wall(&mut self) {
        self.ctx.scope("C44");
        // what is queued is judged at the wall-clock time at which it was sent
        if self.anything_unsettled() {
            self.settle().await;
        }
        let ms = *self
            .ctx
            .tape
            .pick(&[1_000i64, 500, 250, 2_000, 100, 5_000, 30_000]);
        simkit::clock::advance_ms(ms);
        self.ctx.op(format!(
            "wall clock +{ms}ms -> tai {} (+{}ms)",
            self.now_tai(),
            simkit::clock::now_unix_ms().rem_euclid(1000)
        ));
    }

    fn batch_verdict(&self, b: &BatchMsg, now: u64) -> Verdict {
        if !b.intact {
            return Verdict::Invalid(if b.signer.is_none() {
                "garbage-signature".into()
            } else {
                "tampered".into()
            });
        }
        let Some(signer) = b.signer else {
            return Verdict::Invalid("garbage-signature".into());
        };
        match self.registered.get(&b.exp) {
            Some(k) if *k == signer => {
                if now < b.exp {
                    Verdict::Valid
                } else if now == b.exp {
                    Verdict::Either("second-of-expiration")
                } else {
                    Verdict::Invalid("expired".into())
                }
            }
            Some(_) => {
                if self.ever_registered.contains(&(b.exp, signer)) {
                    if now <= b.exp {
                        Verdict::Either("overwritten-delegation")
                    } else {
                        Verdict::Invalid("expired".into())
                    }
                } else {
                    Verdict::Invalid("delegate-not-registered-for-expiration".into())
                }
            }
            None => {
                if self.ever_registered.iter().any(|(_, k)| *k == signer) {
                    Verdict::Invalid("expiration-without-delegation".into())
                } else {
                    Verdict::Invalid("unknown-delegate".into())
                }
            }
        }
    }

    /// Hand one gossip message to the service's gossip stream; the model judges it at the
    /// wall-clock time of sending (the clock does not move before the service handled it).
    async fn send_gossip(&mut self, msg: GMsg, origin: &str) {
        if self.out_of_sync() {
            return;
        }
        let now = self.now_tai();
        let id = self.next_msg_id;
        self.next_msg_id += 1;
        let peer = 1 + self.ctx.tape.choose(3) as u8;
        if self.ctx.tape.chance(self.cfg.p_notify_fail, 16) {
            self.p2p.lock().unwrap().fail_ids.insert(id);
            self.ctx.fault("validity_report_call_failed");
        }
        let data: P2PPreConfirmationMessage = match &msg {
            GMsg::Deleg(d) => P2PPreConfirmationMessage::Delegate {
                seal: d.seal.clone(),
                nonce: d.nonce,
            },
            GMsg::Batch(b) => P2PPreConfirmationMessage::Preconfirmations(b.sealed.clone()),
        };
        let packet = GossipData {
            data: Some(data),
            peer_id: PeerId::from(vec![peer]),
            message_id: encode_msg_id(id),
        };
        if self.sent.len() < MAX_SENT_KEPT {
            self.sent.push(msg.clone());
        }
        match msg {
            GMsg::Deleg(d) => {
                let sig_ok = d.intact && d.proto == self.cur_proto;
                let desc = format!(
                    "delegation d{} exp{:+} by p{}{}",
                    d.deleg,
                    d.exp as i64 - now as i64,
                    d.proto,
                    if d.intact { "" } else { " tampered" }
                );
                self.ctx
                    .op(format!("gossip msg{id} {origin} peer{peer}: {desc}"));
                let expect = if sig_ok {
                    self.note_exp(d.exp);
                    if let Some(old) = self.registered.insert(d.exp, d.deleg) {
                        if old != d.deleg {
                            self.ctx.probe("delegation_overwritten");
                        }
                    }
                    self.ever_registered.insert((d.exp, d.deleg));
                    self.registered_by.insert(d.exp, d.proto);
                    if d.exp > now {
                        Expect::Accept
                    } else {
                        self.ctx.probe("delegation_expired_on_arrival");
                        Expect::Any
                    }
                } else {
                    let reason = if !d.intact {
                        "tampered"
                    } else {
                        "wrong-protocol-key"
                    };
                    self.ctx.fault(&format!("gossip_delegation_{reason}"));
                    Expect::Reject(reason.to_string())
                };
                self.pending_msgs.push(PendingMsg {
                    id,
                    what: "delegation",
                    expect,
                    desc,
                });
                let _ = self.gossip_tx.send(packet);
                self.gossip_in_flight = true;
            }
            GMsg::Batch(b) => {
                let verdict = self.batch_verdict(&b, now);
                let desc = format!(
                    "batch by d{:?} exp{:+} {:?}{}",
                    b.signer,
                    b.exp as i64 - now as i64,
                    b.entries,
                    if b.intact { "" } else { " tampered" }
                );
                let txs: Vec<usize> = b.entries.iter().map(|e| e.0).collect();
                self.step_gossip_txs.extend(txs.iter().copied());
                match verdict {
                    Verdict::Valid => {
                        self.pre_publish(&txs, true).await;
                        self.ctx.op(format!(
                            "gossip msg{id} {origin} peer{peer}: {desc} [model: valid]"
                        ));
                        let at = self.now_ms();
                        let _ = self.gossip_tx.send(packet);
                        self.gossip_in_flight = true;
                        for &(tx, kind, marker) in &b.entries {
                            self.record_pub(tx, kind, marker, true, at, false);
                            self.window_expect.push(marker);
                        }
                        self.pending_msgs.push(PendingMsg {
                            id,
                            what: "batch",
                            expect: Expect::Accept,
                            desc,
                        });
                        self.ctx.probe("valid_batch_sent");
                        if origin == "producer" {
                            self.ctx.probe("valid_batch_of_honest_producer");
                        }
                        if self.registered_by.get(&b.exp) != Some(&self.cur_proto) {
                            self.ctx.probe(
                                "info_batch_valid_under_delegation_signed_by_rotated_out_protocol_key",
                            );
                        }
                    }
                    Verdict::Invalid(reason) => {
                        self.ctx.op(format!(
                            "gossip msg{id} {origin} peer{peer}: {desc} [model: invalid, {reason}]"
                        ));
                        self.ctx.fault(&format!("gossip_batch_{reason}"));
                        for &(_, _, marker) in &b.entries {
                            if let Some(info) = self.markers.get_mut(&marker) {
                                if info.pubs.is_empty() {
                                    info.rejected = Some(reason.clone());
                                }
                            }
                        }
                        self.pending_msgs.push(PendingMsg {
                            id,
                            what: "batch",
                            expect: Expect::Reject(reason),
                            desc,
                        });
                        let _ = self.gossip_tx.send(packet);
                        self.gossip_in_flight = true;
                    }
                    Verdict::Either(why) => {
                        // handled synchronously: the model adopts the service's decision
                        if self.anything_unsettled() {
                            self.settle().await;
                        }
                        self.pre_publish(&txs, true).await;
                        self.ctx.op(format!(
                            "gossip msg{id} {origin} peer{peer}: {desc} [model: either, {why}]"
                        ));
                        self.ctx.probe(&format!("lenient_case_{why}"));
                        for &(_, _, marker) in &b.entries {
                            if let Some(info) = self.markers.get_mut(&marker) {
                                info.pending = true;
                            }
                        }
                        let at = self.now_ms();
                        let _ = self.gossip_tx.send(packet);
                        self.settle().await;
                        if self.out_of_sync() {
                            return;
                        }
                        let got = self.note_log.get(&id).cloned().unwrap_or_default();
                        let accepted =
                            got.len() == 1 && got[0] == GossipsubMessageAcceptance::Accept;
                        let rejected =
                            got.len() == 1 && got[0] == GossipsubMessageAcceptance::Reject;
                        if !self.ctx.check(
                            "C44",
                            "batch-without-single-validity-report",
                            accepted || rejected,
                            || format!("{desc} (msg{id}) got the reports {got:?}"),
                        ) {
                            return;
                        }
                        self.ctx.ev(format!(
                            "model adopts: msg{id} {}",
                            if accepted { "accepted" } else { "rejected" }
                        ));
                        for &(tx, kind, marker) in &b.entries {
                            if accepted {
                                self.record_pub(tx, kind, marker, true, at, true);
                            } else if let Some(info) = self.markers.get_mut(&marker) {
                                info.pending = false;
                                if info.pubs.is_empty() {
                                    info.rejected = Some(format!("{why}:rejected-by-service"));
                                }
                            }
                        }
                    }
                }
            }
        }
    }

    // ------------------------------------------------------------------ honest producer

    fn collect_producer_output(&mut self) {
        let Some(p) = &self.producer else { return };
        let out = p.take_output();
        let proto = p.proto;
        for e in out {
            let msg = match e {
                Emitted::Deleg { seal, nonce } => {
                    let Some(deleg) = self
                        .deleg_keys
                        .iter()
                        .position(|k| k.verifying_key() == seal.entity.public_key)
                    else {
                        continue;
                    };
                    self.ctx.ev(format!(
                        "producer emits delegation d{deleg} exp tai {} nonce {nonce}",
                        seal.entity.expiration.0
                    ));
                    GMsg::Deleg(DelegMsg {
                        proto,
                        deleg,
                        exp: seal.entity.expiration.0,
                        intact: true,
                        seal,
                        nonce,
                    })
                }
                Emitted::Batch { sealed } => {
                    // the producer signs with the key of its current delegation
                    let exp = sealed.entity.expiration.0;
                    let entries: Vec<(usize, Kind, u64)> = sealed
                        .entity
                        .preconfirmations
                        .iter()
                        .filter_map(|p| {
                            let st = TransactionStatus::from(p.status.clone());
                            Some((
                                tx_index(&p.tx_id, self.cfg.n_txs)?,
                                kind_of(&st),
                                marker_of(&st)?,
                            ))
                        })
                        .collect();
                    let bytes = postcard::to_allocvec(&sealed.entity).expect("encode");
                    let sig = fuel_core_types::ed25519::Signature::from_bytes(&sealed.signature);
                    let signer = self
                        .deleg_keys
                        .iter()
                        .position(|k| k.verifying_key().verify(&bytes, &sig).is_ok());
                    self.ctx.ev(format!(
                        "producer emits batch {entries:?} exp tai {exp} signed by d{signer:?}"
                    ));
                    GMsg::Batch(BatchMsg {
                        signer,
                        exp,
                        intact: signer.is_some(),
                        entries,
                        sealed,
                    })
                }
            };
            // the simulated network decides the fate of the message
            let mut hold = false;
            if self.ctx.tape.chance(self.cfg.p_net_fault, 8) {
                match self.ctx.tape.choose(3) {
                    0 => {
                        hold = true;
                        self.ctx.fault("net_message_delayed");
                    }
                    1 => {
                        self.ctx.fault("net_message_dropped");
                        continue;
                    }
                    _ => {
                        self.ctx.fault("net_message_duplicated");
                        self.net.push((msg.clone(), true));
                    }
                }
            }
            self.net.push((msg, hold));
        }
    }

    /// Deliver producer messages the network is not holding back (`all`: the held ones too).
    async fn deliver_net(&mut self, all: bool) {
        let mut rest = Vec::new();
        let queue = std::mem::take(&mut self.net);
        let mut now = Vec::new();
        for (m, hold) in queue {
            if hold && !all {
                rest.push((m, hold));
            } else {
                now.push(m);
            }
        }
        // messages collected while delivering (send_gossip may settle) stay queued
        self.net = rest;
        for m in now {
            if self.out_of_sync() {
                return;
            }
            self.ctx.scope("C44");
            self.send_gossip(m, "producer").await;
        }
    }

    async fn op_producer(&mut self) {
        self.ctx.scope("C44");
        let Some(p) = &self.producer else { return };
        let (txs, rotate, fail) = (p.txs.clone(), p.rotate.clone(), p.parent_fail_next.clone());
        match self.ctx.tape.weighted(&[5, 3, 1]) {
            0 => {
                let entries = self.draw_preconf_entries(3);
                let preconfs = self.build_preconfs(&entries);
                self.ctx
                    .op(format!("producer preconfirms {entries:?}"));
                let _ = txs.send(preconfs);
            }
            1 => {
                let k = *self.ctx.tape.pick(&[2u64, 1, 5, 30, 0]);
                let exp = self.now_tai() + k;
                self.ctx
                    .op(format!("producer key rotation, expiration +{k}s"));
                let _ = rotate.send(Tai64(exp));
            }
            _ => {
                let n = 1 + self.ctx.tape.small(5);
                self.ctx
                    .op(format!("producer's parent signer fails {n} times"));
                self.ctx.fault("producer_parent_signer_outage");
                fail.store(n, Ordering::SeqCst);
            }
        }
    }

    // ------------------------------------------------------------------ the history

    async fn drive(&mut self) {
        for _ in 0..self.cfg.steps {
            if self.out_of_sync() {
                break;
            }
            let op = self.ctx.tape.weighted(&self.cfg.w.clone());
            self.step_gossip_txs.clear();
            match op {
                OP_PUBLISH => self.op_publish().await,
                OP_READ => self.op_read().await,
                OP_SUBSCRIBE => self.op_subscribe().await,
                OP_POLL => self.op_poll().await,
                OP_ADVANCE => self.op_advance().await,
                OP_SETTLE => {
                    self.ctx.op("settle");
                    self.settle().await
                }
                OP_DROP => self.op_drop(),
                OP_SQUEEZE_BATCH => self.op_squeeze_batch().await,
                OP_PRECONF_BATCH => self.op_preconf_batch().await,
                OP_DELEGATION => self.op_delegation().await,
                OP_GOSSIP_BATCH => self.op_gossip_batch().await,
                OP_REPLAY => self.op_replay().await,
                OP_ROTATE_PROTO => self.op_rotate_proto().await,
                OP_ADVANCE_WALL => self.op_advance_wall().await,
                OP_PRODUCER => self.op_producer().await,
                _ => {
                    self.ctx.op("network delivers what it held back");
                    self.deliver_net(true).await
                }
            }
            if self.out_of_sync() {
                break;
            }
            self.deliver_net(false).await;
            if self.out_of_sync() {
                break;
            }
            let mut follow_up = std::mem::take(&mut self.step_gossip_txs);
            if !follow_up.is_empty() && self.ctx.tape.coin() {
                // look at the transactions the gossip batches of this step were about
                follow_up.sort();
                follow_up.dedup();
                for tx in follow_up {
                    self.poll_status(tx).await;
                    if self.out_of_sync() {
                        break;
                    }
                }
            } else if self.ctx.tape.chance(1, 3) {
                self.settle().await;
            }
        }
    }

    async fn finish(&mut self) {
        if !self.out_of_sync() {
            self.settle().await;
        }
        if !self.out_of_sync() {
            self.deliver_net(true).await;
        }
        if !self.out_of_sync() {
            self.settle().await;
        }
        if !self.out_of_sync() {
            let ids: Vec<usize> = self
                .subs
                .iter()
                .filter(|s| s.stream.is_some())
                .map(|s| s.id)
                .collect();
            for si in ids {
                self.drain(si, "final drain").await;
                if self.out_of_sync() {
                    break;
                }
            }
        }
        if !self.out_of_sync() {
            self.poll_all().await;
        }
        if !self.stopped {
            match self.service.stop_and_await().await {
                Ok(State::Stopped) => self.ctx.ev("service stopped"),
                other => {
                    self.service_failed(format!("stopping the service ended in {other:?}"))
                }
            }
        }
        if let Some(p) = &self.producer {
            let _ = p.service.stop_and_await().await;
        }
        let failed = self.p2p.lock().unwrap().failed_calls;
        if failed > 0 {
            self.ctx.probe_n("validity_report_errors_returned_to_service", failed);
        }
    }
}
