//! Simulated ports of the tx status manager service: the p2p subscription port (a gossip
//! stream fed by the harness + a recorder of validity reports) and the protocol key port.

use fuel_core_services::stream::BoxStream;
use fuel_core_tx_status_manager::{
    ports::{
        P2PPreConfirmationGossipData,
        P2PSubscriptions,
    },
    service::ProtocolPublicKey,
};
use fuel_core_types::{
    fuel_tx::Address,
    services::p2p::{
        GossipsubMessageAcceptance,
        GossipsubMessageInfo,
    },
};
use std::{
    collections::BTreeSet,
    sync::{
        Arc,
        Mutex,
    },
};
use tokio::sync::mpsc;
use tokio_stream::wrappers::UnboundedReceiverStream;

#[derive(Clone, Debug)]
pub struct Note {
    pub msg_id: u64,
    pub peer: Vec<u8>,
    pub acceptance: GossipsubMessageAcceptance,
}

#[derive(Default)]
pub struct P2PShared {
    /// Validity reports in the order the service made them.
    pub notes: Vec<Note>,
    /// Message ids for which the report call returns an error (injected port fault).
    pub fail_ids: BTreeSet<u64>,
    pub failed_calls: u64,
}

pub struct SimP2P {
    rx: Mutex<Option<mpsc::UnboundedReceiver<P2PPreConfirmationGossipData>>>,
    pub shared: Arc<Mutex<P2PShared>>,
}

impl SimP2P {
    pub fn new(
        rx: mpsc::UnboundedReceiver<P2PPreConfirmationGossipData>,
        shared: Arc<Mutex<P2PShared>>,
    ) -> Self {
        SimP2P {
            rx: Mutex::new(Some(rx)),
            shared,
        }
    }
}

pub fn encode_msg_id(id: u64) -> Vec<u8> {
    id.to_be_bytes().to_vec()
}

fn decode_msg_id(bytes: &[u8]) -> u64 {
    match <[u8; 8]>::try_from(bytes) {
        Ok(b) => u64::from_be_bytes(b),
        Err(_) => u64::MAX,
    }
}

impl P2PSubscriptions for SimP2P {
    type GossipedStatuses = P2PPreConfirmationGossipData;

    fn gossiped_tx_statuses(&self) -> BoxStream<Self::GossipedStatuses> {
        let rx = self
            .rx
            .lock()
            .unwrap()
            .take()
            .expect("gossip stream is taken once");
        Box::pin(UnboundedReceiverStream::new(rx))
    }

    fn notify_gossip_transaction_validity(
        &self,
        message_info: GossipsubMessageInfo,
        validity: GossipsubMessageAcceptance,
    ) -> anyhow::Result<()> {
        let mut g = self.shared.lock().unwrap();
        let id = decode_msg_id(&message_info.message_id);
        g.notes.push(Note {
            msg_id: id,
            peer: message_info.peer_id.as_ref().to_vec(),
            acceptance: validity,
        });
        if g.fail_ids.contains(&id) {
            g.failed_calls += 1;
            return Err(anyhow::anyhow!("injected: p2p service unavailable"));
        }
        Ok(())
    }
}

pub struct SimProtoKey {
    pub addr: Arc<Mutex<Address>>,
}

impl ProtocolPublicKey for SimProtoKey {
    fn latest_address(&self) -> Address {
        *self.addr.lock().unwrap()
    }
}
