//! The honest block producer: the real PoA `PreConfirmationSignatureTask`
//! (`fuel_core_poa::pre_confirmation_signature_service`) behind simulated ports. What it
//! broadcasts (delegations incl. periodic echoes, signed preconfirmation batches) is captured
//! and handed to the simulated network, which delivers it to the status manager's gossip port.

use fuel_core_poa::pre_confirmation_signature_service::{
    self as pcs,
    broadcast::Broadcast,
    error::{
        Error as PcsError,
        Result as PcsResult,
    },
    key_generator::{
        ExpiringKey,
        KeyGenerator,
    },
    parent_signature::ParentSignature,
    signing_key::SigningKey,
    trigger::KeyRotationTrigger,
    tx_receiver::TxReceiver,
};
use fuel_core_services::{
    Service,
    ServiceRunner,
};
use fuel_core_types::{
    ed25519_dalek::{
        Signer,
        SigningKey as DalekSigningKey,
        VerifyingKey,
    },
    fuel_crypto::{
        Message,
        SecretKey,
        Signature as ProtoSignature,
    },
    fuel_tx::Bytes64,
    services::{
        p2p::{
            DelegatePreConfirmationKey,
            Sealed,
        },
        preconfirmation::{
            Preconfirmation,
            Preconfirmations,
        },
    },
    tai64::Tai64,
};
use serde::Serialize;
use std::{
    sync::{
        Arc,
        Mutex,
        atomic::{
            AtomicU64,
            Ordering,
        },
    },
    time::Duration,
};
use tokio::sync::mpsc;

pub enum Emitted {
    Deleg {
        seal: Sealed<DelegatePreConfirmationKey<VerifyingKey>, ProtoSignature>,
        nonce: u64,
    },
    Batch {
        sealed: Sealed<Preconfirmations, Bytes64>,
    },
}

#[derive(Clone)]
pub struct SimDelegateKey {
    signer: DalekSigningKey,
}

impl SigningKey for SimDelegateKey {
    type Signature = fuel_core_types::ed25519::Signature;
    type PublicKey = VerifyingKey;

    fn public_key(&self) -> Self::PublicKey {
        self.signer.verifying_key()
    }

    fn sign<T>(&self, data: &T) -> PcsResult<Self::Signature>
    where
        T: Serialize,
    {
        let bytes = postcard::to_allocvec(data)
            .map_err(|e| PcsError::Signature(format!("{e:?}")))?;
        Ok(self.signer.sign(&bytes))
    }
}

/// Hands out the delegate keys of the harness' key pool, one after the other.
pub struct SimKeyGen {
    pool: Vec<DalekSigningKey>,
    next: usize,
}

impl KeyGenerator for SimKeyGen {
    type Key = SimDelegateKey;

    async fn generate(&mut self, expiration: Tai64) -> ExpiringKey<Self::Key> {
        let signer = self.pool[self.next % self.pool.len()].clone();
        self.next += 1;
        ExpiringKey::new(SimDelegateKey { signer }, expiration)
    }
}

pub struct SimParent {
    secret: SecretKey,
    /// Number of upcoming signing requests that fail (injected signer outage).
    fail_next: Arc<AtomicU64>,
}

impl ParentSignature for SimParent {
    type Signature = ProtoSignature;

    async fn sign<T>(&self, data: &T) -> PcsResult<Self::Signature>
    where
        T: Serialize + Send + Sync,
    {
        if self.fail_next.load(Ordering::SeqCst) > 0 {
            self.fail_next.fetch_sub(1, Ordering::SeqCst);
            return Err(PcsError::ParentSignature("injected: signer unavailable".into()));
        }
        let bytes = postcard::to_allocvec(data)
            .map_err(|e| PcsError::ParentSignature(format!("{e:?}")))?;
        let message = Message::new(bytes);
        Ok(ProtoSignature::sign(&self.secret, &message))
    }
}

pub struct SimTrigger {
    rx: mpsc::UnboundedReceiver<Tai64>,
}

impl KeyRotationTrigger for SimTrigger {
    async fn next_rotation(&mut self) -> PcsResult<Tai64> {
        match self.rx.recv().await {
            Some(t) => Ok(t),
            None => std::future::pending().await,
        }
    }
}

pub struct SimTxReceiver {
    rx: mpsc::UnboundedReceiver<Vec<Preconfirmation>>,
}

impl TxReceiver for SimTxReceiver {
    type Txs = Vec<Preconfirmation>;

    async fn receive(&mut self) -> PcsResult<Self::Txs> {
        match self.rx.recv().await {
            Some(t) => Ok(t),
            None => std::future::pending().await,
        }
    }
}

pub struct SimBroadcast {
    out: Arc<Mutex<Vec<Emitted>>>,
}

impl Broadcast for SimBroadcast {
    type ParentKey = SimParent;
    type DelegateKey = SimDelegateKey;
    type Preconfirmations = Preconfirmations;

    async fn broadcast_preconfirmations(
        &mut self,
        message: Self::Preconfirmations,
        signature: fuel_core_types::ed25519::Signature,
    ) -> PcsResult<()> {
        let sealed = Sealed {
            entity: message,
            signature: Bytes64::new(signature.to_bytes()),
        };
        self.out.lock().unwrap().push(Emitted::Batch { sealed });
        Ok(())
    }

    async fn broadcast_delegate_key(
        &mut self,
        delegate: DelegatePreConfirmationKey<VerifyingKey>,
        nonce: u64,
        signature: ProtoSignature,
    ) -> PcsResult<()> {
        let seal = Sealed {
            entity: delegate,
            signature,
        };
        self.out.lock().unwrap().push(Emitted::Deleg { seal, nonce });
        Ok(())
    }
}

type ProducerService =
    pcs::Service<SimTxReceiver, SimBroadcast, SimParent, SimKeyGen, SimTrigger>;

pub struct Producer {
    pub proto: usize,
    pub txs: mpsc::UnboundedSender<Vec<Preconfirmation>>,
    pub rotate: mpsc::UnboundedSender<Tai64>,
    pub out: Arc<Mutex<Vec<Emitted>>>,
    pub parent_fail_next: Arc<AtomicU64>,
    pub service: ProducerService,
}

impl Producer {
    /// Must be called inside the runtime (creates the echo interval). The service is started
    /// without waiting: its initialisation blocks until the first rotation is triggered.
    pub fn start(
        proto: usize,
        secret: SecretKey,
        pool: Vec<DalekSigningKey>,
        echo: Duration,
    ) -> anyhow::Result<Self> {
        let (txs, txs_rx) = mpsc::unbounded_channel();
        let (rotate, rotate_rx) = mpsc::unbounded_channel();
        let out = Arc::new(Mutex::new(Vec::new()));
        let parent_fail_next = Arc::new(AtomicU64::new(0));
        let config = pcs::config::Config {
            key_rotation_interval: Duration::from_secs(10),
            key_expiration_interval: Duration::from_secs(30),
            echo_delegation_interval: echo,
        };
        let service: ServiceRunner<_> = pcs::new_service(
            config,
            SimTxReceiver { rx: txs_rx },
            SimBroadcast { out: out.clone() },
            SimParent {
                secret,
                fail_next: parent_fail_next.clone(),
            },
            SimKeyGen { pool, next: 0 },
            SimTrigger { rx: rotate_rx },
        )?;
        service.start()?;
        Ok(Producer {
            proto,
            txs,
            rotate,
            out,
            parent_fail_next,
            service,
        })
    }

    pub fn take_output(&self) -> Vec<Emitted> {
        std::mem::take(&mut *self.out.lock().unwrap())
    }
}
