//! W4 tx-status — the real transaction status manager service (`new_service`: `TxStatusManager`
//! + `UpdateSender` + `SignatureVerification` inside its `Task`, run by its `ServiceRunner` on a
//! paused current-thread tokio runtime) driven only through its public `SharedData` handle and
//! two simulated ports (`P2PSubscriptions`: a gossip stream fed by the harness and a recorder of
//! validity reports; `ProtocolPublicKey`: a rotatable protocol address).
//!
//! Parties: status publishers (`update_status`, `update_statuses`, `update_preconfirmations`),
//! subscribers (drain before each publication / read now and then / stop reading / drop),
//! status pollers, gossip peers (delegations and preconfirmation batches: valid, signed by the
//! wrong protocol key, unknown delegate, mismatching / past expiration, tampered, garbage
//! signature, replayed, after protocol key rotation), an honest block producer (the real PoA
//! `PreConfirmationSignatureTask`, see `producer.rs`) and two clocks (tokio's paused clock and
//! the simulated wall clock read by `Tai64::now()`), both advanced by the tape.
//!
//! Properties: C22 (subscriptions), C23 (status cache), C44 (preconfirmation gossip acceptance).

mod model;
mod ports;
mod producer;
mod sim;

use simkit::{
    Ctx,
    Tier,
    World,
};

struct TxStatusWorld;

impl World for TxStatusWorld {
    fn name(&self) -> &'static str {
        "w4_txstatus"
    }
    fn properties(&self) -> Vec<&'static str> {
        vec!["C22", "C23", "C44"]
    }
    fn real_components(&self) -> Vec<&'static str> {
        vec![
            "fuel_core_tx_status_manager::new_service -> ServiceRunner<Task> (run loop, biased select over gossip / write / read requests)",
            "fuel_core_tx_status_manager::SharedData::{update_status, update_statuses, update_preconfirmations, get_status, subscribe, subscribe_all, preconfirmations_update_listener}",
            "TxStatusManager::{status_update, register_status, prune_old_statuses, status, tx_update_subscribe}",
            "UpdateSender::{try_subscribe, send}, Sender::try_send, remove_closed_and_expired, TxUpdateStream::{add_msg, try_next, add_failure}, MpscChannel (buffer 3), permit semaphore",
            "SignatureVerification::{add_new_delegate, check_preconfirmation_signature, remove_expired_delegates, verify_preconfirmation}, Task::new_preconfirmations_from_p2p",
            "fuel_core_poa::pre_confirmation_signature_service::PreConfirmationSignatureTask (honest producer: key rotation, delegation echo, batch signing)",
            "fuel_core_services::ServiceRunner, fuel-crypto secp256k1 recover, ed25519-dalek verify, postcard encoding, Tai64::now() on the simulated wall clock",
        ]
    }
    fn stubs(&self) -> Vec<&'static str> {
        vec![
            "P2PSubscriptions port: in-memory gossip stream + recorder of notify_gossip_transaction_validity calls (can return injected errors)",
            "ProtocolPublicKey port: shared rotatable address",
            "publishers / subscribers / pollers / gossip peers: simulated parties driven by the tape",
            "ports of the PoA preconfirmation signature service (tx receiver, broadcast, parent signature, key generator, rotation trigger)",
            "tokio paused clock and clock_gettime(CLOCK_REALTIME) interposition instead of real time",
        ]
    }
    fn default_runs(&self, _prop: &str, tier: Tier) -> u64 {
        match tier {
            // ~400-500 runs/s (quick) and ~170 runs/s (thorough, longer histories) on 16 processes
            Tier::Quick => 10_000,
            Tier::Thorough => 100_000,
        }
    }
    fn nontrivial_min_ops(&self, _prop: &str) -> u64 {
        5
    }
    fn uses_global_clock(&self) -> bool {
        true
    }
    fn assumptions(&self, prop: &str) -> Vec<String> {
        let mut v = vec![
            "publication time = the instant the publisher's call was made; on the paused runtime the service handles every queued request before the clock moves, so this equals the handling instant".to_string(),
            "when a gossip batch and a local publication for the same transaction would be in flight together the harness lets the service settle first (their relative order is not defined by any property)".to_string(),
        ];
        match prop {
            "C22" => {
                v.push("final = Success, Failure, SqueezedOut, PreConfirmationSqueezedOut (a squeeze-out announced by the block producer counts as a squeeze-out)".into());
                v.push("completeness is demanded only from subscribers that had read everything delivered (service idle) before every single publication for their transaction, and only for publications made while the subscription was younger than the configured subscription TTL; several statuses for one transaction inside one update_statuses/update_preconfirmations/gossip batch count as publications without a drain in between".into());
                v.push("the harness settles the service before subscribing when publications for that transaction are still queued, so 'published after it subscribed' is unambiguous".into());
                v.push("a refused subscription (permit limit) is a legitimate outcome; the FailedStatus marker is allowed only for subscribers that did not keep up".into());
            }
            "C23" => {
                v.push("age is measured on tokio's clock in whole milliseconds; at age >= TTL a non-submitted status may be present or absent, never replaced by another one".into());
            }
            "C44" => {
                v.push("model of delegations: expiration -> delegate key of the latest delegation whose signature recovered to the protocol address that was current when it arrived; rotation of the protocol key does not revoke earlier delegations".into());
                v.push("lenient cases (either outcome accepted, the model adopts what the service did): a batch arriving in the very second of its expiration; a batch signed by a delegate whose delegation for that expiration was overwritten by a later one; the validity report for a correctly signed delegation that is already expired on arrival".into());
                v.push("besides 'invalid => Reject and no effect' (the property) the check also demands 'model-valid => Accept and effect' so that a service rejecting everything is not vacuously correct".into());
                v.push("the wall clock only moves forward".into());
            }
            _ => {}
        }
        v
    }

    fn run(&self, ctx: &mut Ctx) {
        sim::run(ctx)
    }
}

fn main() {
    simkit::cli::main_world(&TxStatusWorld)
}
