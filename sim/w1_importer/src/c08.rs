//! C08 workload: request sequences against the importer of the node under test.

use crate::{
    chain::{
        self,
        ChainPlan,
        Honest,
    },
    engine::{
        self,
        Api,
        Drive,
        Faults,
        Model,
        Request,
    },
    nut::{
        Backend,
        Nut,
        RawWrite,
    },
};
use chainkit::node::{
    dump_on_chain,
    seal,
};
use fuel_core_storage::{
    StorageAsMut,
    StorageAsRef,
    column::Column,
    kv_store::{
        StorageColumn,
        WriteOperation,
    },
    tables::merkle::{
        DenseMerkleMetadata,
        DenseMetadataKey,
        FuelBlockMerkleMetadata,
    },
    transactional::{
        Changes,
        ReadTransaction,
    },
};
use fuel_core_types::{
    blockchain::{
        SealedBlock,
        block::Block,
        consensus::Consensus,
        header::PartialBlockHeader,
    },
    fuel_tx::{
        Bytes32,
        Transaction,
        UniqueIdentifier,
    },
    fuel_types::BlockHeight,
    services::block_importer::Source,
};
use simkit::{
    Ctx,
    Tier,
};

pub fn raw_of(changes: &Changes) -> Vec<RawWrite> {
    let mut out = Vec::new();
    let mut cols: Vec<_> = changes.keys().copied().collect();
    cols.sort();
    for c in cols {
        for (k, op) in &changes[&c] {
            out.push((
                c,
                k.to_vec(),
                match op {
                    WriteOperation::Insert(v) => Some(v.to_vec()),
                    WriteOperation::Remove => None,
                },
            ));
        }
    }
    out
}

pub fn honest_req(honest: &Honest, h: u32, api: Api) -> Request {
    let b = &honest.blocks[(h - 1) as usize];
    Request {
        label: format!("honest#{h}"),
        api,
        sealed: b.sealed.clone(),
        source: Source::Local,
        tx_status: b.tx_status.clone(),
        events: b.events.clone(),
        changes: b.changes.clone(),
        tamper: None,
        honest_height: Some(h),
        acc_kind: None,
    }
}

pub fn genesis_req(nut: &Nut, api: Api) -> Request {
    let (import, changes) = nut.genesis_import.as_ref().expect("genesis import").clone();
    Request {
        label: "genesis".into(),
        api,
        sealed: import.sealed_block,
        source: Source::Local,
        tx_status: vec![],
        events: vec![],
        changes,
        tamper: None,
        honest_height: Some(0),
        acc_kind: None,
    }
}

/// Raw writes of a faulty executor into the block Merkle accumulator tables.
fn accumulator_tamper(ctx: &mut Ctx, nut: &Nut) -> Option<(&'static str, Vec<RawWrite>)> {
    let latest = nut
        .on_chain
        .storage_as_ref::<FuelBlockMerkleMetadata>()
        .get(&DenseMetadataKey::Latest)
        .ok()
        .flatten()
        .map(|c| c.into_owned());
    let dump = dump_on_chain(&nut.on_chain);
    let data: Vec<&(u32, Vec<u8>, Vec<u8>)> = dump
        .iter()
        .filter(|(c, _, _)| *c == Column::FuelBlockMerkleData.id())
        .collect();
    let kind = ctx.tape.weighted(&[4, 3, 2, 1, 1, 1]);
    let mut tx = nut.on_chain.read_transaction();
    match kind {
        0 => {
            let m = latest?;
            let mut root = *m.root();
            let i = ctx.tape.below(32);
            root[i] ^= 1 << ctx.tape.choose(8);
            tx.storage_as_mut::<FuelBlockMerkleMetadata>()
                .insert(&DenseMetadataKey::Latest, &DenseMerkleMetadata::new(root, m.version()))
                .ok()?;
            Some(("latest-root-changed", raw_of(&tx.into_changes())))
        }
        1 => {
            let m = latest?;
            let v = m.version() + 1 + ctx.tape.choose(5);
            tx.storage_as_mut::<FuelBlockMerkleMetadata>()
                .insert(&DenseMetadataKey::Latest, &DenseMerkleMetadata::new(*m.root(), v))
                .ok()?;
            Some(("latest-same-root-other-version", raw_of(&tx.into_changes())))
        }
        2 => {
            latest?;
            tx.storage_as_mut::<FuelBlockMerkleMetadata>()
                .remove(&DenseMetadataKey::Latest)
                .ok()?;
            Some(("latest-removed", raw_of(&tx.into_changes())))
        }
        3 => {
            let m = latest?;
            let h = ctx.tape.choose(m.version().max(1)) as u32;
            let mut root = *m.root();
            root[0] ^= 0x80;
            tx.storage_as_mut::<FuelBlockMerkleMetadata>()
                .insert(
                    &DenseMetadataKey::Primary(BlockHeight::from(h)),
                    &DenseMerkleMetadata::new(root, h as u64 + 1),
                )
                .ok()?;
            Some(("root-record-of-a-height-overwritten", raw_of(&tx.into_changes())))
        }
        4 => {
            if data.is_empty() {
                return None;
            }
            let (c, k, v) = data[ctx.tape.below(data.len())];
            let mut v = v.clone();
            let i = ctx.tape.below(v.len().max(1));
            if v.is_empty() {
                v.push(1);
            } else {
                v[i] ^= 1 << ctx.tape.choose(8);
            }
            Some(("existing-tree-node-overwritten", vec![(*c, k.clone(), Some(v))]))
        }
        _ => {
            if data.is_empty() {
                return None;
            }
            let (c, _, v) = data[ctx.tape.below(data.len())];
            let k = (10_000u64 + ctx.tape.choose(4)).to_be_bytes().to_vec();
            Some(("foreign-tree-node-inserted", vec![(*c, k, Some(v.clone()))]))
        }
    }
}

/// Raw writes of a faulty executor into the block / consensus / transaction tables.
fn record_tamper(ctx: &mut Ctx, nut: &Nut, honest: &Honest, next: u32) -> Option<(String, Vec<RawWrite>)> {
    let dump = dump_on_chain(&nut.on_chain);
    let pick = |col: Column| -> Option<Vec<u8>> {
        dump.iter().find(|(c, _, _)| *c == col.id()).map(|(_, _, v)| v.clone())
    };
    match ctx.tape.weighted(&[3, 3, 2, 1]) {
        0 => {
            // a consensus record for a future height
            let h = next + 1 + ctx.tape.choose(2) as u32;
            let v = pick(Column::FuelBlockConsensus)?;
            Some((
                format!("consensus-record-for-height-{h}-inserted"),
                vec![(Column::FuelBlockConsensus.id(), h.to_be_bytes().to_vec(), Some(v))],
            ))
        }
        1 => {
            // a transaction record of a future honest block
            let h = next + 1;
            let b = honest.blocks.get((h - 1) as usize)?;
            let tx = b.sealed.entity.transactions().first()?;
            let id = tx.id(&nut.chain_id);
            let v = pick(Column::Transactions).unwrap_or_else(|| vec![0]);
            Some((
                format!("transaction-record-of-block-{h}-inserted"),
                vec![(Column::Transactions.id(), id.to_vec(), Some(v))],
            ))
        }
        2 => {
            // a block record for a far height
            let h = next + 3 + ctx.tape.choose(3) as u32;
            let v = pick(Column::FuelBlocks)?;
            Some((
                format!("block-record-for-height-{h}-inserted"),
                vec![(Column::FuelBlocks.id(), h.to_be_bytes().to_vec(), Some(v))],
            ))
        }
        _ => {
            // the consensus record of the block being committed itself
            let v = pick(Column::FuelBlockConsensus)?;
            Some((
                format!("consensus-record-of-height-{next}-written-by-executor"),
                vec![(Column::FuelBlockConsensus.id(), next.to_be_bytes().to_vec(), Some(v))],
            ))
        }
    }
}

/// A block at `height` that is not the honest one: rebuilt with other transactions / fields.
fn foreign_block(ctx: &mut Ctx, honest: &Honest, model: &Model, base: &SealedBlock, height: u32) -> Option<(String, SealedBlock)> {
    let block = &base.entity;
    let mut partial: PartialBlockHeader = PartialBlockHeader::from(block.header());
    partial.consensus.height = BlockHeight::from(height);
    let mut txs: Vec<Transaction> = block.transactions().to_vec();
    let what = match ctx.tape.choose(4) {
        0 => {
            // carries a transaction that an earlier committed block already holds
            let earlier: Vec<&Transaction> = honest
                .blocks
                .iter()
                .filter(|b| {
                    let h: u32 = **b.sealed.entity.header().height();
                    model.blocks.contains(&h) && h < height
                })
                .flat_map(|b| b.sealed.entity.transactions().iter())
                .collect();
            if earlier.is_empty() {
                return None;
            }
            let t = earlier[ctx.tape.below(earlier.len())].clone();
            txs.insert(0, t);
            "with-an-already-stored-transaction"
        }
        1 => {
            // the same transaction twice
            let t = txs.first()?.clone();
            txs.push(t);
            "with-a-transaction-twice"
        }
        2 => {
            txs.clear();
            "without-transactions"
        }
        _ => {
            partial.consensus.time = fuel_core_types::tai64::Tai64(partial.consensus.time.0 + 1 + ctx.tape.choose(5));
            "with-another-time"
        }
    };
    let b = Block::new(partial, txs, &[], Bytes32::zeroed()).ok()?;
    let sealed = seal(&honest.keys.key_for(height), &b);
    Some((what.to_string(), sealed))
}

struct Knobs {
    fault_free: bool,
    p_validator: u64,
    p_verifier: u64,
    p_publish: u64,
    p_commit: u64,
    p_lost_ack: u64,
    p_read: u64,
    p_concurrent: u64,
    p_cancel: u64,
    p_restart: u64,
}

fn rate(ctx: &mut Ctx, enabled_in: u64) -> u64 {
    // 0 = disabled; otherwise the fault fires for one request in `den`
    if ctx.tape.chance(1, enabled_in) { *ctx.tape.pick(&[10u64, 5, 3]) } else { 0 }
}

fn fires(ctx: &mut Ctx, den: u64) -> bool {
    den != 0 && ctx.tape.chance(1, den)
}

pub async fn run(ctx: &mut Ctx) {
    let thorough = ctx.tier == Tier::Thorough;
    let plan = ChainPlan {
        blocks: 2 + ctx.tape.below(if thorough { 10 } else { 5 }),
        max_txs: 2,
        alts: false,
    };
    let honest = chain::build(ctx, &plan).await;
    if ctx.failed() {
        return;
    }
    let fault_free = ctx.tape.chance(1, 8);
    let k = if fault_free {
        Knobs {
            fault_free,
            p_validator: 0,
            p_verifier: 0,
            p_publish: 0,
            p_commit: 0,
            p_lost_ack: 0,
            p_read: 0,
            p_concurrent: 0,
            p_cancel: 0,
            p_restart: 0,
        }
    } else {
        Knobs {
            fault_free,
            p_validator: rate(ctx, 2),
            p_verifier: rate(ctx, 2),
            p_publish: rate(ctx, 2),
            p_commit: rate(ctx, 2),
            p_lost_ack: rate(ctx, 3),
            p_read: rate(ctx, 3),
            p_concurrent: rate(ctx, 2),
            p_cancel: rate(ctx, 2),
            p_restart: if ctx.tape.chance(1, 3) { 12 } else { 0 },
        }
    };
    let backend = if ctx.tape.chance(1, 6) { Backend::Rocks } else { Backend::Memory };
    let rewind = ctx.tape.coin();
    let buffer = *ctx.tape.pick(&[1024usize, 1, 2, 3]);
    let use_probe = !ctx.tape.chance(1, 4);
    ctx.ev(format!(
        "nut backend={backend:?} rewind={rewind} buffer={buffer} probe={use_probe} fault_free={} rates v={} f={} p={} c={} l={} r={} conc={} cancel={} restart={}",
        k.fault_free, k.p_validator, k.p_verifier, k.p_publish, k.p_commit, k.p_lost_ack, k.p_read, k.p_concurrent, k.p_cancel, k.p_restart
    ));
    let mut nut = Nut::new(&honest, backend, rewind, buffer, use_probe).await;
    let mut model = Model::new();
    for _ in 0..ctx.tape.choose(3) {
        let mode = ctx.tape.choose(3) as u8;
        let id = nut.subscribe(mode);
        ctx.ev(format!("subscribe sub{id} mode={mode}"));
    }

    let steps = 6 + ctx.tape.below(if thorough { 40 } else { 20 });
    for _ in 0..steps {
        if ctx.failed() {
            return;
        }
        // ---- things that happen between requests ----
        match ctx.tape.weighted(&[12, 2, 1, 2, 1]) {
            1 if nut.subs.len() < 3 => {
                let mode = ctx.tape.choose(3) as u8;
                let id = nut.subscribe(mode);
                ctx.ev(format!("subscribe sub{id} mode={mode}"));
            }
            2 if !nut.subs.is_empty() => {
                let i = ctx.tape.below(nut.subs.len());
                let s = nut.subs.remove(i);
                ctx.ev(format!("drop sub{} with {} unread", s.id, nut.ann.len() - s.next));
                ctx.probe("subscriber_dropped");
            }
            3 if !nut.subs.is_empty() => {
                let i = ctx.tape.below(nut.subs.len());
                nut.subs[i].held.clear();
                engine::drain_sub(ctx, &mut nut, i);
            }
            _ => {}
        }
        let must_restart = model.wedged && ctx.tape.coin();
        if !model.blocks.is_empty() && (must_restart || fires(ctx, k.p_restart)) {
            ctx.ev(format!("restart (wedged={})", model.wedged));
            ctx.fault("node_restart");
            nut.restart(&honest);
            model.wedged = false;
            for _ in 0..ctx.tape.choose(3) {
                let mode = ctx.tape.choose(3) as u8;
                let id = nut.subscribe(mode);
                ctx.ev(format!("subscribe sub{id} mode={mode}"));
            }
            let lh = {
                use fuel_core_storage::transactional::HistoricalView;
                nut.on_chain.latest_height().map(|h| *h)
            };
            ctx.check("C08", "height-after-restart", lh == model.latest(), || {
                format!("after the restart the database reports height {lh:?}, the model {:?}", model.latest())
            });
        }

        // ---- the request ----
        let api = if ctx.tape.chance(2, 5) { Api::Commit } else { Api::Exec };
        let Some(mut req) = gen_request(ctx, &nut, &honest, &model, api) else { continue };
        if req.api == Api::Commit && ctx.tape.chance(1, 5) {
            req.source = Source::Network;
        }
        let mut faults = Faults::default();
        if !k.fault_free {
            faults.validator = req.api == Api::Exec && fires(ctx, k.p_validator);
            faults.verifier = req.api == Api::Exec && fires(ctx, k.p_verifier);
            faults.publish = req.api == Api::Commit && fires(ctx, k.p_publish);
            if fires(ctx, k.p_commit) {
                faults.commit = 1;
            } else if fires(ctx, k.p_lost_ack) {
                faults.commit = 2;
            }
        }
        // `commit_result` of a PoA block with height zero is answered by the worker without a
        // single port call: nothing could hold it, so it is only driven normally
        let portless = req.api == Api::Commit
            && matches!(req.sealed.consensus, Consensus::PoA(_))
            && **req.sealed.entity.header().height() == 0;
        let drive = if portless {
            Drive::Normal
        } else if fires(ctx, k.p_concurrent) {
            let second = if ctx.tape.chance(2, 3) {
                let api2 = if ctx.tape.coin() { Api::Commit } else { Api::Exec };
                gen_request(ctx, &nut, &honest, &model, api2).map(Box::new)
            } else {
                None
            };
            Drive::Concurrent { second, drain_sub: ctx.tape.coin(), finish: !ctx.tape.chance(1, 4) }
        } else if fires(ctx, k.p_cancel) {
            Drive::Cancel { polls: 1 + ctx.tape.below(3) }
        } else {
            Drive::Normal
        };
        let cancelling = !matches!(drive, Drive::Normal | Drive::Concurrent { finish: true, .. });
        if !k.fault_free && !cancelling && faults.commit == 0 && fires(ctx, k.p_read) {
            faults.read_col = Some(*ctx.tape.pick(&[
                Column::FuelBlocks,
                Column::FuelBlockMerkleMetadata,
                Column::FuelBlockConsensus,
                Column::Transactions,
                Column::FuelBlockMerkleData,
                Column::Metadata,
            ]));
        }
        let touched = engine::forbidden(&model, &nut.chain_id, &req).contains(&"accumulator-touched");
        let out = engine::execute(ctx, &mut nut, &mut model, &honest, &req, &faults, drive).await;
        if out.stop {
            ctx.ev("stop: the node's state left the model");
            return;
        }
        if touched && out.committed {
            // (known finding) the accumulator of this node is now outside the model
            ctx.ev("stop: a commit that touched the accumulator was accepted");
            return;
        }
    }
    // everything that was announced is eventually readable by every subscriber, in order
    for i in 0..nut.subs.len() {
        nut.subs[i].held.clear();
        engine::drain_sub(ctx, &mut nut, i);
    }
    ctx.ev(format!("end latest={:?} announced={:?}", model.latest(), engine::heights_of(&nut.ann)));
}

fn gen_request(ctx: &mut Ctx, nut: &Nut, honest: &Honest, model: &Model, api: Api) -> Option<Request> {
    let Some(latest) = model.latest() else {
        // the store holds the genesis state but no genesis block yet
        return Some(match ctx.tape.weighted(&[8, 1, 1]) {
            0 => genesis_req(nut, Api::Commit),
            1 => genesis_req(nut, Api::Exec),
            _ => {
                if honest.tip() == 0 {
                    return None;
                }
                let mut r = honest_req(honest, 1, api);
                r.label = "honest#1-before-genesis".into();
                r
            }
        });
    };
    let tip = honest.tip();
    let next = latest + 1;
    let kind = ctx.tape.weighted(&[30, 8, 6, 8, 3, 3, 4, 4, 5]);
    let r = gen_kind(ctx, nut, honest, model, api, kind, latest, next, tip);
    if r.is_some() {
        const KIND: [&str; 9] = [
            "next", "duplicate", "stale", "skipped", "genesis_on_non_empty_db", "poa_height_zero",
            "accumulator_tamper", "record_tamper", "foreign_block",
        ];
        ctx.probe(&format!("request:{}:{:?}", KIND[kind.min(8)], api));
    }
    r
}

#[allow(clippy::too_many_arguments)]
fn gen_kind(
    ctx: &mut Ctx,
    nut: &Nut,
    honest: &Honest,
    model: &Model,
    api: Api,
    kind: usize,
    latest: u32,
    next: u32,
    tip: u32,
) -> Option<Request> {
    match kind {
        // the next honest block
        0 => (next <= tip).then(|| honest_req(honest, next, api)),
        // the latest block again
        1 => {
            if latest == 0 {
                let mut r = genesis_req(nut, api);
                r.label = "genesis-again".into();
                Some(r)
            } else if latest <= tip {
                let mut r = honest_req(honest, latest, api);
                r.label = format!("duplicate#{latest}");
                Some(r)
            } else {
                None
            }
        }
        // a stale block
        2 => {
            if latest < 2 {
                return None;
            }
            let h = 1 + ctx.tape.choose((latest - 1).min(tip) as u64) as u32;
            if h > tip {
                return None;
            }
            let mut r = honest_req(honest, h, api);
            r.label = format!("stale#{h}");
            Some(r)
        }
        // a block from the future
        3 => {
            if next + 1 > tip {
                return None;
            }
            let h = next + 1 + ctx.tape.choose((tip - next - 1).min(3) as u64 + 1) as u32;
            if h > tip {
                return None;
            }
            let mut r = honest_req(honest, h, api);
            r.label = format!("skipped#{h}");
            Some(r)
        }
        // the genesis block on a database that has blocks
        4 => {
            let mut r = genesis_req(nut, api);
            r.label = "genesis-on-non-empty-db".into();
            Some(r)
        }
        // a PoA block with height zero
        5 => {
            if next > tip {
                return None;
            }
            let base = &honest.blocks[(next - 1) as usize];
            let mut hdr = base.sealed.entity.header().clone();
            hdr.set_block_height(BlockHeight::from(0u32));
            let b = Block::try_from_executed(hdr, base.sealed.entity.transactions().to_vec())?;
            let sealed = seal(&honest.keys.key_for(0), &b);
            let mut r = honest_req(honest, next, api);
            r.sealed = sealed;
            r.honest_height = None;
            r.label = "poa-block-with-height-zero".into();
            Some(r)
        }
        // the next honest block whose execution changes touch the block Merkle accumulator
        6 => {
            if next > tip {
                return None;
            }
            let (what, writes) = accumulator_tamper(ctx, nut)?;
            let mut r = honest_req(honest, next, api);
            r.label = format!("honest#{next}+accumulator:{what}");
            match api {
                Api::Commit => crate::nut::apply_raw(&mut r.changes, &writes),
                Api::Exec => r.tamper = Some(writes),
            }
            r.honest_height = None;
            r.acc_kind = Some(what);
            Some(r)
        }
        // the next honest block whose execution changes write block / consensus / tx records
        7 => {
            if next > tip {
                return None;
            }
            let (what, writes) = record_tamper(ctx, nut, honest, next)?;
            let mut r = honest_req(honest, next, api);
            r.label = format!("honest#{next}+records:{what}");
            match api {
                Api::Commit => crate::nut::apply_raw(&mut r.changes, &writes),
                Api::Exec => r.tamper = Some(writes),
            }
            r.honest_height = None;
            Some(r)
        }
        // a block that is not the honest one (only `commit_result` can get it in: no validation)
        _ => {
            if next > tip {
                return None;
            }
            let h = match ctx.tape.choose(4) {
                0 => next + 1,
                1 => latest,
                _ => next,
            };
            let base = &honest.blocks[(next - 1) as usize];
            let (what, sealed) = foreign_block(ctx, honest, model, &base.sealed, h)?;
            let mut r = honest_req(honest, next, api);
            if ctx.tape.coin() {
                r.changes = Changes::default();
            }
            r.sealed = sealed;
            r.honest_height = None;
            r.label = format!("foreign-block-at-{h}:{what}");
            if matches!(r.sealed.consensus, Consensus::Genesis(_)) {
                return None;
            }
            Some(r)
        }
    }
}
