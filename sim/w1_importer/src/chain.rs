//! The honest side: a producer node (real `Producer` + real `Executor` + real `Importer`, no
//! faults) builds the chain that the node under test is fed with. Also builds, on the parent
//! state of every height, "consistent but rule-breaking" alternative blocks (time / DA height
//! going backwards, wrong previous root) signed with the correct key.

use chainkit::{
    ledger,
    node::{
        ExecPort,
        Node,
        OnChainDb,
        RelayerDb,
        SimSource,
        Strategy,
        dump_on_chain,
        seal,
    },
    spec::{
        ChainSpec,
        secret_from_index,
    },
    txgen::{
        self,
        GenState,
    },
};
use fuel_core_chain_config::{
    ConsensusConfig,
    PoAV2,
};
use fuel_core_producer::{
    Config as ProducerConfig,
    Producer,
    block_producer::gas_price::{
        ChainStateInfoProvider,
        GasPriceProvider,
    },
    ports::{
        BlockProducer,
        Relayer,
        RelayerBlockInfo,
        TxPool,
    },
};
use fuel_core_storage::{
    StorageAsRef,
    tables::{
        FuelBlocks,
        SealedBlockConsensus,
    },
    transactional::{
        AtomicView,
        Changes,
    },
};
use fuel_core_types::{
    blockchain::{
        SealedBlock,
        header::{
            ConsensusParametersVersion,
            PartialBlockHeader,
        },
        primitives::DaBlockHeight,
    },
    entities::relayer::message::{
        Message,
        MessageV1,
    },
    fuel_crypto::SecretKey,
    fuel_tx::{
        Address,
        ConsensusParameters,
        Input,
        Transaction,
        UniqueIdentifier,
    },
    fuel_types::{
        BlockHeight,
        Nonce,
    },
    services::{
        block_importer::{
            ImportResult,
            UncommittedResult as UncommittedImportResult,
        },
        block_producer::Components,
        executor::{
            Event as ExecEvent,
            TransactionExecutionStatus,
        },
        relayer::Event as DaEvent,
    },
    tai64::Tai64,
};
use simkit::Ctx;
use std::{
    collections::BTreeMap,
    sync::{
        Arc,
        Mutex,
    },
};

// ---------------------------------------------------------------------------------------------
// key schedule

#[derive(Clone)]
pub struct Keys {
    /// (first height, key); the first entry starts at height 0 (genesis signing key)
    pub schedule: Vec<(u32, SecretKey)>,
    pub config: ConsensusConfig,
    /// a key that is never part of the schedule
    pub outsider: SecretKey,
    pub kind: &'static str,
}

pub fn address_of(k: &SecretKey) -> Address {
    Input::owner(&k.public_key())
}

impl Keys {
    pub fn generate(ctx: &mut Ctx, max_height: u32) -> Keys {
        let k0 = secret_from_index("poa", 0);
        let k1 = secret_from_index("poa", 1);
        let k2 = secret_from_index("poa", 2);
        let outsider = secret_from_index("poa-outsider", 0);
        let mode = ctx.tape.weighted(&[3, 1, 4, 2]);
        let (schedule, config, kind) = match mode {
            0 => (
                vec![(0, k0)],
                ConsensusConfig::PoA { signing_key: address_of(&k0) },
                "PoA",
            ),
            1 => (
                vec![(0, k0)],
                ConsensusConfig::PoAV2(PoAV2::new(address_of(&k0), BTreeMap::new())),
                "PoAV2",
            ),
            2 => {
                let h1 = 1 + ctx.tape.choose(max_height.max(1) as u64) as u32;
                let mut o = BTreeMap::new();
                o.insert(BlockHeight::from(h1), address_of(&k1));
                (
                    vec![(0, k0), (h1, k1)],
                    ConsensusConfig::PoAV2(PoAV2::new(address_of(&k0), o)),
                    "PoAV2+1",
                )
            }
            _ => {
                let h1 = 1 + ctx.tape.choose(max_height.max(1) as u64) as u32;
                let h2 = h1 + 1 + ctx.tape.choose(3) as u32;
                let mut o = BTreeMap::new();
                o.insert(BlockHeight::from(h1), address_of(&k1));
                o.insert(BlockHeight::from(h2), address_of(&k2));
                (
                    vec![(0, k0), (h1, k1), (h2, k2)],
                    ConsensusConfig::PoAV2(PoAV2::new(address_of(&k0), o)),
                    "PoAV2+2",
                )
            }
        };
        Keys { schedule, config, outsider, kind }
    }

    /// The harness' own reading of the schedule: the last entry whose start is <= height.
    pub fn index_for(&self, height: u32) -> usize {
        let mut idx = 0;
        for (i, (from, _)) in self.schedule.iter().enumerate() {
            if *from <= height {
                idx = i;
            }
        }
        idx
    }
    pub fn key_for(&self, height: u32) -> SecretKey {
        self.schedule[self.index_for(height)].1
    }
    pub fn describe(&self) -> String {
        let s: Vec<String> = self.schedule.iter().map(|(h, _)| h.to_string()).collect();
        format!("{} key-starts=[{}]", self.kind, s.join(","))
    }
}

// ---------------------------------------------------------------------------------------------
// simulated ports of the real Producer

#[derive(Clone, Default)]
pub struct SimTxPool {
    pub next: Arc<Mutex<Option<SimSource>>>,
}

impl TxPool for SimTxPool {
    type TxSource = SimSource;
    async fn get_source(&self, _gas_price: u64, _h: BlockHeight) -> anyhow::Result<SimSource> {
        Ok(self.next.lock().unwrap().take().unwrap_or_default())
    }
}

#[derive(Clone)]
pub struct SimGas(pub u64);
impl GasPriceProvider for SimGas {
    fn production_gas_price(&self) -> anyhow::Result<u64> {
        Ok(self.0)
    }
    fn dry_run_gas_price(&self) -> anyhow::Result<u64> {
        Ok(self.0)
    }
}

#[derive(Clone)]
pub struct SimChainState(pub Arc<ConsensusParameters>);
impl ChainStateInfoProvider for SimChainState {
    fn consensus_params_at_version(
        &self,
        _version: &ConsensusParametersVersion,
    ) -> anyhow::Result<Arc<ConsensusParameters>> {
        Ok(self.0.clone())
    }
}

/// Relayer port: reports the finalized DA height the sim sets; every DA block costs nothing.
#[derive(Clone, Default)]
pub struct SimRelayer {
    pub finalized: Arc<Mutex<u64>>,
}

#[async_trait::async_trait]
impl Relayer for SimRelayer {
    async fn wait_for_at_least_height(&self, height: &DaBlockHeight) -> anyhow::Result<DaBlockHeight> {
        let f = *self.finalized.lock().unwrap();
        Ok(DaBlockHeight(f.max(height.0)))
    }
    async fn get_cost_and_transactions_number_for_block(
        &self,
        _height: &DaBlockHeight,
    ) -> anyhow::Result<RelayerBlockInfo> {
        Ok(RelayerBlockInfo { gas_cost: 0, tx_count: 0 })
    }
}

pub type Prod = Producer<OnChainDb, SimTxPool, ExecPort, SimGas, SimChainState>;

fn make_producer(node: &Node, spec: &ChainSpec, relayer: SimRelayer) -> Prod {
    Producer {
        config: ProducerConfig {
            coinbase_recipient: spec.coinbase_recipient,
            metrics: false,
        },
        view_provider: node.db.on_chain().clone(),
        txpool: SimTxPool::default(),
        executor: Arc::new(node.exec.clone()),
        relayer: Box::new(relayer),
        lock: Default::default(),
        gas_price_provider: SimGas(spec.gas_price),
        chain_state_info_provider: SimChainState(Arc::new(spec.params.clone())),
    }
}

// ---------------------------------------------------------------------------------------------
// the honest chain

#[derive(Clone)]
pub struct Alt {
    pub rule: &'static str,
    pub what: String,
    pub sealed: SealedBlock,
}

#[derive(Clone)]
pub struct HonestBlock {
    pub sealed: SealedBlock,
    pub tx_status: Vec<TransactionExecutionStatus>,
    pub events: Vec<ExecEvent>,
    pub changes: Changes,
    pub alts: Vec<Alt>,
}

pub struct Honest {
    pub spec: ChainSpec,
    pub keys: Keys,
    pub genesis: SealedBlock,
    /// blocks[i] has height i + 1
    pub blocks: Vec<HonestBlock>,
    /// full content of the producer's on-chain database after height h (for diagnostics)
    pub p_dump: Vec<Vec<(u32, Vec<u8>, Vec<u8>)>>,
    pub da_events: BTreeMap<u64, Vec<DaEvent>>,
    /// transactions valid on the tip state but never included (for "tx inserted" mutations)
    pub spare_txs: Vec<Transaction>,
}

impl Honest {
    pub fn tip(&self) -> u32 {
        self.blocks.len() as u32
    }
    /// sealed block at height h (0 = genesis)
    pub fn sealed(&self, h: u32) -> &SealedBlock {
        if h == 0 { &self.genesis } else { &self.blocks[(h - 1) as usize].sealed }
    }
}

pub fn write_da_events(db: &RelayerDb, events: &BTreeMap<u64, Vec<DaEvent>>) {
    use fuel_core_relayer::ports::RelayerDb as _;
    let mut db = db.clone();
    for (h, ev) in events {
        db.insert_events(&DaBlockHeight(*h), ev).expect("harness: relayer insert");
    }
}

pub struct ChainPlan {
    pub blocks: usize,
    /// upper bound of candidate transactions per block
    pub max_txs: u64,
    /// build rule-breaking alternative blocks (C15)
    pub alts: bool,
}

pub async fn build(ctx: &mut Ctx, plan: &ChainPlan) -> Honest {
    let mut spec = ChainSpec::generate(ctx);
    let keys = Keys::generate(ctx, plan.blocks as u32);
    spec.chain_config.consensus = keys.config.clone();
    ctx.ev(format!("spec {} consensus {}", spec.describe(), keys.describe()));
    let p = Node::genesis(&spec, "P", Strategy::Native)
        .await
        .unwrap_or_else(|e| panic!("harness: genesis failed: {e:?}"));

    // DA history: a few deposit messages, known to every node's relayer database
    let mut da_events: BTreeMap<u64, Vec<DaEvent>> = BTreeMap::new();
    let da_heights = ctx.tape.choose(plan.blocks as u64 + 1);
    for h in 1..=da_heights {
        let n = ctx.tape.small(2);
        let mut evs = Vec::new();
        for i in 0..n {
            let mut nonce = [0u8; 32];
            nonce[..8].copy_from_slice(&h.to_be_bytes());
            nonce[8] = i as u8;
            nonce[31] = 0xDA;
            let w = &spec.wallets[ctx.tape.below(spec.wallets.len())];
            evs.push(DaEvent::Message(Message::V1(MessageV1 {
                sender: Address::from([0x77; 32]),
                recipient: w.address,
                nonce: Nonce::from(nonce),
                amount: 1_000_000 + ctx.tape.choose(1000),
                data: if ctx.tape.coin() { vec![] } else { vec![9, 9, i as u8] },
                da_height: DaBlockHeight(h),
            })));
        }
        da_events.insert(h, evs);
    }
    write_da_events(p.db.relayer(), &da_events);

    let genesis = {
        let view = p.db.on_chain().latest_view().expect("view");
        let b = view
            .storage_as_ref::<FuelBlocks>()
            .get(&BlockHeight::from(0u32))
            .expect("read")
            .expect("genesis block")
            .into_owned();
        let c = view
            .storage_as_ref::<SealedBlockConsensus>()
            .get(&BlockHeight::from(0u32))
            .expect("read")
            .expect("genesis consensus")
            .into_owned();
        SealedBlock { entity: b.uncompress(vec![]), consensus: c }
    };

    let relayer = SimRelayer::default();
    let producer = make_producer(&p, &spec, relayer.clone());
    let mut gen_state = GenState::default();
    let mut time: i64 = 1_700_000_000;
    let mut blocks: Vec<HonestBlock> = Vec::new();
    let mut p_dump = vec![dump_on_chain(p.db.on_chain())];
    let chain_id = spec.params.chain_id();

    for _ in 0..plan.blocks {
        let height = p.height() + 1;
        let tables = ledger::scan(p.db.on_chain());
        gen_state.reserved_coins.clear();
        gen_state.reserved_msgs.clear();
        let ncand = ctx.tape.small(plan.max_txs);
        let mut txs: Vec<Transaction> = Vec::new();
        for _ in 0..ncand {
            if let Some(g) = txgen::gen_tx(ctx, &spec, &tables, &mut gen_state, height) {
                txs.push(g.tx);
            }
        }
        time += ctx.tape.choose(4) as i64;
        {
            let mut f = relayer.finalized.lock().unwrap();
            if *f < da_heights && ctx.tape.coin() {
                *f = (*f + 1 + ctx.tape.choose(2)).min(da_heights);
            }
        }
        *producer.txpool.next.lock().unwrap() = Some(SimSource::new(vec![txs.clone()]));
        ctx.ev(format!("P produce height={height} time=+{} cands={}", time - 1_700_000_000, txs.len()));
        let res = producer
            .produce_and_execute_block_txpool(height.into(), Tai64::from_unix(time), ())
            .await;
        let uncommitted = match res {
            Ok(r) => r,
            Err(e) => {
                ctx.ev(format!("  production failed: {e:#}"));
                break;
            }
        };
        let (result, changes) = uncommitted.into();
        let block = result.block.clone();
        let sealed = seal(&keys.key_for(height), &block);
        ctx.ev(format!(
            "  block id={} txs={} da={} key#{}",
            block.id(),
            block.transactions().len(),
            block.header().da_height().0,
            keys.index_for(height)
        ));

        // ---- rule-breaking alternatives on the same parent state ----
        let mut alts = Vec::new();
        if plan.alts {
            let parent = if height == 1 {
                genesis.entity.header().clone()
            } else {
                blocks[(height - 2) as usize].sealed.entity.header().clone()
            };
            let body: Vec<Transaction> = block
                .transactions()
                .iter()
                .filter(|t| !t.is_mint())
                .cloned()
                .collect();
            let n_alts = ctx.tape.choose(3);
            for _ in 0..n_alts {
                let mut partial = PartialBlockHeader::from(block.header());
                let (rule, what): (&'static str, String) = match ctx.tape.choose(3) {
                    0 => {
                        let back = 1 + ctx.tape.choose(1000);
                        partial.consensus.time = Tai64(parent.time().0.saturating_sub(back));
                        ("time", format!("time {back}s before the parent"))
                    }
                    1 => {
                        if parent.da_height().0 == 0 {
                            continue;
                        }
                        let d = parent.da_height().0 - 1 - ctx.tape.choose(parent.da_height().0);
                        partial.application.da_height = DaBlockHeight(d);
                        ("da_height", format!("DA height {d} below the parent's {}", parent.da_height().0))
                    }
                    _ => {
                        let r = if ctx.tape.coin() {
                            *parent.prev_root()
                        } else {
                            let mut b = *block.header().prev_root();
                            let i = ctx.tape.below(32);
                            b[i] ^= 1 << ctx.tape.choose(8);
                            b
                        };
                        if &r == block.header().prev_root() {
                            continue;
                        }
                        partial.consensus.prev_root = r;
                        ("prev_root", "previous root is not the parent's block root".to_string())
                    }
                };
                let comp = Components {
                    header_to_produce: partial,
                    transactions_source: SimSource::new(vec![body.clone()]),
                    coinbase_recipient: spec.coinbase_recipient.unwrap_or_default(),
                    gas_price: spec.gas_price,
                };
                match BlockProducer::<SimSource>::produce_without_commit(&p.exec, comp, ()).await {
                    Ok(r) => {
                        let (er, _) = r.into();
                        let s = seal(&keys.key_for(height), &er.block);
                        ctx.ev(format!("  alt {rule}: {what} id={}", er.block.id()));
                        alts.push(Alt { rule, what, sealed: s });
                    }
                    Err(e) => {
                        ctx.ev(format!("  alt {rule} could not be executed: {e}"));
                    }
                }
            }
        }

        // ---- commit on the producer through its (fault-free) real importer ----
        let import = UncommittedImportResult::new(
            ImportResult::new_from_local(sealed.clone(), result.tx_status.clone(), result.events.clone()),
            changes.clone(),
        );
        ctx.scope("C08");
        if let Err(e) = p.importer.commit_result(import).await {
            ctx.violate(
                "C08",
                "honest-producer-commit-rejected",
                format!("the importer of the fault-free producer refused its own block {height}: {e}"),
            );
            break;
        }
        for tx in block.transactions() {
            if !tx.is_mint() {
                gen_state.executed.push(tx.clone());
            }
        }
        let _ = chain_id;
        p_dump.push(dump_on_chain(p.db.on_chain()));
        blocks.push(HonestBlock {
            sealed,
            tx_status: result.tx_status,
            events: result.events,
            changes,
            alts,
        });
    }

    // transactions that are valid on the tip state and in no block
    let mut spare_txs = Vec::new();
    {
        let tables = ledger::scan(p.db.on_chain());
        gen_state.reserved_coins.clear();
        gen_state.reserved_msgs.clear();
        for _ in 0..2 {
            if let Some(g) = txgen::gen_tx(ctx, &spec, &tables, &mut gen_state, p.height() + 1) {
                let id = g.tx.id(&chain_id);
                let known = blocks
                    .iter()
                    .any(|b| b.sealed.entity.transactions().iter().any(|t| t.id(&chain_id) == id));
                if !known {
                    spare_txs.push(g.tx);
                }
            }
        }
    }

    Honest {
        spec,
        keys,
        genesis,
        blocks,
        p_dump,
        da_events,
        spare_txs,
    }
}
