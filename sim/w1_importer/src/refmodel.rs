//! Independent reference computations (own SHA-256 based code, nothing from fuel-core-types'
//! hashing helpers): block id, application hash, binary Merkle root of the transaction list.

use fuel_core_types::{
    blockchain::header::BlockHeader,
    fuel_tx::Transaction,
    fuel_types::canonical::Serialize,
};
use sha2::{
    Digest,
    Sha256,
};

pub fn sha(parts: &[&[u8]]) -> [u8; 32] {
    let mut h = Sha256::new();
    for p in parts {
        h.update(p);
    }
    h.finalize().into()
}

/// RFC 6962 style binary Merkle root: leaf = H(0x00 || data), node = H(0x01 || l || r),
/// empty tree = H("").
pub fn merkle_root(leaves: &[Vec<u8>]) -> [u8; 32] {
    fn rec(l: &[Vec<u8>]) -> [u8; 32] {
        match l.len() {
            0 => sha(&[]),
            1 => sha(&[&[0u8], &l[0]]),
            n => {
                let mut k = 1usize;
                while k * 2 < n {
                    k *= 2;
                }
                let a = rec(&l[..k]);
                let b = rec(&l[k..]);
                sha(&[&[1u8], &a, &b])
            }
        }
    }
    rec(leaves)
}

pub fn tx_root(txs: &[Transaction]) -> [u8; 32] {
    let leaves: Vec<Vec<u8>> = txs.iter().map(|t| t.to_bytes()).collect();
    merkle_root(&leaves)
}

/// Hash of the application header as the specification orders the fields.
pub fn application_hash(h: &BlockHeader) -> [u8; 32] {
    sha(&[
        &h.da_height().0.to_be_bytes(),
        &h.consensus_parameters_version().to_be_bytes(),
        &h.state_transition_bytecode_version().to_be_bytes(),
        &h.transactions_count().to_be_bytes(),
        &h.message_receipt_count().to_be_bytes(),
        h.transactions_root().as_ref(),
        h.message_outbox_root().as_ref(),
        h.event_inbox_root().as_ref(),
    ])
}

/// Block id from the four consensus header fields (the application hash is taken as the header
/// states it, exactly like a node that received the header over the network does).
pub fn block_id(h: &BlockHeader) -> [u8; 32] {
    let height: u32 = **h.height();
    sha(&[
        h.prev_root().as_ref(),
        &height.to_be_bytes(),
        &h.time().0.to_be_bytes(),
        h.application_hash().as_ref(),
    ])
}
