//! C15: the acceptance gate for network blocks under single mutations.
//!
//! The gate is what a syncing node does with a (sealed header, transactions) pair received from
//! a peer: `Verifier::verify_consensus(sealed header)`, `Block::try_from_executed(header, txs)`,
//! `Importer::execute_and_commit(sealed block)` (which runs `verify_block_fields` and the
//! executor). Every mutant travels through the wire encoding first (postcard, as the p2p codec
//! does), so cached ids are gone exactly like for a real peer message.

use crate::{
    c08,
    chain::{
        self,
        ChainPlan,
        Honest,
        address_of,
    },
    engine::{
        self,
        Api,
        Drive,
        Faults,
        Model,
        Request,
    },
    nut::{
        Backend,
        Nut,
    },
    refmodel,
};
use fuel_core_types::{
    blockchain::{
        SealedBlock,
        SealedBlockHeader,
        block::Block,
        consensus::{
            Consensus,
            poa::PoAConsensus,
        },
        header::BlockHeader,
        primitives::DaBlockHeight,
    },
    fuel_crypto::{
        Message,
        SecretKey,
        Signature,
    },
    fuel_tx::{
        Bytes32,
        Transaction,
    },
    fuel_types::{
        BlockHeight,
        canonical::{
            Deserialize as _,
            Serialize as _,
        },
    },
    services::block_importer::Source,
    tai64::Tai64,
};
use simkit::{
    Ctx,
    Tier,
};

#[derive(Clone, Copy, PartialEq, Eq, Debug)]
enum Signer {
    /// the seal of the honest block is kept
    Original,
    /// re-signed with a key that is not in the schedule
    Outsider,
    /// re-signed with the key of the schedule entry before / after the right one
    Neighbour(usize),
    /// re-signed with the key configured for the (mutated) height
    Correct,
    /// the seal is replaced as described by the mutation itself
    Custom,
}

struct Mutant {
    what: String,
    header: BlockHeader,
    consensus: Consensus,
    txs: Vec<Transaction>,
    /// flip this bit of the wire encoding (index taken modulo the length)
    wire_flip: Option<(u64, u8)>,
}

fn sign(key: &SecretKey, header: &BlockHeader) -> Consensus {
    // sign the id a receiver will compute (no cached metadata)
    let id = refmodel::block_id(header);
    let m = Message::from_bytes(id);
    Consensus::PoA(PoAConsensus::new(Signature::sign(key, &m)))
}

fn flip32(ctx: &mut Ctx, b: &Bytes32) -> Bytes32 {
    let mut x = **b;
    let i = ctx.tape.below(32);
    x[i] ^= 1 << ctx.tape.choose(8);
    Bytes32::from(x)
}

fn app_mut(h: &mut BlockHeader) -> &mut fuel_core_types::blockchain::header::ApplicationHeader<
    fuel_core_types::blockchain::header::v1::GeneratedApplicationFieldsV1,
> {
    match h {
        BlockHeader::V1(v) => v.application_mut(),
    }
}

/// One mutation of the honest sealed block `hb` (height h, parent `parent`).
fn mutate(ctx: &mut Ctx, honest: &Honest, hb: &SealedBlock, parent: &BlockHeader, kind: usize) -> Option<Mutant> {
    let keys = &honest.keys;
    let h: u32 = **hb.entity.header().height();
    let mut header = hb.entity.header().clone();
    let mut txs: Vec<Transaction> = hb.entity.transactions().to_vec();
    let mut consensus = hb.consensus.clone();
    let mut wire_flip = None;
    // (what, rehash the application header?, who signs)
    let (what, rehash, signer): (String, bool, Signer) = match kind {
        // ---- consensus header fields: every change alters the id ----
        0 => {
            let nh = match ctx.tape.choose(4) {
                0 => 0,
                1 => h - 1,
                2 => h + 1,
                _ => h + 2 + ctx.tape.choose(1000) as u32,
            };
            header.consensus_mut().height = BlockHeight::from(nh);
            (format!("height {h} -> {nh}"), false, pick_signer(ctx, keys, nh, true))
        }
        1 => {
            let r = if ctx.tape.coin() { flip32(ctx, header.prev_root()) } else { *parent.prev_root() };
            if &r == header.prev_root() {
                return None;
            }
            header.consensus_mut().prev_root = r;
            ("prev_root changed".into(), false, pick_signer(ctx, keys, h, true))
        }
        2 => {
            // time: backwards (below the parent, or just below the honest time) or forwards
            let t = header.time().0;
            let (nt, correct_ok) = match ctx.tape.choose(3) {
                0 => (parent.time().0.saturating_sub(1 + ctx.tape.choose(100)), true),
                1 => {
                    if t == parent.time().0 {
                        return None;
                    }
                    (parent.time().0 + ctx.tape.choose(t - parent.time().0), false)
                }
                _ => (t + 1 + ctx.tape.choose(100), false),
            };
            if nt == t {
                return None;
            }
            header.consensus_mut().time = Tai64(nt);
            (
                format!("time {:+}", nt as i128 - t as i128),
                false,
                pick_signer(ctx, keys, h, correct_ok),
            )
        }
        3 => {
            let x = flip32(ctx, header.application_hash());
            header.consensus_mut().generated.application_hash = x;
            ("application_hash changed".into(), false, pick_signer(ctx, keys, h, true))
        }
        // ---- application header fields ----
        4 => {
            let d = header.da_height().0;
            let (nd, correct_ok) = match ctx.tape.choose(2) {
                0 => {
                    if parent.da_height().0 == 0 {
                        return None;
                    }
                    (parent.da_height().0 - 1 - ctx.tape.choose(parent.da_height().0), true)
                }
                _ => (d + 1 + ctx.tape.choose(3), false),
            };
            app_mut(&mut header).da_height = DaBlockHeight(nd);
            let rehash = ctx.tape.coin();
            (
                format!("da_height {d} -> {nd} rehash={rehash}"),
                rehash,
                if rehash { pick_signer(ctx, keys, h, correct_ok) } else { Signer::Original },
            )
        }
        5..=11 => {
            let name = match kind {
                5 => {
                    app_mut(&mut header).consensus_parameters_version += 1 + ctx.tape.choose(2) as u32;
                    "consensus_parameters_version"
                }
                6 => {
                    let v = header.state_transition_bytecode_version();
                    app_mut(&mut header).state_transition_bytecode_version =
                        if ctx.tape.coin() { v + 1 } else { v.saturating_sub(1) };
                    if header.state_transition_bytecode_version() == v {
                        return None;
                    }
                    "state_transition_bytecode_version"
                }
                7 => {
                    let r = flip32(ctx, &header.transactions_root());
                    app_mut(&mut header).generated.transactions_root = r;
                    "transactions_root"
                }
                8 => {
                    let c = header.transactions_count();
                    app_mut(&mut header).generated.transactions_count =
                        if ctx.tape.coin() { c.wrapping_add(1) } else { c.wrapping_sub(1) };
                    "transactions_count"
                }
                9 => {
                    let r = flip32(ctx, &header.message_outbox_root());
                    app_mut(&mut header).generated.message_outbox_root = r;
                    "message_outbox_root"
                }
                10 => {
                    let c = header.message_receipt_count();
                    app_mut(&mut header).generated.message_receipt_count =
                        if ctx.tape.coin() { c.wrapping_add(1) } else { c.wrapping_sub(1) };
                    "message_receipt_count"
                }
                _ => {
                    let r = flip32(ctx, &header.event_inbox_root());
                    app_mut(&mut header).generated.event_inbox_root = r;
                    "event_inbox_root"
                }
            };
            let rehash = ctx.tape.coin();
            (
                format!("{name} changed rehash={rehash}"),
                rehash,
                // with a consistent application hash and the right key only the content checks
                // (transaction root/count) or the re-execution can tell
                if rehash { pick_signer(ctx, keys, h, true) } else { Signer::Original },
            )
        }
        // ---- transactions ----
        12..=15 => {
            let what = match kind {
                12 => {
                    let i = ctx.tape.below(txs.len());
                    txs.remove(i);
                    format!("transaction #{i} removed")
                }
                13 => {
                    let i = ctx.tape.below(txs.len() + 1);
                    let t = match ctx.tape.choose(3) {
                        0 if !honest.spare_txs.is_empty() => honest.spare_txs[ctx.tape.below(honest.spare_txs.len())].clone(),
                        1 => txs[ctx.tape.below(txs.len())].clone(),
                        _ => Transaction::default_test_tx(),
                    };
                    txs.insert(i, t);
                    format!("transaction inserted at #{i}")
                }
                14 => {
                    if txs.len() < 2 {
                        return None;
                    }
                    let i = ctx.tape.below(txs.len());
                    let mut j = ctx.tape.below(txs.len() - 1);
                    if j >= i {
                        j += 1;
                    }
                    if txs[i] == txs[j] {
                        return None;
                    }
                    txs.swap(i, j);
                    format!("transactions #{i} and #{j} swapped")
                }
                _ => {
                    // one bit of the canonical encoding of one transaction
                    let i = ctx.tape.below(txs.len());
                    let mut bytes = txs[i].to_bytes();
                    let p = ctx.tape.below(bytes.len());
                    bytes[p] ^= 1 << ctx.tape.choose(8);
                    let t = Transaction::from_bytes(&bytes).ok()?;
                    if t == txs[i] {
                        return None;
                    }
                    txs[i] = t;
                    format!("transaction #{i}: bit flipped at byte {p}")
                }
            };
            let fix_header = ctx.tape.coin();
            if fix_header {
                let root = Bytes32::from(refmodel::tx_root(&txs));
                app_mut(&mut header).generated.transactions_root = root;
                app_mut(&mut header).generated.transactions_count = txs.len() as u16;
            }
            (
                format!("{what} header_fixed={fix_header}"),
                fix_header,
                // a re-rooted block signed with the right key would be a different, possibly
                // valid, block of the authority itself: not a mutation in transit
                if fix_header { pick_signer(ctx, keys, h, false) } else { Signer::Original },
            )
        }
        // ---- the seal ----
        16 => {
            let Consensus::PoA(p) = &hb.consensus else { return None };
            let mut b = *p.signature;
            let i = ctx.tape.below(64);
            b[i] ^= 1 << ctx.tape.choose(8);
            consensus = Consensus::PoA(PoAConsensus::new(Signature::from_bytes(b)));
            (format!("signature bit flipped in byte {i}"), false, Signer::Custom)
        }
        17 => ("signed by a key outside the schedule".into(), false, Signer::Outsider),
        18 => {
            if keys.schedule.len() < 2 {
                return None;
            }
            let right = keys.index_for(h);
            let other = if right == 0 {
                1
            } else if right + 1 < keys.schedule.len() && ctx.tape.coin() {
                right + 1
            } else {
                right - 1
            };
            (format!("signed by schedule key #{other} instead of #{right}"), false, Signer::Neighbour(other))
        }
        19 => {
            // a genuine signature of the right key, but over another block
            let other = if h >= 2 { honest.sealed(h - 1).clone() } else { return None };
            if matches!(other.consensus, Consensus::Genesis(_)) {
                return None;
            }
            consensus = other.consensus;
            ("seal of the parent block attached".into(), false, Signer::Custom)
        }
        20 => {
            consensus = match ctx.tape.choose(2) {
                0 => honest.genesis.consensus.clone(),
                _ => Consensus::Genesis(Default::default()),
            };
            ("PoA seal replaced by a genesis seal".into(), false, Signer::Custom)
        }
        21 => {
            consensus = Consensus::PoA(PoAConsensus::new(Signature::default()));
            ("zeroed signature".into(), false, Signer::Custom)
        }
        // ---- anything: one bit of the wire encoding ----
        _ => {
            wire_flip = Some((ctx.tape.choose(u64::MAX), ctx.tape.choose(8) as u8));
            ("one bit of the wire encoding flipped".into(), false, Signer::Custom)
        }
    };
    if rehash {
        header.recalculate_metadata();
    }
    let mh: u32 = **header.height();
    let consensus = match signer {
        Signer::Original | Signer::Custom => consensus,
        Signer::Outsider => sign(&keys.outsider, &header),
        Signer::Neighbour(i) => sign(&keys.schedule[i].1, &header),
        Signer::Correct => sign(&keys.key_for(mh), &header),
    };
    Some(Mutant {
        what: format!("{what} signer={signer:?}"),
        header,
        consensus,
        txs,
        wire_flip,
    })
}

fn pick_signer(ctx: &mut Ctx, keys: &chain::Keys, height: u32, correct_ok: bool) -> Signer {
    let right = keys.index_for(height);
    loop {
        match ctx.tape.weighted(&[3, 2, 2, 3]) {
            0 => return Signer::Original,
            1 => return Signer::Outsider,
            2 => {
                if keys.schedule.len() >= 2 {
                    return Signer::Neighbour(if right == 0 { 1 } else { right - 1 });
                }
                return Signer::Outsider;
            }
            _ => {
                if correct_ok {
                    return Signer::Correct;
                }
                return Signer::Original;
            }
        }
    }
}

/// What the receiving node decodes.
fn wire(m: &Mutant) -> Option<(SealedBlockHeader, Vec<Transaction>)> {
    let msg = (
        SealedBlockHeader { entity: m.header.clone(), consensus: m.consensus.clone() },
        m.txs.clone(),
    );
    let mut bytes = postcard::to_allocvec(&msg).expect("harness: encode");
    if let Some((pos, bit)) = m.wire_flip {
        let p = (pos % bytes.len() as u64) as usize;
        bytes[p] ^= 1 << bit;
    }
    postcard::from_bytes::<(SealedBlockHeader, Vec<Transaction>)>(&bytes).ok()
}

fn unchecked_block(template: &Block, header: &BlockHeader, txs: &[Transaction]) -> Block {
    let mut b = template.clone();
    *b.header_mut() = header.clone();
    *b.transactions_mut() = txs.to_vec();
    b
}

struct GateCtx<'a> {
    honest: &'a Honest,
    nut: &'a mut Nut,
    model: &'a mut Model,
}

/// Runs the three stages for a received (sealed header, transactions) pair and evaluates the
/// C15 clauses against the honest block `hb` of that height. Returns true if the node
/// committed the block.
async fn gate(
    ctx: &mut Ctx,
    g: &mut GateCtx<'_>,
    what: &str,
    sh: SealedBlockHeader,
    txs: Vec<Transaction>,
    hb: &SealedBlock,
) -> bool {
    let honest = g.honest;
    let keys = &honest.keys;
    let header = &sh.entity;
    let mh: u32 = **header.height();
    let h: u32 = **hb.entity.header().height();
    // content = header fields + canonical transaction bytes (a re-encoding that decodes to the
    // same canonical form is the same block)
    let canon = |v: &[Transaction]| -> Vec<Vec<u8>> { v.iter().map(|t| t.to_bytes()).collect() };
    let content_same = header == hb.entity.header() && canon(&txs) == canon(hb.entity.transactions());
    let same_value = txs.as_slice() == hb.entity.transactions();
    if content_same && !same_value {
        // e.g. a value in the slot of a policy whose bit is not set: not part of the canonical form
        ctx.probe("same_canonical_form_other_in_memory_value");
    }
    let seal_same = sh.consensus == hb.consensus;
    ctx.scope("C15");

    // ---- independent analysis ----
    let my_id = refmodel::block_id(header);
    let real_id = header.id();
    ctx.check("C15", "block-id-formula", real_id.as_slice() == my_id.as_slice(), || {
        format!("{what}: header.id() = {real_id}, SHA-256(prev_root, height, time, application_hash) = {}", Bytes32::from(my_id))
    });
    let same_id = real_id == hb.entity.id();
    let signer_ok = match &sh.consensus {
        Consensus::PoA(p) => p
            .signature
            .recover(&Message::from_bytes(my_id))
            .map(|k| fuel_core_types::fuel_tx::Input::owner(&k) == address_of(&keys.key_for(mh)))
            .unwrap_or(false),
        _ => false,
    };
    let mut rules: Vec<&'static str> = Vec::new();
    if mh == 0 {
        rules.push("height-zero");
    } else if mh > h {
        // the node has no parent for it
        rules.push("unknown-parent");
    } else {
        let parent = honest.sealed(mh - 1).entity.header();
        let expected_prev = honest.sealed(mh).entity.header().prev_root();
        if header.prev_root() != expected_prev {
            rules.push("prev_root");
        }
        if header.da_height() < parent.da_height() {
            rules.push("da_height");
        }
        if header.time() < parent.time() {
            rules.push("time");
        }
    }
    let app_ok = header.application_hash().as_slice() == refmodel::application_hash(header).as_slice();
    if !app_ok {
        rules.push("application_hash");
    }
    let txs_ok = header.transactions_root().as_slice() == refmodel::tx_root(&txs).as_slice()
        && header.transactions_count() as usize == txs.len();
    if !txs_ok {
        rules.push("transactions_root_or_count");
    }

    // ---- the stages, each on its own ----
    let verifier = g.nut.verifier.inner.block_verifier.clone();
    let vc = verifier.verify_consensus(&sh);
    let tfe = Block::try_from_executed(header.clone(), txs.clone());
    let block = unchecked_block(&hb.entity, header, &txs);
    let vbf = if matches!(sh.consensus, Consensus::PoA(_)) {
        Some(verifier.verify_block_fields(&sh.consensus, &block))
    } else {
        None
    };
    ctx.op(format!(
        "gate h={h} [{what}] content_same={content_same} seal_same={seal_same} same_id={same_id} signer_ok={signer_ok} rules={rules:?} -> verify_consensus={vc} try_from_executed={} verify_block_fields={}",
        tfe.is_some(),
        match &vbf {
            None => "n/a".to_string(),
            Some(Ok(())) => "Ok".to_string(),
            Some(Err(e)) => format!("Err({e})"),
        }
    ));
    if let Consensus::PoA(_) = &sh.consensus {
        ctx.check("C15", "verify-consensus-accepts-wrong-signer", !vc || signer_ok, || {
            format!("{what}: verify_consensus accepted a seal that does not recover to the key configured for height {mh}")
        });
    }
    if let Some(r) = &vbf {
        for rule in &rules {
            let class = format!("verify-block-fields-accepts:{rule}");
            ctx.check("C15", &class, r.is_err(), || {
                format!("{what}: verify_block_fields accepted a block that violates the rule {rule}")
            });
        }
    }
    ctx.check("C15", "try-from-executed-accepts-mismatch", txs_ok || tfe.is_none(), || {
        format!("{what}: Block::try_from_executed accepted transactions that do not match the header")
    });
    if !content_same && same_id {
        ctx.probe("content_differs_with_same_id");
        let caught = vbf.as_ref().map(|r| r.is_err()).unwrap_or(true) || tfe.is_none();
        ctx.check("C15", "same-id-different-content-passes-checks", caught, || {
            format!("{what}: the content differs from the honest block, the id is the same and the content checks pass")
        });
    }
    if !content_same && !same_id {
        ctx.probe("content_differs_with_other_id");
    }
    if content_same && seal_same {
        ctx.check("C15", "honest-block-fails-checks", vc && tfe.is_some() && matches!(vbf, Some(Ok(()))), || {
            format!("{what}: the unmutated block fails the checks")
        });
    }

    // ---- the node's decision ----
    let Some(block) = tfe else {
        ctx.probe("rejected_by_try_from_executed");
        return false;
    };
    if !vc {
        ctx.probe("rejected_by_verify_consensus");
        return false;
    }
    if vbf.as_ref().map(|r| r.is_err()).unwrap_or(false) {
        ctx.probe("reaches_importer_and_fails_verify_block_fields");
    }
    let req = Request {
        label: format!("network[{what}]"),
        api: Api::Exec,
        sealed: SealedBlock { entity: block, consensus: sh.consensus.clone() },
        source: Source::Network,
        tx_status: vec![],
        events: vec![],
        changes: Default::default(),
        tamper: None,
        honest_height: (content_same && seal_same && same_value).then_some(h),
        acc_kind: None,
    };
    let out = engine::execute(ctx, g.nut, g.model, honest, &req, &Faults::default(), Drive::Normal).await;
    ctx.scope("C15");
    if out.stop {
        return false;
    }
    if out.committed {
        ctx.check("C15", "gate-accepted-different-block", content_same, || {
            format!("{what}: the node committed a block at height {mh} whose content differs from the honest block (rules violated: {rules:?})")
        });
        ctx.check("C15", "gate-accepted-wrong-seal", signer_ok, || {
            format!("{what}: the node committed a block whose seal does not recover to the configured key")
        });
        if content_same && !seal_same {
            ctx.probe("accepted_same_content_other_valid_seal");
        }
    } else {
        ctx.probe("rejected_by_importer");
    }
    out.committed
}

pub async fn run(ctx: &mut Ctx) {
    let thorough = ctx.tier == Tier::Thorough;
    let plan = ChainPlan {
        blocks: 2 + ctx.tape.below(if thorough { 7 } else { 4 }),
        max_txs: 4,
        alts: true,
    };
    let honest = chain::build(ctx, &plan).await;
    if ctx.failed() {
        return;
    }
    let backend = if ctx.tape.chance(1, 10) { Backend::Rocks } else { Backend::Memory };
    let mut nut = Nut::new(&honest, backend, false, 1024, true).await;
    let mut model = Model::new();
    if ctx.tape.coin() {
        nut.subscribe(0);
    }
    // genesis through the node's own importer
    let req = c08::genesis_req(&nut, Api::Commit);
    let out = engine::execute(ctx, &mut nut, &mut model, &honest, &req, &Faults::default(), Drive::Normal).await;
    if !out.committed || ctx.failed() {
        return;
    }
    let per_height = if thorough { 6 + ctx.tape.below(12) } else { 3 + ctx.tape.below(6) };
    for h in 1..=honest.tip() {
        if ctx.failed() {
            return;
        }
        let hb = honest.blocks[(h - 1) as usize].clone();
        if honest.keys.schedule.iter().skip(1).any(|(from, _)| *from == h || *from == h + 1) {
            ctx.probe("height_at_key_schedule_boundary");
        }
        let parent = honest.sealed(h - 1).entity.header().clone();
        let mut g = GateCtx { honest: &honest, nut: &mut nut, model: &mut model };
        let mut advanced = false;

        // rule-breaking but otherwise consistent blocks signed with the right key
        for alt in &hb.alts {
            let m = Mutant {
                what: format!("re-executed with {} ({}), right key", alt.rule, alt.what),
                header: alt.sealed.entity.header().clone(),
                consensus: alt.sealed.consensus.clone(),
                txs: alt.sealed.entity.transactions().to_vec(),
                wire_flip: None,
            };
            let Some((sh, txs)) = wire(&m) else { continue };
            ctx.probe("alt_block_delivered");
            if gate(ctx, &mut g, &m.what, sh, txs, &hb.sealed).await {
                advanced = true;
                break;
            }
            if ctx.failed() {
                return;
            }
        }
        // single mutations of the honest block
        let mut n = 0;
        while !advanced && n < per_height {
            n += 1;
            let kind = ctx.tape.weighted(&[
                4, 4, 5, 2, // height, prev_root, time, application_hash
                4, 2, 2, 3, 3, 2, 2, 2, // da, cpv, stf, tx root, tx count, outbox root, receipts, inbox root
                4, 4, 3, 5, // tx removed, inserted, swapped, bit flipped
                3, 3, 4, 2, 2, 1, // signature bit, outsider, schedule neighbour, parent's seal, genesis seal, zero
                6, // wire bit
            ]);
            let Some(m) = mutate(ctx, &honest, &hb.sealed, &parent, kind) else { continue };
            const KIND: [&str; 23] = [
                "height", "prev_root", "time", "application_hash", "da_height", "consensus_parameters_version",
                "stf_version", "transactions_root", "transactions_count", "message_outbox_root",
                "message_receipt_count", "event_inbox_root", "tx_removed", "tx_inserted", "tx_swapped",
                "tx_bit_flipped", "signature_bit", "signed_by_outsider", "signed_by_schedule_neighbour",
                "seal_of_parent", "genesis_seal", "zero_signature", "wire_bit",
            ];
            ctx.probe(&format!("mutant:{}", KIND[kind.min(22)]));
            for s in ["Original", "Outsider", "Neighbour", "Correct"] {
                if m.what.contains(&format!("signer={s}")) {
                    ctx.probe(&format!("signer:{s}"));
                }
            }
            let Some((sh, txs)) = wire(&m) else {
                ctx.ev(format!("mutant [{}] does not decode", m.what));
                ctx.probe("rejected_by_codec");
                continue;
            };
            if gate(ctx, &mut g, &m.what, sh, txs, &hb.sealed).await {
                advanced = true;
            }
            if ctx.failed() {
                return;
            }
        }
        if advanced {
            // only possible with a semantically identical block (otherwise a violation was
            // recorded above); the node is at height h now
            continue;
        }
        // ---- the unmutated block: must pass (liveness sanity) ----
        let m = Mutant {
            what: "unmutated".into(),
            header: hb.sealed.entity.header().clone(),
            consensus: hb.sealed.consensus.clone(),
            txs: hb.sealed.entity.transactions().to_vec(),
            wire_flip: None,
        };
        let (sh, txs) = wire(&m).expect("harness: the honest block does not decode");
        let ok = gate(ctx, &mut g, &m.what, sh, txs, &hb.sealed).await;
        ctx.check("C15", "honest-block-rejected", ok, || {
            format!("the unmutated honest block {h} was not accepted by the gate")
        });
        if !ok {
            return;
        }
        // late deliveries: the block itself again, or a mutant of it, after it was imported
        if ctx.tape.chance(1, 3) {
            let kind = ctx.tape.below(23);
            let late = if ctx.tape.chance(1, 4) { Some(m) } else { mutate(ctx, &honest, &hb.sealed, &parent, kind) };
            if let Some(mut m) = late {
                m.what = format!("late: {}", m.what);
                if let Some((sh, txs)) = wire(&m) {
                    ctx.probe("late_delivery");
                    let again = gate(ctx, &mut g, &m.what, sh, txs, &hb.sealed).await;
                    ctx.check("C15", "imported-height-accepted-again", !again, || {
                        format!("{}: a block of the already imported height {h} was committed", m.what)
                    });
                    if again || ctx.failed() {
                        return;
                    }
                }
            }
        }
    }
    for i in 0..nut.subs.len() {
        engine::drain_sub(ctx, &mut nut, i);
    }
    ctx.ev(format!("end latest={:?}", model.latest()));
}
