//! Issues one request to the importer of the node under test (normally, with a concurrent second
//! caller, or cancelled after k polls), observes the database before and after, the
//! announcements and the subscribers, and evaluates the C08 oracle against the model.

use crate::{
    chain::Honest,
    nut::{
        Backend,
        NO_COLUMN,
        Nut,
        RawWrite,
    },
};
use chainkit::node::dump_on_chain;
use fuel_core_importer::{
    ImporterResult,
    error::Error as ImporterError,
};
use fuel_core_storage::{
    StorageAsRef,
    column::Column,
    kv_store::{
        StorageColumn,
        WriteOperation,
    },
    tables::{
        FuelBlocks,
        SealedBlockConsensus,
        Transactions,
    },
    transactional::{
        AtomicView,
        Changes,
        HistoricalView,
    },
};
use fuel_core_types::{
    blockchain::{
        SealedBlock,
        consensus::Consensus,
        primitives::BlockId,
    },
    fuel_tx::{
        TxId,
        UniqueIdentifier,
    },
    fuel_types::BlockHeight,
    services::{
        block_importer::{
            ImportResult,
            Source,
            UncommittedResult as UncommittedImportResult,
        },
        executor::{
            Event as ExecEvent,
            TransactionExecutionStatus,
        },
    },
};
use simkit::Ctx;
use std::{
    collections::{
        BTreeMap,
        BTreeSet,
    },
    future::Future,
    pin::Pin,
    sync::atomic::Ordering,
    task::Poll,
};
use tokio::sync::broadcast::error::TryRecvError;

pub type Dump = Vec<(u32, Vec<u8>, Vec<u8>)>;

#[derive(Clone, Copy, PartialEq, Eq, Debug)]
pub enum Api {
    Commit,
    Exec,
}

#[derive(Clone)]
pub struct Request {
    pub label: String,
    pub api: Api,
    pub sealed: SealedBlock,
    /// `commit_result` only
    pub source: Source,
    pub tx_status: Vec<TransactionExecutionStatus>,
    pub events: Vec<ExecEvent>,
    /// `commit_result`: the execution changes handed in
    pub changes: Changes,
    /// `execute_and_commit`: raw writes a faulty executor adds to its changes
    pub tamper: Option<Vec<RawWrite>>,
    /// Some(h): the request carries exactly the honest block h with the honest changes
    pub honest_height: Option<u32>,
    /// which kind of write into the accumulator tables the execution changes carry (if any)
    pub acc_kind: Option<&'static str>,
}

#[derive(Clone, Default, Debug)]
pub struct Faults {
    pub validator: bool,
    pub verifier: bool,
    pub publish: bool,
    /// 0 none, 1 commit error before apply, 2 lost acknowledgement
    pub commit: u8,
    pub read_col: Option<Column>,
}

impl Faults {
    pub fn any(&self) -> bool {
        self.validator || self.verifier || self.publish || self.commit != 0 || self.read_col.is_some()
    }
}

pub enum Drive {
    Normal,
    /// poll the call once, then (optionally) run a second call to completion and/or let a
    /// subscriber catch up, then finish or drop the first call
    Concurrent { second: Option<Box<Request>>, drain_sub: bool, finish: bool },
    /// drop the caller's future after `polls` polls
    Cancel { polls: usize },
}

#[derive(Default)]
pub struct Model {
    /// id of the committed block per height; empty = no genesis block yet
    pub committed: Vec<BlockId>,
    pub blocks: BTreeSet<u32>,
    pub consensus: BTreeSet<u32>,
    pub txs: BTreeSet<TxId>,
    /// every commit so far carried the honest block with the honest changes
    pub pure: bool,
    /// a commit was applied but its acknowledgement was lost; the node was not restarted yet
    pub wedged: bool,
}

impl Model {
    pub fn new() -> Model {
        Model { pure: true, ..Default::default() }
    }
    pub fn latest(&self) -> Option<u32> {
        self.blocks.iter().next_back().copied()
    }
}

/// Variant name of the importer's error (never `Debug`-formats the error: with
/// RUST_BACKTRACE set an `anyhow::Error` inside would resolve a backtrace).
pub fn err_name(e: &ImporterError) -> String {
    use ImporterError as E;
    match e {
        E::Semaphore(_) => "Semaphore",
        E::InvalidUnderlyingDatabaseGenesisState => "InvalidUnderlyingDatabaseGenesisState",
        E::InvalidDatabaseStateAfterExecution(..) => "InvalidDatabaseStateAfterExecution",
        E::Overflow => "Overflow",
        E::ZeroNonGenericHeight => "ZeroNonGenericHeight",
        E::IncorrectBlockHeight(..) => "IncorrectBlockHeight",
        E::BlockIdMismatch(..) => "BlockIdMismatch",
        E::FailedVerification(_) => "FailedVerification",
        E::FailedExecution(_) => "FailedExecution",
        E::ExecuteGenesis => "ExecuteGenesis",
        E::NotUnique(_) => "NotUnique",
        E::PreviousBlockProcessingNotFinished => "PreviousBlockProcessingNotFinished",
        E::FailedBlockReconciliationWrite(_) => "FailedBlockReconciliationWrite",
        E::SendCommandToInnerTaskFailed => "SendCommandToInnerTaskFailed",
        E::InnerTaskIsNotRunning => "InnerTaskIsNotRunning",
        E::Storage(_) => "Storage",
        E::UnsupportedConsensusVariant(_) => "UnsupportedConsensusVariant",
        E::ActiveBlockResultsSemaphoreClosed(_) => "ActiveBlockResultsSemaphoreClosed",
        E::RayonTaskWasCanceled => "RayonTaskWasCanceled",
    }
    .to_string()
}

fn key_u32(k: &[u8]) -> Option<u32> {
    let a: [u8; 4] = k.try_into().ok()?;
    Some(u32::from_be_bytes(a))
}

pub fn touches_accumulator(changes: &Changes) -> bool {
    [Column::FuelBlockMerkleData.id(), Column::FuelBlockMerkleMetadata.id()]
        .iter()
        .any(|c| changes.get(c).map(|m| !m.is_empty()).unwrap_or(false))
}

fn raw_touches_accumulator(w: &[RawWrite]) -> bool {
    w.iter()
        .any(|(c, _, _)| *c == Column::FuelBlockMerkleData.id() || *c == Column::FuelBlockMerkleMetadata.id())
}

/// Why the property forbids committing this request in the model's state (empty = permitted).
pub fn forbidden(model: &Model, chain_id: &fuel_core_types::fuel_types::ChainId, req: &Request) -> Vec<&'static str> {
    let mut r = Vec::new();
    let h: u32 = **req.sealed.entity.header().height();
    match &req.sealed.consensus {
        Consensus::Genesis(_) => {
            if req.api == Api::Exec {
                r.push("genesis-via-execute");
            }
            if !model.blocks.is_empty() {
                r.push("genesis-on-non-empty-db");
            }
        }
        Consensus::PoA(_) => {
            if h == 0 {
                r.push("zero-height");
            }
            match model.latest() {
                None => r.push("no-genesis"),
                Some(l) => {
                    if Some(h) != l.checked_add(1) {
                        r.push("not-next-height");
                    }
                }
            }
        }
        _ => r.push("unsupported-consensus"),
    }
    let mut seen = BTreeSet::new();
    let mut exists = model.blocks.contains(&h) || model.consensus.contains(&h);
    for tx in req.sealed.entity.transactions() {
        let id = tx.id(chain_id);
        if model.txs.contains(&id) || !seen.insert(id) {
            exists = true;
        }
    }
    if exists {
        r.push("record-exists");
    }
    let touched = match req.api {
        Api::Commit => touches_accumulator(&req.changes),
        Api::Exec => req.tamper.as_ref().map(|t| raw_touches_accumulator(t)).unwrap_or(false),
    };
    if touched {
        r.push("accumulator-touched");
    }
    r
}

/// Polls `fut` up to `n` times (waiting for a wake-up between polls); None = still pending.
/// Around every poll the importer's worker is held at its next port call, so a command queued
/// by the poll cannot complete before the poll returns: the outcome of "k polls" does not depend
/// on thread timing. When None is returned the worker is still held (release with `set_hold`).
async fn poll_n<T>(
    ctl: &crate::nut::StoreCtl,
    fut: &mut Pin<Box<dyn Future<Output = T> + '_>>,
    n: usize,
) -> Option<T> {
    let mut left = n;
    std::future::poll_fn(|cx| {
        ctl.set_hold(true);
        match fut.as_mut().poll(cx) {
            Poll::Ready(v) => {
                ctl.set_hold(false);
                Poll::Ready(Some(v))
            }
            Poll::Pending => {
                left = left.saturating_sub(1);
                if left == 0 {
                    Poll::Ready(None)
                } else {
                    // let the worker produce the next wake-up
                    ctl.set_hold(false);
                    Poll::Pending
                }
            }
        }
    })
    .await
}

fn call<'a>(
    importer: &'a fuel_core_importer::Importer,
    req: &Request,
) -> Pin<Box<dyn Future<Output = Result<(), ImporterError>> + 'a>> {
    match req.api {
        Api::Commit => {
            let result = ImportResult {
                sealed_block: req.sealed.clone(),
                tx_status: req.tx_status.clone(),
                events: req.events.clone(),
                source: req.source,
            };
            let u = UncommittedImportResult::new(result, req.changes.clone());
            Box::pin(importer.commit_result(u))
        }
        Api::Exec => Box::pin(importer.execute_and_commit(req.sealed.clone())),
    }
}

/// A call that only travels through the importer's command queue: when it returns, every
/// command queued before it has been processed. The block has height 0 and a PoA seal, so it
/// fails in `create_block_changes` and `verify_block_fields` without touching any fault switch.
async fn barrier(nut: &Nut, honest: &Honest) {
    let mut b = honest.genesis.clone();
    b.consensus = Consensus::PoA(Default::default());
    let imp = nut.importer();
    let r = imp.execute_and_commit(b).await;
    assert!(r.is_err(), "harness: the barrier block was imported");
}

fn to_map(d: &Dump) -> BTreeMap<(u32, Vec<u8>), Vec<u8>> {
    d.iter().map(|(c, k, v)| ((*c, k.clone()), v.clone())).collect()
}

fn readable(nut: &Nut, sealed: &SealedBlock) -> Result<(), String> {
    let h = *sealed.entity.header().height();
    let view = nut.on_chain.latest_view().map_err(|e| format!("view: {e}"))?;
    let b = view
        .storage_as_ref::<FuelBlocks>()
        .get(&h)
        .map_err(|e| format!("block read: {e}"))?
        .ok_or_else(|| format!("FuelBlocks[{h}] missing"))?;
    if b.as_ref() != &sealed.entity.compress(&nut.chain_id) {
        return Err(format!("FuelBlocks[{h}] differs from the announced block"));
    }
    let c = view
        .storage_as_ref::<SealedBlockConsensus>()
        .get(&h)
        .map_err(|e| format!("consensus read: {e}"))?
        .ok_or_else(|| format!("SealedBlockConsensus[{h}] missing"))?;
    if c.as_ref() != &sealed.consensus {
        return Err(format!("SealedBlockConsensus[{h}] differs"));
    }
    for tx in sealed.entity.transactions() {
        let id = tx.id(&nut.chain_id);
        let t = view
            .storage_as_ref::<Transactions>()
            .get(&id)
            .map_err(|e| format!("tx read: {e}"))?
            .ok_or_else(|| format!("Transactions[{id}] missing"))?;
        if t.as_ref() != tx {
            return Err(format!("Transactions[{id}] differs"));
        }
    }
    Ok(())
}

/// What a subscriber may rely on when it receives the announcement of `sealed`: the records are
/// readable and the database handle reports at least that height.
fn readable_when_announced(nut: &Nut, sealed: &SealedBlock) -> Result<(), String> {
    readable(nut, sealed)?;
    let h = *sealed.entity.header().height();
    let lh = nut.on_chain.latest_height();
    if lh.map(|x| x < h).unwrap_or(true) {
        return Err(format!("latest height {lh:?} below announced height {h}"));
    }
    Ok(())
}

/// post == pre + execution changes + exactly the records of `sealed` (+ accumulator / metadata
/// bookkeeping)?
fn check_commit_content(
    nut: &Nut,
    pre: &Dump,
    post: &Dump,
    sealed: &SealedBlock,
    exec_changes: &Changes,
) -> Result<(), String> {
    let loose = [
        Column::FuelBlockMerkleData.id(),
        Column::FuelBlockMerkleMetadata.id(),
        Column::Metadata.id(),
    ];
    let mut expected = to_map(pre);
    for (c, ops) in exec_changes {
        for (k, op) in ops {
            let key = (*c, k.to_vec());
            match op {
                WriteOperation::Insert(v) => {
                    expected.insert(key, v.to_vec());
                }
                WriteOperation::Remove => {
                    expected.remove(&key);
                }
            }
        }
    }
    let h: u32 = **sealed.entity.header().height();
    let mut block_keys: BTreeSet<(u32, Vec<u8>)> = BTreeSet::new();
    block_keys.insert((Column::FuelBlocks.id(), h.to_be_bytes().to_vec()));
    block_keys.insert((Column::FuelBlockConsensus.id(), h.to_be_bytes().to_vec()));
    for tx in sealed.entity.transactions() {
        block_keys.insert((Column::Transactions.id(), tx.id(&nut.chain_id).to_vec()));
    }
    let post_m = to_map(post);
    for (k, v) in &post_m {
        if loose.contains(&k.0) || block_keys.contains(k) {
            continue;
        }
        match expected.get(k) {
            Some(e) if e == v => {}
            Some(_) => return Err(format!("column {} key {:02x?}: value is neither the old one nor the executed one", k.0, k.1)),
            None => return Err(format!("column {} key {:02x?}: unexpected entry", k.0, k.1)),
        }
    }
    for k in expected.keys() {
        if loose.contains(&k.0) || block_keys.contains(k) {
            continue;
        }
        if !post_m.contains_key(k) {
            return Err(format!("column {} key {:02x?}: entry missing after the commit", k.0, k.1));
        }
    }
    for k in &block_keys {
        if !post_m.contains_key(k) {
            return Err(format!("column {} key {:02x?}: block record missing", k.0, k.1));
        }
    }
    readable(nut, sealed)
}

fn drain_probe(nut: &Nut) -> (Vec<SealedBlock>, bool) {
    let mut out = Vec::new();
    let mut lagged = false;
    if let Some(rx) = nut.ctl.probe.lock().unwrap().as_mut() {
        loop {
            match rx.try_recv() {
                Ok(r) => out.push(r.shared_result.sealed_block.clone()),
                Err(TryRecvError::Lagged(_)) => lagged = true,
                Err(_) => break,
            }
        }
    }
    (out, lagged)
}

/// Let subscriber `i` read everything that is queued for it.
pub fn drain_sub(ctx: &mut Ctx, nut: &mut Nut, i: usize) {
    loop {
        let r = nut.subs[i].rx.try_recv();
        match r {
            Ok(res) => {
                let res: ImporterResult = res;
                let sealed = res.shared_result.sealed_block.clone();
                let h: u32 = **sealed.entity.header().height();
                let id = sealed.entity.id();
                let idx = nut.subs[i].next;
                let sid = nut.subs[i].id;
                ctx.ev(format!("  sub{sid} received height={h} id={id}"));
                let exp = nut.ann.get(idx).cloned();
                ctx.check("C08", "subscriber-sequence", exp == Some((h, id)), || {
                    format!("subscriber {sid} received height {h} id {id}, the next announced import was {exp:?}")
                });
                let rd = readable_when_announced(nut, &sealed);
                ctx.check("C08", "announced-not-readable", rd.is_ok(), || {
                    format!("subscriber {sid} received height {h} but: {}", rd.clone().unwrap_err())
                });
                nut.subs[i].next = idx + 1;
                if nut.subs[i].mode == 2 {
                    nut.subs[i].held.push((idx, res));
                }
            }
            Err(TryRecvError::Lagged(n)) => {
                let sid = nut.subs[i].id;
                ctx.violate("C08", "subscriber-lagged", format!("subscriber {sid} lost {n} announcements"));
                return;
            }
            Err(_) => break,
        }
    }
    let sid = nut.subs[i].id;
    let (next, total) = (nut.subs[i].next, nut.ann.len());
    ctx.check("C08", "announcement-missing", next == total, || {
        format!("subscriber {sid} has an empty queue after {next} of {total} announcements")
    });
}

pub struct Outcome {
    pub committed: bool,
    /// the node's state left the model (after a recorded finding): end the run
    pub stop: bool,
}

#[allow(clippy::too_many_arguments)]
pub async fn execute(
    ctx: &mut Ctx,
    nut: &mut Nut,
    model: &mut Model,
    honest: &Honest,
    req: &Request,
    faults: &Faults,
    drive: Drive,
) -> Outcome {
    let chain_id = nut.chain_id;
    let h: u32 = **req.sealed.entity.header().height();
    let id = req.sealed.entity.id();
    let drive_s = match &drive {
        Drive::Normal => "normal".to_string(),
        Drive::Concurrent { second, drain_sub, finish } => format!(
            "concurrent second={} drain_sub={drain_sub} finish={finish}",
            second.as_ref().map(|s| s.label.as_str()).unwrap_or("-")
        ),
        Drive::Cancel { polls } => format!("cancel-after-{polls}-polls"),
    };
    ctx.scope("C08");
    ctx.op(format!(
        "{:?} {} height={h} id={id} source={:?} faults={:?} drive={drive_s} latest={:?}",
        req.api,
        req.label,
        req.source,
        faults,
        model.latest()
    ));

    // ---- what the property says about this request ----
    let mut why = forbidden(model, &chain_id, req);
    if req.api == Api::Exec && why.is_empty() {
        if let Err(e) = nut.verifier.inner.block_verifier.verify_block_fields(&req.sealed.consensus, &req.sealed.entity) {
            ctx.ev(format!("  direct verify_block_fields: {e}"));
            why.push("verification-fails");
        } else if let Err(e) = nut.validator.exec.validate(&req.sealed.entity) {
            ctx.ev(format!("  direct validate: {e}"));
            why.push("execution-fails");
        }
    }
    // Would the execution changes write a key that the block's own records are written to? (The
    // store rejects such a change list; the in-memory store does so after applying a part.)
    let conflict_expected = {
        use fuel_core_importer::ports::{
            DatabaseTransaction,
            Transactional,
        };
        let extra: Vec<(u32, Vec<u8>)> = match req.api {
            Api::Commit => req
                .changes
                .iter()
                .flat_map(|(c, ops)| ops.keys().map(|k| (*c, k.to_vec())).collect::<Vec<_>>())
                .collect(),
            Api::Exec => req
                .tamper
                .as_ref()
                .map(|t| t.iter().map(|(c, k, _)| (*c, k.clone())).collect())
                .unwrap_or_default(),
        };
        let mut tx = nut.on_chain.storage_transaction(Changes::default());
        match tx.store_new_block(&chain_id, &req.sealed) {
            Ok(_) => {
                let bc = tx.into_changes();
                extra
                    .iter()
                    .any(|(c, k)| bc.get(c).map(|m| m.keys().any(|x| x.as_slice() == k.as_slice())).unwrap_or(false))
            }
            Err(_) => false,
        }
    };
    let in_use = nut.permits_in_use();
    let permit_ok = in_use < nut.buffer;
    if !permit_ok {
        ctx.probe("no_permit_available");
    }

    // ---- arm the faults (content-addressed: they fire for this block only) ----
    if faults.validator {
        nut.validator.fail.arm(id);
    }
    if faults.verifier {
        nut.verifier.fail.arm(id);
    }
    if faults.publish {
        nut.publish.fail.arm(id);
    }
    if let Some(t) = &req.tamper {
        *nut.validator.tamper.lock().unwrap() = Some((id, t.clone()));
    }
    *nut.validator.last_changes.lock().unwrap() = None;
    nut.ctl.commits.lock().unwrap().clear();
    let pre = dump_on_chain(&nut.on_chain);
    nut.ctl.commit_fault.store(faults.commit, Ordering::SeqCst);
    nut.ctl.commit_fault_fired.store(0, Ordering::SeqCst);
    nut.ctl
        .read_fault_col
        .store(faults.read_col.map(|c| c.id()).unwrap_or(NO_COLUMN), Ordering::SeqCst);
    nut.ctl.read_fault_fired.store(0, Ordering::SeqCst);

    // ---- drive the call ----
    let importer = nut.importer();
    let t0 = tokio::time::Instant::now();
    let mut cancelled = false;
    let result: Option<Result<(), ImporterError>> = match drive {
        Drive::Normal => Some(call(&importer, req).await),
        Drive::Concurrent { second, drain_sub: do_drain, finish } => {
            let mut a = call(&importer, req);
            let ctl = nut.ctl.clone();
            match poll_n(&ctl, &mut a, 1).await {
                Some(r) => Some(r),
                None => {
                    if let Some(b) = second {
                        ctx.ev(format!("  second caller: {:?} {}", b.api, b.label));
                        let rb = call(&importer, &b).await;
                        ctx.ev(format!("  second caller result: {}", rb.as_ref().map(|_| "Ok".to_string()).unwrap_or_else(|e| err_name(e))));
                        ctx.check("C08", "concurrent-call-accepted", rb.is_err(), || {
                            format!("a second {:?} call was accepted while another call was in flight", b.api)
                        });
                        if matches!(rb, Err(ImporterError::Semaphore(_))) {
                            ctx.probe("second_caller_semaphore_error");
                        }
                    }
                    if do_drain && !permit_ok && !nut.subs.is_empty() {
                        // the call waits for a notification permit (nothing is queued at the
                        // importer thread yet): slow subscribers catch up meanwhile
                        for i in 0..nut.subs.len() {
                            nut.subs[i].held.clear();
                            drain_sub(ctx, nut, i);
                        }
                        ctx.ev("  subscribers caught up while the call was waiting for a permit");
                        ctx.probe("permit_released_while_waiting");
                    }
                    if finish {
                        ctl.set_hold(false);
                        Some(a.await)
                    } else {
                        drop(a);
                        ctl.set_hold(false);
                        cancelled = true;
                        None
                    }
                }
            }
        }
        Drive::Cancel { polls } => {
            let mut a = call(&importer, req);
            let ctl = nut.ctl.clone();
            let _ = poll_n(&ctl, &mut a, polls).await;
            drop(a);
            ctl.set_hold(false);
            cancelled = true;
            None
        }
    };
    drop(importer);
    if cancelled {
        barrier(nut, honest).await;
    }
    let waited = t0.elapsed().as_millis() as u64;
    ctx.sim_ms += waited;

    // ---- disarm, see what fired ----
    let f_validator = nut.validator.fail.disarm();
    let f_verifier = nut.verifier.fail.disarm();
    let f_publish = nut.publish.fail.disarm();
    *nut.validator.tamper.lock().unwrap() = None;
    nut.ctl.commit_fault.store(0, Ordering::SeqCst);
    let f_commit = nut.ctl.commit_fault_fired.swap(0, Ordering::SeqCst);
    nut.ctl.read_fault_col.store(NO_COLUMN, Ordering::SeqCst);
    let f_read = nut.ctl.read_fault_fired.swap(0, Ordering::SeqCst) > 0;
    if f_validator {
        ctx.fault("validator_error");
    }
    if f_verifier {
        ctx.fault("verifier_error");
    }
    if f_publish {
        ctx.fault("publish_produced_block_error");
    }
    match f_commit {
        1 => ctx.fault("storage_commit_error_before_apply"),
        2 => ctx.fault("storage_commit_lost_ack"),
        _ => {}
    }
    if f_read {
        ctx.fault("storage_read_error");
    }
    if cancelled {
        ctx.fault("caller_cancelled");
    }
    let injected = f_validator || f_verifier || f_publish || f_commit == 1 || f_read;

    let res_s = match &result {
        None => "cancelled".to_string(),
        Some(Ok(())) => "Ok".to_string(),
        Some(Err(e)) => format!("Err({})", err_name(e)),
    };
    ctx.ev(format!(
        "  -> {res_s} waited={waited}ms fired=[{}{}{}{}{}]",
        if f_validator { "validator " } else { "" },
        if f_verifier { "verifier " } else { "" },
        if f_publish { "publish " } else { "" },
        match f_commit {
            1 => "commit-error ",
            2 => "lost-ack ",
            _ => "",
        },
        if f_read { "read" } else { "" },
    ));
    if matches!(result, Some(Err(ImporterError::PreviousBlockProcessingNotFinished))) {
        ctx.probe("previous_block_processing_not_finished");
    }

    // ---- effect on the database ----
    let post = dump_on_chain(&nut.on_chain);
    let changed = post != pre;
    let exec_changes: Option<Changes> = match req.api {
        Api::Commit => Some(req.changes.clone()),
        Api::Exec => nut
            .validator
            .last_changes
            .lock()
            .unwrap()
            .as_ref()
            .filter(|(b, _)| b == &id)
            .map(|(_, c)| c.clone()),
    };
    let mut committed = false;
    if changed {
        // The in-memory store applies a change list entry by entry and notices a key written by
        // two entries only when it reaches it: which part was applied depends on HashMap order.
        let conflict = match &result {
            Some(Err(err)) => format!("{err}").contains("ConflictingChanges"),
            Some(Ok(())) => false,
            None => conflict_expected,
        };
        if conflict && nut.backend == Backend::Memory {
            ctx.check("C08", "partial-commit:memory-store-conflicting-changes", false, || {
                format!(
                    "after {res_s} of block {h} ({}) the in-memory store kept a part of the rejected change list (block records + execution changes writing the same key)",
                    req.label
                )
            });
            return Outcome { committed: false, stop: true };
        }
        let content = match &exec_changes {
            Some(c) => check_commit_content(nut, &pre, &post, &req.sealed, c),
            None => Err("the database changed although the block was never executed".to_string()),
        };
        match content {
            Ok(()) => committed = true,
            Err(e) => {
                ctx.check("C08", "partial-commit", false, || {
                    format!("after {res_s} the database holds a partial commit of block {h}: {e}")
                });
                // the state is now outside the model
                return Outcome { committed: false, stop: true };
            }
        }
    }
    match &result {
        Some(Ok(())) => {
            ctx.check("C08", "ok-without-commit", committed, || {
                format!("{:?} of block {h} returned Ok but the database did not change", req.api)
            });
        }
        Some(Err(e)) => {
            let allowed = !committed || f_commit == 2;
            ctx.check("C08", "failed-import-changed-db", allowed, || {
                format!("{:?} of block {h} failed with {} but the block was committed", req.api, err_name(e))
            });
            if committed && f_commit == 2 {
                ctx.probe("lost_ack_block_is_in_the_store");
            }
        }
        None => {}
    }
    if committed {
        for w in &why {
            let class = if *w == "accumulator-touched" {
                format!("committed:accumulator-touched:{}", req.acc_kind.unwrap_or("unspecified"))
            } else {
                format!("committed:{w}")
            };
            ctx.check("C08", &class, false, || {
                format!("block {h} ({}) was committed although: {w} (model latest {:?})", req.label, model.latest())
            });
        }
        ctx.check("C08", "committed:despite-injected-failure", !injected, || {
            format!("block {h} was committed although an injected failure fired ({res_s})")
        });
    } else if why.is_empty()
        && !faults.any()
        && req.tamper.is_none()
        && permit_ok
        && !model.wedged
        && model.pure
        && req.honest_height.is_some()
        && !cancelled
    {
        // liveness sanity (not part of the property text): the plain next honest block
        ctx.check("C08", "honest-next-block-rejected", false, || {
            format!("the honest next block {h} was rejected without any fault: {res_s}")
        });
    }

    // ---- announcements ----
    let before: Vec<u32> = nut
        .ctl
        .commits
        .lock()
        .unwrap()
        .iter()
        .flat_map(|c| c.announced_before.clone())
        .collect();
    ctx.check("C08", "announced-before-commit", before.is_empty(), || {
        format!("announcements for heights {before:?} were already queued when the store commit began")
    });
    // after a lost acknowledgement the importer saw an error: it must not announce anything
    let expect_announced = committed && f_commit != 2;
    let (seen, lagged) = drain_probe(nut);
    if nut.use_probe {
        ctx.check("C08", "subscriber-lagged", !lagged, || "the probe subscriber lost announcements".to_string());
        let seen_ids: Vec<(u32, BlockId)> = seen
            .iter()
            .map(|s| (**s.entity.header().height(), s.entity.id()))
            .collect();
        let want: Vec<(u32, BlockId)> = if expect_announced { vec![(h, id)] } else { vec![] };
        ctx.check("C08", "announcement-mismatch", seen_ids == want, || {
            format!("announcements after the call: {seen_ids:?}, expected {want:?} ({res_s}, committed={committed})")
        });
        for s in &seen {
            let rd = readable_when_announced(nut, s);
            ctx.check("C08", "announced-not-readable", rd.is_ok(), || {
                format!("announced block {} is not readable: {}", **s.entity.header().height(), rd.clone().unwrap_err())
            });
        }
    }
    if expect_announced {
        let last = nut.ann.last().map(|l| l.0);
        ctx.check("C08", "announcement-order", last.map(|l| l < h).unwrap_or(true), || {
            format!("height {h} announced after height {last:?}")
        });
        nut.ann.push((h, id));
    }

    // ---- model ----
    if committed {
        while model.committed.len() <= h as usize {
            model.committed.push(BlockId::default());
        }
        model.committed[h as usize] = id;
        model.blocks.insert(h);
        model.consensus.insert(h);
        for tx in req.sealed.entity.transactions() {
            model.txs.insert(tx.id(&chain_id));
        }
        if let Some(c) = &exec_changes {
            // records a (faulty) executor wrote into the block tables
            for (col, ops) in c {
                for (k, op) in ops {
                    let ins = matches!(op, WriteOperation::Insert(_));
                    if *col == Column::FuelBlocks.id() {
                        if let Some(x) = key_u32(k) {
                            if ins { model.blocks.insert(x); } else { model.blocks.remove(&x); }
                        }
                    } else if *col == Column::FuelBlockConsensus.id() {
                        if let Some(x) = key_u32(k) {
                            if ins { model.consensus.insert(x); } else { model.consensus.remove(&x); }
                        }
                    } else if *col == Column::Transactions.id() {
                        if let Ok(a) = <[u8; 32]>::try_from(&k[..]) {
                            let t = TxId::from(a);
                            if ins { model.txs.insert(t); } else { model.txs.remove(&t); }
                        }
                    }
                }
            }
        }
        let honest_commit = req.honest_height == Some(h) && req.tamper.is_none();
        if !honest_commit {
            model.pure = false;
        }
        if f_commit == 2 {
            model.wedged = true;
        }
        if model.pure {
            // (the Metadata column holds a serialized HashSet: its bytes differ between instances)
            let strip = |d: &Dump| -> Dump { d.iter().filter(|(c, _, _)| *c != Column::Metadata.id()).cloned().collect() };
            let p = honest.p_dump.get(h as usize).map(|d| chainkit::node::hash_dump(&strip(d)));
            let mine = chainkit::node::hash_dump(&strip(&post));
            ctx.check("C08", "pure-chain-state-differs-from-producer", p == Some(mine), || {
                let theirs = to_map(&strip(&honest.p_dump[h as usize]));
                let ours = to_map(&strip(&post));
                let mut d = Vec::new();
                for (k, v) in &ours {
                    match theirs.get(k) {
                        None => d.push(format!("only here: column {} key {:02x?}", k.0, k.1)),
                        Some(t) if t != v => d.push(format!("differs: column {} key {:02x?}", k.0, k.1)),
                        _ => {}
                    }
                }
                for k in theirs.keys() {
                    if !ours.contains_key(k) {
                        d.push(format!("only at the producer: column {} key {:02x?}", k.0, k.1));
                    }
                }
                d.truncate(6);
                format!("after the honest blocks 0..={h} the database content differs from the producer's: {}", d.join("; "))
            });
        }
        ctx.probe(match req.api {
            Api::Commit => "committed_via_commit_result",
            Api::Exec => "committed_via_execute_and_commit",
        });
    }
    // the three block tables hold exactly what the model says
    {
        let mut blocks = BTreeSet::new();
        let mut cons = BTreeSet::new();
        let mut txs = BTreeSet::new();
        for (c, k, _) in &post {
            if *c == Column::FuelBlocks.id() {
                blocks.extend(key_u32(k));
            } else if *c == Column::FuelBlockConsensus.id() {
                cons.extend(key_u32(k));
            } else if *c == Column::Transactions.id() {
                if let Ok(a) = <[u8; 32]>::try_from(&k[..]) {
                    txs.insert(TxId::from(a));
                }
            }
        }
        ctx.check(
            "C08",
            "block-tables-differ-from-model",
            blocks == model.blocks && cons == model.consensus && txs == model.txs,
            || {
                format!(
                    "FuelBlocks {:?} / consensus {:?} / {} txs in the store, model has {:?} / {:?} / {} txs",
                    blocks,
                    cons,
                    txs.len(),
                    model.blocks,
                    model.consensus,
                    model.txs.len()
                )
            },
        );
    }

    // ---- subscribers read at their own pace ----
    for i in 0..nut.subs.len() {
        let mode = nut.subs[i].mode;
        let read = match mode {
            0 => true,
            2 => true,
            _ => ctx.tape.chance(1, 4),
        };
        if read {
            drain_sub(ctx, nut, i);
        }
        if mode == 2 && !nut.subs[i].held.is_empty() && ctx.tape.chance(1, 3) {
            nut.subs[i].held.clear();
            let sid = nut.subs[i].id;
            ctx.ev(format!("  sub{sid} released what it held"));
        }
    }

    Outcome { committed, stop: false }
}

pub fn heights_of(v: &[(u32, BlockId)]) -> Vec<u32> {
    v.iter().map(|x| x.0).collect()
}

#[allow(dead_code)]
pub fn as_height(h: u32) -> BlockHeight {
    BlockHeight::from(h)
}
