//! W1 importer — the real `Importer` of a node under test (with the real PoA `Verifier`, the real
//! upgradable `Executor` and a real `Database<OnChain>` over a fault-injecting storage seam) fed
//! by a fault-free honest producer node. Two workloads:
//!
//! * C08: generated sequences of `commit_result` / `execute_and_commit` requests with correct,
//!   duplicate, skipped, stale, foreign and tampered blocks, injected validator / verifier /
//!   reconciliation-port / storage failures, slow and vanishing subscribers, concurrent and
//!   cancelled callers, restarts. Model: the vector of committed blocks.
//! * C15: every honest block is preceded by single mutations of itself (header fields,
//!   transactions, seal, key schedule, wire bits) delivered through the node's acceptance gate
//!   (`verify_consensus`, `Block::try_from_executed`, `execute_and_commit`).

mod c08;
mod c15;
mod chain;
mod engine;
mod nut;
mod refmodel;

use simkit::{
    Ctx,
    Tier,
    World,
};

struct ImporterWorld;

impl World for ImporterWorld {
    fn name(&self) -> &'static str {
        "w1_importer"
    }
    fn properties(&self) -> Vec<&'static str> {
        vec!["C08", "C15"]
    }
    fn real_components(&self) -> Vec<&'static str> {
        vec![
            "fuel_core_importer::Importer (its own thread + rayon pool; commit_result, execute_and_commit, subscribe)",
            "fuel_core PoA Verifier behind VerifierAdapter (verify_block_fields, verify_consensus) with ConsensusConfig::PoA and PoAV2 key schedules",
            "fuel_core_upgradable_executor::Executor (native) + fuel_core_executor + fuel-vm as the importer's Validator and as the honest producer's executor",
            "fuel_core::database::Database<OnChain> (ImporterDatabase / commit_changes_with_height_update) over MemoryStore or HistoricalRocksDB, CombinedDatabase, real genesis import (execute_genesis_block) committed through the importer under test",
            "fuel_core_producer::Producer on the honest node; fuel_core_types Block / BlockHeader (id, validate_transactions, try_from_executed); postcard wire encoding as in the p2p codec",
        ]
    }
    fn stubs(&self) -> Vec<&'static str> {
        vec![
            "storage device below Database<OnChain> (TransactableStorage wrapper: commit error before apply, lost acknowledgement, read errors per column)",
            "block reconciliation write port (publish_produced_block), executor and verifier failure switches (content-addressed by block id)",
            "subscribers of the importer's broadcast channel, callers (sequential, concurrent, cancelled), node restarts",
            "network: the (sealed header, transactions) pair is handed to the gate in process after a postcard round trip; peers, sync service, relayer service and transaction pool are not part of this world",
        ]
    }
    fn default_runs(&self, prop: &str, tier: Tier) -> u64 {
        match (prop, tier) {
            ("C08", Tier::Quick) => 800,
            ("C08", Tier::Thorough) => 15_000,
            (_, Tier::Quick) => 500,
            (_, Tier::Thorough) => 10_000,
        }
    }
    fn nontrivial_min_ops(&self, _prop: &str) -> u64 {
        4
    }
    fn assumptions(&self, prop: &str) -> Vec<String> {
        let mut v = vec![
            "the importer's worker thread is real; every call is driven to completion (or to a chosen number of polls) before the simulation continues, so the trace does not depend on thread timing; faults inside a call are content-addressed (armed for one block id / one column), never 'the n-th access'".to_string(),
            "blocks and transactions come from the chainkit generator (transfers, scripts calling five pre-deployed contracts, creates, message spends), not arbitrary bytecode".to_string(),
        ];
        match prop {
            "C08" => {
                v.push("lost acknowledgement (store applied the commit, reported an error): the call must fail without announcement and the store holds either the old state or exactly the complete commit; the node is then restarted before imports are expected to succeed again".into());
                v.push("'unchanged after a failed import' is checked on the full content of the on-chain database (all columns), 'committed' as old content + execution changes + exactly the block's records; a second concurrent call is expected to fail as documented (Semaphore) and to have no effect".into());
                v.push("the honest-next-block-must-be-accepted clause is a sanity clause (not in the property text) and only applies without faults, tampering, missing permits or earlier non-honest commits".into());
            }
            _ => {
                v.push("the gate mirrors the sync service: check_sealed_header -> Block::try_from_executed -> execute_and_commit; mutants signed with the right key are only generated when they break a stated rule (height zero, previous root, DA height / time below the parent, application hash, transaction root / count) or a field that execution determines (outbox root, receipt count, inbox root, parameter / bytecode versions); a re-rooted block with other transactions signed by the authority itself is not a mutation in transit and is not generated".into());
                v.push("independent references: block id and application hash as SHA-256 over the specified field order, binary Merkle root (RFC 6962 style) of the canonical transaction bytes, key schedule as 'last start <= height'; signature recovery uses fuel-crypto".into());
            }
        }
        v
    }
    fn run(&self, ctx: &mut Ctx) {
        let seed = ctx.tape.choose(u64::MAX);
        // like chainkit::runtime (paused clock, seeded), but with a small blocking pool: the
        // genesis import spawns one blocking task per table
        let mut b = [0u8; 32];
        b[..8].copy_from_slice(&seed.to_le_bytes());
        let rt = tokio::runtime::Builder::new_current_thread()
            .enable_time()
            .start_paused(true)
            .rng_seed(tokio::runtime::RngSeed::from_bytes(&b))
            .max_blocking_threads(2)
            .build()
            .expect("runtime");
        if ctx.prop == "C15" {
            rt.block_on(c15::run(ctx));
        } else {
            rt.block_on(c08::run(ctx));
        }
    }
}

fn main() {
    // fuel-core builds `anyhow` errors on ordinary rejection paths; with RUST_BACKTRACE set every
    // one of them would capture a backtrace. Panic backtraces are not affected by this switch.
    // SAFETY: first statement of the process, no other thread exists yet.
    unsafe { std::env::set_var("RUST_LIB_BACKTRACE", "0") };
    // the global rayon pool (one thread per core by default) is not needed by this world
    if std::env::var_os("RAYON_NUM_THREADS").is_none() {
        unsafe { std::env::set_var("RAYON_NUM_THREADS", "2") };
    }
    simkit::cli::main_world(&ImporterWorld)
}
