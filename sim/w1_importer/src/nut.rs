//! The node under test: real `CombinedDatabase` whose on-chain `Database` sits on a
//! fault-injecting `TransactableStorage`, real upgradable `Executor`, real PoA `Verifier`
//! (`VerifierAdapter`), real `Importer` (its own thread + rayon pool). Simulated: the storage
//! device (commit error before apply / lost acknowledgement / read errors), the reconciliation
//! write port, executor and verifier failures, subscribers, concurrent and cancelled callers.

use crate::chain::Honest;
use chainkit::node::{
    Exec,
    OnChainDb,
};
use fuel_core::{
    combined_database::CombinedDatabase,
    database::{
        Database,
        database_description::on_chain::OnChain,
    },
    service::{
        Config,
        adapters::VerifierAdapter,
        genesis::execute_genesis_block,
    },
    state::{
        IterableKeyValueView,
        KeyValueView,
        TransactableStorage,
        historical_rocksdb::{
            HistoricalRocksDB,
            StateRewindPolicy,
        },
        in_memory::memory_store::MemoryStore,
        rocks_db::DatabaseConfig,
    },
};
use fuel_core_importer::{
    Importer,
    ImporterResult,
    ports::{
        BlockReconciliationWritePort,
        BlockVerifier,
        Validator,
    },
};
use fuel_core_storage::{
    Error as StorageError,
    Result as StorageResult,
    column::Column,
    iter::{
        BoxedIter,
        IntoBoxedIter,
        IterDirection,
        IterableStore,
    },
    kv_store::{
        KVItem,
        KeyItem,
        KeyValueInspect,
        StorageColumn,
        Value,
        WriteOperation,
    },
    transactional::{
        Changes,
        StorageChanges,
    },
};
use fuel_core_types::{
    blockchain::{
        SealedBlock,
        block::Block,
        consensus::Consensus,
        primitives::BlockId,
    },
    fuel_types::BlockHeight,
    services::{
        block_importer::ImportResult,
        executor::{
            Error as ExecutorError,
            Result as ExecutorResult,
            UncommittedValidationResult,
        },
    },
};
use fuel_core_services::StateWatcher;
use std::sync::{
    Arc,
    Mutex,
    atomic::{
        AtomicU8,
        AtomicU32,
        AtomicU64,
        Ordering,
    },
};
use tokio::sync::broadcast;

pub type Disk = Arc<dyn TransactableStorage<BlockHeight, Column = Column>>;

/// (column id, key, Some(value) = insert / None = remove)
pub type RawWrite = (u32, Vec<u8>, Option<Vec<u8>>);

pub fn apply_raw(changes: &mut Changes, writes: &[RawWrite]) {
    for (c, k, v) in writes {
        let op = match v {
            Some(v) => WriteOperation::Insert(Value::from(v.clone())),
            None => WriteOperation::Remove,
        };
        changes.entry(*c).or_default().insert(k.clone().into(), op);
    }
}

// ---------------------------------------------------------------------------------------------
// storage seam

pub const NO_COLUMN: u32 = u32::MAX;

#[derive(Default)]
pub struct CommitObs {
    /// heights of announcements that were already in the probe's queue when the commit began
    pub announced_before: Vec<u32>,
}

pub struct StoreCtl {
    /// 0 none, 1 fail before apply (nothing written), 2 apply, then report an error (lost ack)
    pub commit_fault: AtomicU8,
    pub commit_fault_fired: AtomicU8,
    /// reads (get / iteration) of this column fail while armed
    pub read_fault_col: AtomicU32,
    pub read_fault_fired: AtomicU64,
    pub commits: Mutex<Vec<CommitObs>>,
    pub probe: Mutex<Option<broadcast::Receiver<ImporterResult>>>,
    /// While set, every port call made by a thread other than the simulation thread waits: the
    /// importer's worker cannot finish a command, so "poll the caller once" has one outcome.
    hold: Mutex<bool>,
    hold_cv: std::sync::Condvar,
    sim_thread: std::thread::ThreadId,
}

impl StoreCtl {
    pub fn set_hold(&self, on: bool) {
        *self.hold.lock().unwrap() = on;
        if !on {
            self.hold_cv.notify_all();
        }
    }
    /// Called at the start of every simulated port.
    pub fn pass(&self) {
        if std::thread::current().id() == self.sim_thread {
            return;
        }
        let mut g = self.hold.lock().unwrap();
        while *g {
            g = self.hold_cv.wait(g).unwrap();
        }
    }
}

impl Default for StoreCtl {
    fn default() -> Self {
        StoreCtl {
            commit_fault: AtomicU8::new(0),
            commit_fault_fired: AtomicU8::new(0),
            read_fault_col: AtomicU32::new(NO_COLUMN),
            read_fault_fired: AtomicU64::new(0),
            commits: Mutex::new(Vec::new()),
            probe: Mutex::new(None),
            hold: Mutex::new(false),
            hold_cv: std::sync::Condvar::new(),
            sim_thread: std::thread::current().id(),
        }
    }
}

#[derive(Debug)]
struct FaultyStore {
    inner: Disk,
    ctl: Arc<StoreCtl>,
}

impl std::fmt::Debug for StoreCtl {
    fn fmt(&self, f: &mut std::fmt::Formatter<'_>) -> std::fmt::Result {
        f.write_str("StoreCtl")
    }
}

impl FaultyStore {
    fn read_fails(&self, column: Column) -> bool {
        if self.ctl.read_fault_col.load(Ordering::SeqCst) == column.id() {
            self.ctl.read_fault_fired.fetch_add(1, Ordering::SeqCst);
            true
        } else {
            false
        }
    }
}

fn injected_read() -> StorageError {
    StorageError::Other(anyhow::anyhow!("injected read error"))
}

impl KeyValueInspect for FaultyStore {
    type Column = Column;
    fn get(&self, key: &[u8], column: Column) -> StorageResult<Option<Value>> {
        self.ctl.pass();
        if self.read_fails(column) {
            return Err(injected_read());
        }
        self.inner.get(key, column)
    }
}

impl IterableStore for FaultyStore {
    fn iter_store(
        &self,
        column: Column,
        prefix: Option<&[u8]>,
        start: Option<&[u8]>,
        direction: IterDirection,
    ) -> BoxedIter<'_, KVItem> {
        self.ctl.pass();
        if self.read_fails(column) {
            return std::iter::once(Err(injected_read())).into_boxed();
        }
        self.inner.iter_store(column, prefix, start, direction)
    }
    fn iter_store_keys(
        &self,
        column: Column,
        prefix: Option<&[u8]>,
        start: Option<&[u8]>,
        direction: IterDirection,
    ) -> BoxedIter<'_, KeyItem> {
        self.ctl.pass();
        if self.read_fails(column) {
            return std::iter::once(Err(injected_read())).into_boxed();
        }
        self.inner.iter_store_keys(column, prefix, start, direction)
    }
}

impl TransactableStorage<BlockHeight> for FaultyStore {
    fn commit_changes(&self, height: Option<BlockHeight>, changes: StorageChanges) -> StorageResult<()> {
        self.ctl.pass();
        let _ = &height;
        // what the subscribers' channel already holds at the moment the commit begins
        let mut obs = CommitObs { announced_before: vec![] };
        if let Some(rx) = self.ctl.probe.lock().unwrap().as_mut() {
            while let Ok(r) = rx.try_recv() {
                obs.announced_before.push(**r.shared_result.sealed_block.entity.header().height());
            }
        }
        self.ctl.commits.lock().unwrap().push(obs);
        match self.ctl.commit_fault.swap(0, Ordering::SeqCst) {
            1 => {
                self.ctl.commit_fault_fired.store(1, Ordering::SeqCst);
                Err(StorageError::Other(anyhow::anyhow!("injected commit error (nothing written)")))
            }
            2 => {
                self.inner.commit_changes(height, changes)?;
                self.ctl.commit_fault_fired.store(2, Ordering::SeqCst);
                Err(StorageError::Other(anyhow::anyhow!("injected commit error (lost ack)")))
            }
            _ => self.inner.commit_changes(height, changes),
        }
    }
    fn view_at_height(&self, height: &BlockHeight) -> StorageResult<KeyValueView<Column, BlockHeight>> {
        self.inner.view_at_height(height)
    }
    fn latest_view(&self) -> StorageResult<IterableKeyValueView<Column, BlockHeight>> {
        self.inner.latest_view()
    }
    fn rollback_block_to(&self, height: &BlockHeight) -> StorageResult<()> {
        self.inner.rollback_block_to(height)
    }
}

// ---------------------------------------------------------------------------------------------
// ports with switchable, content-addressed faults (a fault is armed for one block id)

#[derive(Default)]
pub struct Armed {
    pub block: Mutex<Option<BlockId>>,
    pub fired: AtomicU64,
}

impl Armed {
    pub fn arm(&self, id: BlockId) {
        *self.block.lock().unwrap() = Some(id);
    }
    pub fn disarm(&self) -> bool {
        *self.block.lock().unwrap() = None;
        self.fired.swap(0, Ordering::SeqCst) > 0
    }
    fn fires(&self, id: &BlockId) -> bool {
        let mut g = self.block.lock().unwrap();
        if g.as_ref() == Some(id) {
            *g = None;
            self.fired.fetch_add(1, Ordering::SeqCst);
            true
        } else {
            false
        }
    }
}

#[derive(Clone)]
pub struct NutValidator {
    pub ctl: Arc<StoreCtl>,
    pub exec: Arc<Exec>,
    pub fail: Arc<Armed>,
    /// raw writes merged into the execution changes of one block (a faulty executor)
    pub tamper: Arc<Mutex<Option<(BlockId, Vec<RawWrite>)>>>,
    /// the changes handed to the importer by the last validation
    pub last_changes: Arc<Mutex<Option<(BlockId, Changes)>>>,
    pub calls: Arc<AtomicU64>,
}

impl Validator for NutValidator {
    fn validate(&self, block: &Block) -> ExecutorResult<UncommittedValidationResult<Changes>> {
        self.ctl.pass();
        self.calls.fetch_add(1, Ordering::SeqCst);
        let id = block.id();
        if self.fail.fires(&id) {
            return Err(ExecutorError::Other("injected validator failure".into()));
        }
        let r = self.exec.validate(block)?;
        let (res, mut changes) = r.into();
        let mut t = self.tamper.lock().unwrap();
        if t.as_ref().map(|(b, _)| b == &id).unwrap_or(false) {
            let (_, writes) = t.take().unwrap();
            apply_raw(&mut changes, &writes);
        }
        *self.last_changes.lock().unwrap() = Some((id, changes.clone()));
        Ok(UncommittedValidationResult::new(res, changes))
    }
}

#[derive(Clone)]
pub struct FaultyVerifier {
    pub ctl: Arc<StoreCtl>,
    pub inner: VerifierAdapter,
    pub fail: Arc<Armed>,
}

impl BlockVerifier for FaultyVerifier {
    fn verify_block_fields(&self, consensus: &Consensus, block: &Block) -> anyhow::Result<()> {
        self.ctl.pass();
        if self.fail.fires(&block.id()) {
            anyhow::bail!("injected verifier failure");
        }
        self.inner.block_verifier.verify_block_fields(consensus, block)
    }
}

#[derive(Clone)]
pub struct FaultyPublish {
    pub ctl: Arc<StoreCtl>,
    pub fail: Arc<Armed>,
    /// heights for which `publish_produced_block` was called
    pub calls: Arc<Mutex<Vec<u32>>>,
}

impl BlockReconciliationWritePort for FaultyPublish {
    fn publish_produced_block(&self, block: &SealedBlock) -> anyhow::Result<()> {
        self.ctl.pass();
        self.calls.lock().unwrap().push(**block.entity.header().height());
        if self.fail.fires(&block.entity.id()) {
            anyhow::bail!("injected reconciliation write failure");
        }
        Ok(())
    }
}

// ---------------------------------------------------------------------------------------------
// subscribers

pub struct Sub {
    pub id: usize,
    pub rx: broadcast::Receiver<ImporterResult>,
    /// index into `Nut::ann` of the first announcement this subscriber can see / has not read
    pub next: usize,
    /// 0 prompt, 1 lazy (reads when the tape says), 2 holds what it read for a while
    pub mode: u8,
    pub held: Vec<(usize, ImporterResult)>,
}

// ---------------------------------------------------------------------------------------------

#[derive(Clone, Copy, PartialEq, Eq, Debug)]
pub enum Backend {
    Memory,
    Rocks,
}

pub struct Nut {
    pub backend: Backend,
    pub disk: Disk,
    pub _dir: Option<tempfile::TempDir>,
    pub ctl: Arc<StoreCtl>,
    pub db: CombinedDatabase,
    pub on_chain: OnChainDb,
    pub importer: Option<Arc<Importer>>,
    pub validator: NutValidator,
    pub verifier: FaultyVerifier,
    pub publish: FaultyPublish,
    pub buffer: usize,
    pub use_probe: bool,
    pub subs: Vec<Sub>,
    pub next_sub_id: usize,
    /// successful imports announced by the current importer instance, in order
    pub ann: Vec<(u32, BlockId)>,
    pub chain_id: fuel_core_types::fuel_types::ChainId,
    pub genesis_import: Option<(ImportResult, Changes)>,
}

fn exec_config() -> fuel_core_upgradable_executor::config::Config {
    fuel_core_upgradable_executor::config::Config {
        forbid_fake_coins_default: true,
        allow_syscall: true,
        native_executor_version: None,
        allow_historical_execution: true,
    }
}

fn open_on_chain(disk: &Disk, ctl: &Arc<StoreCtl>) -> OnChainDb {
    Database::<OnChain>::new(Arc::new(FaultyStore { inner: disk.clone(), ctl: ctl.clone() }))
}

struct Parts {
    importer: Importer,
    validator: NutValidator,
    verifier: FaultyVerifier,
    publish: FaultyPublish,
}

impl Parts {
    /// Build every in-memory component over the durable store.
    fn build(
        honest: &Honest,
        db: &CombinedDatabase,
        on_chain: &OnChainDb,
        ctl: &Arc<StoreCtl>,
        buffer: usize,
        use_probe: bool,
    ) -> Parts {
        let chain_id = honest.spec.params.chain_id();
        let exec = Exec::native(on_chain.clone(), db.relayer().clone(), exec_config());
        let validator = NutValidator {
            ctl: ctl.clone(),
            exec: Arc::new(exec),
            fail: Default::default(),
            tamper: Default::default(),
            last_changes: Default::default(),
            calls: Default::default(),
        };
        let verifier = FaultyVerifier {
            ctl: ctl.clone(),
            inner: VerifierAdapter::new(
                &honest.genesis.entity.compress(&chain_id),
                honest.spec.chain_config.consensus.clone(),
                on_chain.clone(),
            ),
            fail: Default::default(),
        };
        let publish = FaultyPublish { ctl: ctl.clone(), fail: Default::default(), calls: Default::default() };
        let importer = Importer::new(
            chain_id,
            fuel_core_importer::Config { max_block_notify_buffer: buffer, metrics: false },
            on_chain.clone(),
            validator.clone(),
            verifier.clone(),
            publish.clone(),
        );
        *ctl.probe.lock().unwrap() = if use_probe { Some(importer.subscribe()) } else { None };
        Parts { importer, validator, verifier, publish }
    }
}

impl Nut {
    /// A node whose store holds the imported genesis *state* but no genesis block yet: the
    /// genesis block is committed later through the node's own importer (`commit_result`).
    pub async fn new(honest: &Honest, backend: Backend, rewind: bool, buffer: usize, use_probe: bool) -> Nut {
        let (disk, dir): (Disk, Option<tempfile::TempDir>) = match backend {
            Backend::Memory => (Arc::new(MemoryStore::<OnChain>::default()), None),
            Backend::Rocks => {
                let dir = tempfile::tempdir().expect("harness: tempdir");
                let policy = if rewind { StateRewindPolicy::RewindFullRange } else { StateRewindPolicy::NoRewind };
                let db = HistoricalRocksDB::<OnChain>::default_open(dir.path(), policy, DatabaseConfig::config_for_tests())
                    .expect("harness: open rocksdb");
                (Arc::new(db), Some(dir))
            }
        };
        let ctl = Arc::new(StoreCtl::default());
        let on_chain = open_on_chain(&disk, &ctl);
        let db = CombinedDatabase::new(
            on_chain.clone(),
            Database::in_memory(),
            Database::in_memory(),
            Database::in_memory(),
            Database::in_memory(),
        );
        crate::chain::write_da_events(db.relayer(), &honest.da_events);
        let config = Config::local_node_with_configs(honest.spec.chain_config.clone(), honest.spec.state.clone());
        let result = execute_genesis_block(StateWatcher::default(), &config, &db)
            .await
            .unwrap_or_else(|e| panic!("harness: genesis import failed: {e:?}"));
        let (import, changes) = result.into();
        let chain_id = honest.spec.params.chain_id();
        let parts = Parts::build(honest, &db, &on_chain, &ctl, buffer, use_probe);
        Nut {
            backend,
            disk,
            _dir: dir,
            ctl,
            db,
            on_chain,
            importer: Some(Arc::new(parts.importer)),
            validator: parts.validator,
            verifier: parts.verifier,
            publish: parts.publish,
            buffer,
            use_probe,
            subs: vec![],
            next_sub_id: 0,
            ann: vec![],
            chain_id,
            genesis_import: Some((import, changes)),
        }
    }

    /// Crash/restart: all in-memory objects are dropped, only the store survives.
    pub fn restart(&mut self, honest: &Honest) {
        self.subs.clear();
        *self.ctl.probe.lock().unwrap() = None;
        self.importer = None; // joins the importer thread
        self.on_chain = open_on_chain(&self.disk, &self.ctl);
        self.db = CombinedDatabase::new(
            self.on_chain.clone(),
            self.db.off_chain().clone(),
            self.db.relayer().clone(),
            self.db.gas_price().clone(),
            self.db.compression().clone(),
        );
        let parts = Parts::build(honest, &self.db, &self.on_chain, &self.ctl, self.buffer, self.use_probe);
        self.importer = Some(Arc::new(parts.importer));
        self.validator = parts.validator;
        self.verifier = parts.verifier;
        self.publish = parts.publish;
        self.ann.clear();
    }

    pub fn importer(&self) -> Arc<Importer> {
        self.importer.as_ref().expect("importer").clone()
    }

    pub fn subscribe(&mut self, mode: u8) -> usize {
        let id = self.next_sub_id;
        self.next_sub_id += 1;
        let rx = self.importer().subscribe();
        self.subs.push(Sub { id, rx, next: self.ann.len(), mode, held: vec![] });
        id
    }

    /// Number of announced results that are still referenced by some subscriber (unread in its
    /// queue, or read and held): each holds one permit of the importer's back-pressure semaphore.
    pub fn permits_in_use(&self) -> usize {
        let mut alive = std::collections::BTreeSet::new();
        for s in &self.subs {
            for i in s.next..self.ann.len() {
                alive.insert(i);
            }
            for (i, _) in &s.held {
                alive.insert(*i);
            }
        }
        alive.len()
    }
}
