//! Oracles of the chain world. Every function states in its comment which clause of which
//! property it evaluates; nothing here is stricter than the property text.

use crate::{
    Sim,
    ports::{
        Prod,
        SimRelayer,
    },
};
use chainkit::{
    ledger::Tables,
    node::{
        Node,
        SimSource,
        dump_on_chain,
        hash_dump,
    },
    txgen::{
        Expect,
        GenTx,
    },
};
use fuel_core_executor::executor::OnceTransactionsSource;
use fuel_core_storage::{
    StorageAsRef,
    column::Column,
    kv_store::{
        StorageColumn,
        WriteOperation,
    },
    tables::ContractsState,
    transactional::{
        AtomicView,
        Changes,
    },
};
use fuel_core_types::{
    blockchain::{
        SealedBlock,
        block::{
            Block,
            PartialFuelBlock,
        },
        header::PartialBlockHeader,
        primitives::DaBlockHeight,
    },
    entities::relayer::{
        message::{
            Message,
            MessageV1,
        },
        transaction::{
            RelayedTransaction,
            RelayedTransactionV1,
        },
    },
    fuel_merkle::binary::root_calculator::MerkleRootCalculator,
    fuel_tx::{
        Address,
        Bytes32,
        ContractId,
        Input,
        Receipt,
        Transaction,
        TxPointer,
        UniqueIdentifier,
        field::{
            InputContract,
            MintAmount,
            MintAssetId,
            MintGasPrice,
            TxPointer as TxPointerField,
        },
    },
    fuel_types::{
        BlockHeight,
        Nonce,
        canonical::Serialize,
    },
    services::{
        block_producer::Components,
        executor::{
            Event as ExecEvent,
            ExecutionResult,
            TransactionExecutionResult,
            TransactionExecutionStatus,
        },
        relayer::Event as DaEvent,
    },
    tai64::Tai64,
};
use simkit::Ctx;
use std::collections::{
    BTreeMap,
    BTreeSet,
};

type FlatChanges = Vec<(u32, Vec<u8>, Option<Vec<u8>>)>;

pub fn canon_changes(c: &Changes) -> FlatChanges {
    let mut out = Vec::new();
    for (col, ops) in c {
        for (k, op) in ops {
            let k: Vec<u8> = k.clone().into();
            out.push((
                *col,
                k,
                match op {
                    WriteOperation::Insert(v) => Some(v.to_vec()),
                    WriteOperation::Remove => None,
                },
            ));
        }
    }
    out.sort();
    out
}

fn status_sig(s: &TransactionExecutionStatus) -> String {
    match &s.result {
        TransactionExecutionResult::Success { result, receipts, total_gas, total_fee } => {
            format!("{} OK {result:?} gas={total_gas} fee={total_fee} receipts={receipts:?}", s.id)
        }
        TransactionExecutionResult::Failed { result, receipts, total_gas, total_fee } => {
            format!("{} FAIL {result:?} gas={total_gas} fee={total_fee} receipts={receipts:?}", s.id)
        }
    }
}

fn events_sig(ev: &[ExecEvent]) -> Vec<String> {
    ev.iter().map(|e| format!("{e:?}")).collect()
}

fn first_diff(a: &FlatChanges, b: &FlatChanges) -> String {
    let sa: BTreeSet<_> = a.iter().collect();
    let sb: BTreeSet<_> = b.iter().collect();
    let only_a: Vec<_> = sa.difference(&sb).take(3).collect();
    let only_b: Vec<_> = sb.difference(&sa).take(3).collect();
    format!(
        "only in production: {:?}; only in validation: {:?}",
        only_a.iter().map(|x| (x.0, hex(&x.1))).collect::<Vec<_>>(),
        only_b.iter().map(|x| (x.0, hex(&x.1))).collect::<Vec<_>>()
    )
}

pub fn hex(b: &[u8]) -> String {
    b.iter().map(|x| format!("{x:02x}")).collect()
}

/// C01: the produced block validates against the same parent with identical changes, statuses
/// and events; validating twice gives identical results.
pub fn c01_validate_matches(ctx: &mut Ctx, p: &Node, result: &ExecutionResult, changes: &Changes) {
    ctx.scope("C01");
    let v1 = p.exec.validate_block(&result.block);
    let v2 = p.exec.validate_block(&result.block);
    match (v1, v2) {
        (Ok(a), Ok(b)) => {
            let (ra, ca) = a.into();
            let (rb, cb) = b.into();
            let prod = canon_changes(changes);
            let va = canon_changes(&ca);
            let vb = canon_changes(&cb);
            ctx.check("C01", "validation-changes-differ", prod == va, || {
                format!("storage changes of production and validation differ: {}", first_diff(&prod, &va))
            });
            let ps: Vec<String> = result.tx_status.iter().map(status_sig).collect();
            let vs: Vec<String> = ra.tx_status.iter().map(status_sig).collect();
            ctx.check("C01", "validation-statuses-differ", ps == vs, || {
                format!("tx statuses differ: production {ps:?} validation {vs:?}")
            });
            ctx.check("C01", "validation-events-differ", events_sig(&result.events) == events_sig(&ra.events), || {
                format!("events differ: production {:?} validation {:?}", result.events, ra.events)
            });
            let vs2: Vec<String> = rb.tx_status.iter().map(status_sig).collect();
            ctx.check(
                "C01",
                "validation-not-repeatable",
                va == vb && vs == vs2 && events_sig(&ra.events) == events_sig(&rb.events),
                || "validating the same block twice gave different results".to_string(),
            );
        }
        (a, b) => {
            ctx.check("C01", "produced-block-rejected-by-validation", false, || {
                format!(
                    "the executor rejected its own block {}: first {:?}, second {:?}",
                    result.block.id(),
                    a.err().map(|e| e.to_string()),
                    b.err().map(|e| e.to_string())
                )
            });
        }
    }
}

fn metered_size(t: &Transaction) -> u64 {
    use fuel_core_types::fuel_tx::Chargeable;
    (match t {
        Transaction::Script(t) => t.metered_bytes_size(),
        Transaction::Create(t) => t.metered_bytes_size(),
        Transaction::Upgrade(t) => t.metered_bytes_size(),
        Transaction::Upload(t) => t.metered_bytes_size(),
        Transaction::Blob(t) => t.metered_bytes_size(),
        Transaction::Mint(_) => 0,
    }) as u64
}

fn total_fee(s: &TransactionExecutionStatus) -> u64 {
    match &s.result {
        TransactionExecutionResult::Success { total_fee, .. } | TransactionExecutionResult::Failed { total_fee, .. } => *total_fee,
    }
}
fn total_gas(s: &TransactionExecutionStatus) -> u64 {
    match &s.result {
        TransactionExecutionResult::Success { total_gas, .. } | TransactionExecutionResult::Failed { total_gas, .. } => *total_gas,
    }
}
fn is_success(s: &TransactionExecutionStatus) -> bool {
    matches!(s.result, TransactionExecutionResult::Success { .. })
}

/// C03: exactly one mint, last, with the right pointer / price / amount; block totals within the
/// consensus limits even though the source ignores the limits it is given.
pub fn c03_mint_and_limits(ctx: &mut Ctx, sim: &Sim, _p: &Node, result: &ExecutionResult, source: &SimSource) {
    let txs = result.block.transactions();
    let n = txs.len();
    let mints: Vec<usize> = txs.iter().enumerate().filter(|(_, t)| t.is_mint()).map(|(i, _)| i).collect();
    ctx.check("C03", "mint-not-single-last", mints == vec![n.saturating_sub(1)] && n > 0, || {
        format!("mint positions {mints:?} in a block of {n} transactions")
    });
    if ctx.failed() {
        return;
    }
    let Transaction::Mint(mint) = &txs[n - 1] else { return };
    let height = *result.block.header().height();
    ctx.check(
        "C03",
        "mint-pointer-wrong",
        *mint.tx_pointer() == TxPointer::new(height, (n - 1) as u16),
        || format!("mint tx pointer {:?}, expected ({height}, {})", mint.tx_pointer(), n - 1),
    );
    ctx.check("C03", "mint-gas-price-wrong", *mint.gas_price() == sim.spec.gas_price, || {
        format!("mint gas price {} != block gas price {}", mint.gas_price(), sim.spec.gas_price)
    });
    let fees: u64 = result.tx_status.iter().take(n - 1).map(total_fee).sum();
    let expected_amount = if sim.spec.coinbase_recipient.is_some() { fees } else { 0 };
    ctx.check("C03", "mint-amount-wrong", *mint.mint_amount() == expected_amount, || {
        format!(
            "mint amount {} != sum of charged fees {} (recipient set: {})",
            mint.mint_amount(),
            fees,
            sim.spec.coinbase_recipient.is_some()
        )
    });
    ctx.check("C03", "mint-asset-wrong", mint.mint_asset_id() == sim.spec.params.base_asset_id(), || {
        "mint asset is not the base asset".to_string()
    });
    ctx.check(
        "C03",
        "mint-recipient-wrong",
        mint.input_contract().contract_id == sim.spec.coinbase_recipient.unwrap_or(ContractId::zeroed()),
        || format!("mint recipient {}", mint.input_contract().contract_id),
    );
    if fees > 0 {
        ctx.probe("nonzero_fees");
    }
    // limits
    let gas: u64 = result.tx_status.iter().map(total_gas).sum();
    if gas.saturating_mul(2) >= sim.spec.params.block_gas_limit() {
        ctx.probe("block_used_gas_at_least_half_of_limit");
    }
    ctx.check("C03", "block-gas-limit-exceeded", gas <= sim.spec.params.block_gas_limit(), || {
        format!("total gas used {gas} > block gas limit {}", sim.spec.params.block_gas_limit())
    });
    // the consensus limit is on the metered size (what the executor and the fee rules use)
    let size: u64 = txs.iter().take(n - 1).map(metered_size).sum();
    ctx.check(
        "C03",
        "block-size-limit-exceeded",
        size <= sim.spec.params.block_transaction_size_limit(),
        || format!("total transaction size {size} > limit {}", sim.spec.params.block_transaction_size_limit()),
    );
    ctx.check("C03", "block-tx-count-exceeded", n <= u16::MAX as usize, || format!("{n} transactions"));
    let asked = source.inner.lock().unwrap().asked.clone();
    if asked.len() > 1 {
        ctx.probe("source_asked_several_times");
    }
    if !result.skipped_transactions.is_empty() {
        ctx.probe("some_transactions_skipped");
    }
}

/// Sanity of the generator's expectations (not a property by itself, but a skipped
/// transaction that the generator knows to be valid, or an included one known to be invalid,
/// shows up here under C04's "skip reasons" / C19-like clauses). Only certain cases are checked.
pub fn expectations(ctx: &mut Ctx, sim: &Sim, cands: &[GenTx], result: &ExecutionResult) {
    let chain_id = sim.spec.params.chain_id();
    let included: BTreeMap<_, _> = result
        .block
        .transactions()
        .iter()
        .zip(result.tx_status.iter())
        .map(|(t, s)| (t.id(&chain_id), is_success(s)))
        .collect();
    let mut seen = BTreeSet::new();
    for c in cands {
        let id = c.tx.id(&chain_id);
        let first = seen.insert(id);
        match (&c.expect, included.get(&id)) {
            (Expect::Success, Some(true)) => ctx.probe("included_success"),
            (Expect::Failure, Some(false)) => {
                if c.desc.starts_with("gas-burner") {
                    ctx.probe("gas_burner_executed");
                }
                ctx.probe("included_failure")
            }
            (Expect::Skipped, None) => ctx.probe("skipped_as_expected"),
            (Expect::Skipped, Some(_)) if first && !sim.executed_ids.contains(&id) => {
                // an invalid / expired / double-spending transaction was executed
                let class = if c.desc.starts_with("expired") || c.desc.starts_with("immature") {
                    "C04:expired-or-immature-executed"
                } else {
                    "C02:invalid-input-executed"
                };
                let (prop, class) = class.split_once(':').unwrap();
                ctx.check(prop, class, false, || format!("'{}' was executed although it must be skipped", c.desc));
            }
            (Expect::Failure, Some(true)) => {
                ctx.check("C04", "reverting-script-succeeded", false, || {
                    format!("'{}' has status success although its script reverts or panics", c.desc)
                });
            }
            (Expect::Success, Some(false)) => ctx.probe("expected_success_but_failed(info)"),
            (Expect::Success, None) | (Expect::Failure, None) => ctx.probe("valid_tx_skipped(info:limits)"),
            _ => {}
        }
    }
}

fn sww_state(p_db: &chainkit::node::OnChainDb, contract: &ContractId, key: u64) -> Option<Vec<u8>> {
    let mut k = [0u8; 32];
    k[..8].copy_from_slice(&key.to_be_bytes());
    let view = p_db.latest_view().expect("view");
    view.storage_as_ref::<ContractsState>()
        .get(&(contract, &Bytes32::from(k)).into())
        .expect("state read")
        .map(|v| v.as_ref().as_ref().to_vec())
}

/// C04: reverted transactions leave contract state / balances unchanged and produce no outbox
/// messages but pay a fee; skipped transactions change nothing at all.
pub fn c04_skipped_and_reverted(
    ctx: &mut Ctx,
    sim: &Sim,
    p: &Node,
    _cands: &[GenTx],
    result: &ExecutionResult,
    changes: &Changes,
    _parent_dump: &[(u32, Vec<u8>, Vec<u8>)],
) {
    let txs = result.block.transactions();
    let n = txs.len();
    let any_success = result.tx_status.iter().take(n.saturating_sub(1)).any(is_success);
    let flat = canon_changes(changes);
    if !any_success {
        // (a) no successful transaction: no contract state, code or (non-coinbase) balance changes
        let coinbase = sim.spec.coinbase_recipient.unwrap_or_default();
        for (col, key, _) in &flat {
            let is_state = *col == Column::ContractsState.id()
                || *col == Column::ContractsRawCode.id()
                || *col == Column::ContractsStateMerkleData.id();
            let is_balance = *col == Column::ContractsAssets.id();
            let bad = is_state || (is_balance && !key.starts_with(coinbase.as_ref()));
            ctx.check("C04", "failed-tx-changed-contract-tables", !bad, || {
                format!("block without successful transactions changed column {col} key {}", hex(key))
            });
            if bad {
                return;
            }
        }
        // (b) no outbox messages
        let outbox = result.block.header().message_receipt_count();
        ctx.check("C04", "failed-tx-produced-outbox-message", outbox == 0, || {
            format!("block without successful transactions has {outbox} outbox messages")
        });
        if n > 1 {
            ctx.probe("block_with_only_failed_txs");
        }
    }
    // (c) failed transactions pay their fee when the gas price is non-zero
    for s in result.tx_status.iter().take(n.saturating_sub(1)) {
        if !is_success(s) {
            ctx.probe("failed_tx_in_block");
            if sim.spec.gas_price > 0 && sim.spec.params.fee_params().gas_price_factor() <= 10 {
                ctx.check("C04", "failed-tx-paid-no-fee", total_fee(s) > 0, || {
                    format!("failed transaction {} paid no fee at gas price {}", s.id, sim.spec.gas_price)
                });
            }
            // receipts of a failed tx never contain a MessageOut that ends up in the header
        }
    }
    // outbox count equals MessageOut receipts of successful transactions only
    let ok_msgs: usize = result
        .tx_status
        .iter()
        .filter(|s| is_success(s))
        .map(|s| match &s.result {
            TransactionExecutionResult::Success { receipts, .. } => {
                receipts.iter().filter(|r| matches!(r, Receipt::MessageOut { .. })).count()
            }
            _ => 0,
        })
        .sum();
    ctx.check(
        "C04",
        "outbox-count-mismatch",
        result.block.header().message_receipt_count() as usize == ok_msgs,
        || {
            format!(
                "header counts {} outbox messages, successful transactions produced {ok_msgs}",
                result.block.header().message_receipt_count()
            )
        },
    );
    if ok_msgs > 0 {
        ctx.probe("outbox_message_produced");
    }
    // (d) a block whose candidates were all skipped equals the empty block
    if n == 1 && !result.skipped_transactions.is_empty() {
        ctx.scope("C04");
        let header = partial_header(&result.block);
        let comp = Components {
            header_to_produce: header,
            transactions_source: OnceTransactionsSource::new(vec![]),
            coinbase_recipient: sim.spec.coinbase_recipient.unwrap_or_default(),
            gas_price: sim.spec.gas_price,
        };
        match p.exec.produce_once(comp) {
            Ok(empty) => {
                let (er, ec) = empty.into();
                let a = canon_changes(&ec);
                ctx.check("C04", "skipped-tx-changed-state", a == flat && er.block.id() == result.block.id(), || {
                    format!("block with only skipped transactions differs from the empty block: {}", first_diff(&flat, &a))
                });
                ctx.probe("all_candidates_skipped");
            }
            Err(e) => {
                ctx.check("C04", "empty-block-failed", false, || e.to_string());
            }
        }
    }
    let _ = sww_state;
}

pub fn partial_header(block: &Block) -> PartialBlockHeader {
    let pb: PartialFuelBlock = block.clone().into();
    pb.header
}

/// C02: UTXO conservation and exact events, from table scans before/after the commit.
pub fn c02_utxo(
    ctx: &mut Ctx,
    sim: &mut Sim,
    block: &Block,
    statuses: &[TransactionExecutionStatus],
    events: &[ExecEvent],
    before: &Tables,
    after: &Tables,
) {
    let mut spent_in_block: BTreeSet<fuel_core_types::fuel_tx::UtxoId> = BTreeSet::new();
    let mut msgs_in_block: BTreeSet<Nonce> = BTreeSet::new();
    // coins created by events in this block (to allow intra-block chains)
    let created_ev: BTreeMap<_, _> = events
        .iter()
        .filter_map(|e| match e {
            ExecEvent::CoinCreated(c) => Some((c.utxo_id, c.clone())),
            _ => None,
        })
        .collect();
    for (tx, st) in block.transactions().iter().zip(statuses.iter()) {
        if tx.is_mint() {
            continue;
        }
        let inputs: Vec<Input> = match tx {
            Transaction::Script(t) => fuel_core_types::fuel_tx::field::Inputs::inputs(t).clone(),
            Transaction::Create(t) => fuel_core_types::fuel_tx::field::Inputs::inputs(t).clone(),
            Transaction::Upgrade(t) => fuel_core_types::fuel_tx::field::Inputs::inputs(t).clone(),
            Transaction::Upload(t) => fuel_core_types::fuel_tx::field::Inputs::inputs(t).clone(),
            Transaction::Blob(t) => fuel_core_types::fuel_tx::field::Inputs::inputs(t).clone(),
            Transaction::Mint(_) => vec![],
        };
        for i in &inputs {
            if let Some(utxo) = i.utxo_id().filter(|_| i.is_coin()) {
                let existed = before.coins.contains_key(utxo) || created_ev.contains_key(utxo);
                ctx.check("C02", "spent-coin-did-not-exist", existed, || {
                    format!("tx {} spends coin {utxo} which was not unspent before", st.id)
                });
                ctx.check("C02", "coin-spent-twice", spent_in_block.insert(*utxo) && !sim.ever_spent_coins.contains(utxo), || {
                    format!("coin {utxo} spent twice (tx {})", st.id)
                });
                ctx.check("C02", "spent-coin-still-unspent", !after.coins.contains_key(utxo), || {
                    format!("coin {utxo} spent by tx {} is still in the coins table", st.id)
                });
            }
            if let Some(nonce) = i.nonce() {
                let with_data = i.input_data().map(|d| !d.is_empty()).unwrap_or(false);
                ctx.check("C02", "spent-message-did-not-exist", before.messages.contains_key(nonce), || {
                    format!("tx {} spends message {nonce} which was not unspent before", st.id)
                });
                let consumed = is_success(st) || !with_data;
                if consumed {
                    ctx.check(
                        "C02",
                        "message-spent-twice",
                        msgs_in_block.insert(*nonce) && !sim.ever_spent_msgs.contains(nonce),
                        || format!("message {nonce} spent twice (tx {})", st.id),
                    );
                    ctx.check("C02", "spent-message-still-unspent", !after.messages.contains_key(nonce), || {
                        format!("message {nonce} consumed by tx {} is still spendable", st.id)
                    });
                } else {
                    ctx.probe("retryable_message_survived_failed_tx");
                    ctx.check("C04", "retryable-message-consumed-by-failed-tx", after.messages.contains_key(nonce), || {
                        format!("retryable message {nonce} is gone although tx {} failed", st.id)
                    });
                }
            }
        }
    }
    // created coins: non-zero amount, fresh id
    for (id, c) in after.coins.iter() {
        if !before.coins.contains_key(id) {
            ctx.check("C02", "created-coin-zero-amount", c.amount > 0, || format!("coin {id} created with amount 0"));
            ctx.check("C02", "created-coin-id-reused", sim.ever_created_coins.insert(*id), || {
                format!("coin id {id} was created before")
            });
        }
    }
    // events == table difference (net of coins created and consumed inside the block)
    let mut net_coins: BTreeMap<fuel_core_types::fuel_tx::UtxoId, i32> = BTreeMap::new();
    let mut net_msgs: BTreeMap<Nonce, i32> = BTreeMap::new();
    for e in events {
        match e {
            ExecEvent::CoinCreated(c) => *net_coins.entry(c.utxo_id).or_default() += 1,
            ExecEvent::CoinConsumed(c) => *net_coins.entry(c.utxo_id).or_default() -= 1,
            ExecEvent::MessageImported(m) => *net_msgs.entry(*m.nonce()).or_default() += 1,
            ExecEvent::MessageConsumed(m) => *net_msgs.entry(*m.nonce()).or_default() -= 1,
            ExecEvent::ForcedTransactionFailed { .. } => {}
        }
    }
    let mut ids: BTreeSet<_> = before.coins.keys().chain(after.coins.keys()).copied().collect();
    ids.extend(net_coins.keys().copied());
    for id in ids {
        let table = after.coins.contains_key(&id) as i32 - before.coins.contains_key(&id) as i32;
        let ev = net_coins.get(&id).copied().unwrap_or(0);
        ctx.check("C02", "coin-events-differ-from-table-diff", table == ev, || {
            format!("coin {id}: table difference {table}, events net {ev}")
        });
        if table != ev {
            return;
        }
    }
    let mut ns: BTreeSet<_> = before.messages.keys().chain(after.messages.keys()).copied().collect();
    ns.extend(net_msgs.keys().copied());
    for n in ns {
        let table = after.messages.contains_key(&n) as i32 - before.messages.contains_key(&n) as i32;
        let ev = net_msgs.get(&n).copied().unwrap_or(0);
        ctx.check("C02", "message-events-differ-from-table-diff", table == ev, || {
            format!("message {n}: table difference {table}, events net {ev}")
        });
        if table != ev {
            return;
        }
    }
    // created event payloads match the stored coins
    for e in events {
        if let ExecEvent::CoinCreated(c) = e {
            if let Some(stored) = after.coins.get(&c.utxo_id) {
                ctx.check(
                    "C02",
                    "coin-event-payload-differs",
                    stored.owner == c.owner && stored.amount == c.amount && stored.asset == c.asset_id,
                    || format!("CoinCreated event for {} disagrees with the stored coin", c.utxo_id),
                );
            }
        }
    }
    sim.ever_spent_coins.extend(spent_in_block);
    sim.ever_spent_msgs.extend(msgs_in_block);
}

/// C06: a transaction id is executed at most once in the chain's history.
pub fn c06_ids(ctx: &mut Ctx, sim: &mut Sim, p: &Node, block: &Block) {
    let chain_id = sim.spec.params.chain_id();
    for tx in block.transactions() {
        let id = tx.id(&chain_id);
        ctx.check("C06", "tx-id-executed-twice", sim.executed_ids.insert(id), || {
            format!("transaction id {id} executed again in block {}", block.header().height())
        });
    }
    let processed = chainkit::ledger::processed_ids(p.db.on_chain());
    ctx.check("C06", "processed-table-incomplete", sim.executed_ids.iter().all(|i| processed.contains(i)), || {
        "an executed transaction id is missing from the processed-transactions table".to_string()
    });
}

/// Byzantine producer: variants of the honest block that violate the mint rules (C03) or
/// re-execute a processed id (C06), re-rooted so that only the executor's own checks can
/// reject them. Evaluated with `validate` on the validator's parent state (nothing committed).
pub fn byzantine_variants(
    ctx: &mut Ctx,
    sim: &Sim,
    v: &Node,
    sealed: &SealedBlock,
    statuses: &[TransactionExecutionStatus],
) {
    if !ctx.tape.chance(1, 3) {
        return;
    }
    let block = &sealed.entity;
    let txs = block.transactions().to_vec();
    let n = txs.len();
    let Some(Transaction::Mint(mint)) = txs.last().cloned() else { return };
    let variant = ctx.tape.below(7);
    let mut new_txs = txs.clone();
    let (prop, class, what): (&str, &str, String) = match variant {
        0 => {
            let mut m = mint.clone();
            *fuel_core_types::fuel_tx::field::MintAmount::mint_amount_mut(&mut m) = mint.mint_amount().wrapping_add(1 + ctx.tape.choose(5));
            new_txs[n - 1] = Transaction::Mint(m);
            ("C03", "bad-mint-amount-accepted", "mint amount changed".into())
        }
        1 => {
            // In validation the block gas price IS the mint's gas price (validators have no
            // other source for it), so a different price is only detectable through the fees
            // it implies: expect a rejection only when some transaction paid a fee.
            let fees: u64 = statuses.iter().take(n - 1).map(total_fee).sum();
            if fees == 0 {
                return;
            }
            let mut m = mint.clone();
            *fuel_core_types::fuel_tx::field::MintGasPrice::gas_price_mut(&mut m) = mint.gas_price().saturating_mul(3).saturating_add(7);
            new_txs[n - 1] = Transaction::Mint(m);
            ("C03", "bad-mint-gas-price-accepted", "mint gas price changed while transactions paid fees".into())
        }
        2 => {
            let mut m = mint.clone();
            *TxPointerField::tx_pointer_mut(&mut m) = TxPointer::new(*block.header().height(), (n as u16).wrapping_add(ctx.tape.choose(3) as u16));
            new_txs[n - 1] = Transaction::Mint(m);
            ("C03", "bad-mint-pointer-accepted", "mint tx pointer index changed".into())
        }
        3 => {
            // mint not last: swap with the previous transaction
            if n < 2 {
                return;
            }
            new_txs.swap(n - 1, n - 2);
            ("C03", "mint-not-last-accepted", "mint moved before the last transaction".into())
        }
        4 => {
            new_txs.push(Transaction::Mint(mint.clone()));
            ("C06", "duplicate-mint-accepted", "mint duplicated".into())
        }
        5 => {
            new_txs.pop();
            ("C03", "block-without-mint-accepted", "mint removed".into())
        }
        _ => {
            // include an already processed transaction id
            let Some(old) = sim.gen_state.executed.first().cloned() else { return };
            new_txs.insert(n - 1, old);
            ("C06", "processed-tx-id-accepted", "an already executed transaction inserted".into())
        }
    };
    // re-root the block so that header/tx-root consistency cannot be what rejects it
    let partial = PartialFuelBlock::new(partial_header(block), new_txs);
    let tampered = match Block::new(
        partial.header,
        partial.transactions,
        &[],
        block.header().event_inbox_root(),
    ) {
        Ok(b) => b,
        Err(_) => return,
    };
    ctx.scope(prop);
    ctx.fault("byzantine_block");
    ctx.ev(format!("  byzantine variant for {}: {what}", v.name));
    let r = v.exec.validate_block(&tampered);
    ctx.check(prop, class, r.is_err(), || format!("validation accepted a block with {what}"));
}

// ------------------------------------------------------------------------------------------
// DA layer

/// Advance the simulated DA layer before a block: new DA heights with events are written to the
/// relayer database of every node; the finalized height the producer's relayer port reports may
/// lag behind, jump, or move while the producer is waiting.
pub fn da_step(ctx: &mut Ctx, sim: &mut Sim, p: &Node, validators: &[Node], relayer: &SimRelayer) {
    use fuel_core_relayer::ports::RelayerDb;
    let advance = match ctx.tape.weighted(&[5, 3, 2]) {
        0 => 0,
        1 => 1,
        _ => 2 + ctx.tape.choose(3),
    };
    let synthetic_profile = ctx.prop == "C30" && ctx.tape.chance(2, 3);
    let mut st = relayer.st.lock().unwrap();
    let start = sim_da_tip(&st, p);
    for h in start + 1..=start + advance {
        let mut events: Vec<DaEvent> = Vec::new();
        if synthetic_profile {
            // cost profile only (C30): no events in the relayer database for this height
            let block_limit = sim.spec.params.block_gas_limit();
            let cost = match ctx.tape.choose(4) {
                0 => 0,
                1 => block_limit / 3,
                2 => block_limit,
                _ => block_limit + 1 + ctx.tape.choose(10),
            };
            // transaction counts around the per-block limit (u16::MAX - 1 relayed + mint),
            // alone and as sums (40_000 + 25_534 = 65_534)
            let txs = match ctx.tape.choose(9) {
                0 => u16::MAX as u64,
                1 => u16::MAX as u64 - 1,
                2 => u16::MAX as u64 - 2,
                3 => 40_000,
                4 => 25_534,
                5 => 25_535,
                _ => ctx.tape.choose(5),
            };
            st.synthetic.insert(h, (cost, txs));
        } else {
            let n = ctx.tape.small(3);
            for i in 0..n {
                let mut nonce = [0u8; 32];
                nonce[..8].copy_from_slice(&h.to_be_bytes());
                nonce[8] = i as u8;
                nonce[31] = 0xDA;
                if ctx.tape.chance(2, 3) {
                    let w = &sim.spec.wallets[ctx.tape.below(sim.spec.wallets.len())];
                    events.push(DaEvent::Message(Message::V1(MessageV1 {
                        sender: Address::from([0x77; 32]),
                        recipient: w.address,
                        nonce: Nonce::from(nonce),
                        amount: 1_000_000 + ctx.tape.choose(1000),
                        data: if ctx.tape.coin() { vec![] } else { vec![9, 9, i as u8] },
                        da_height: DaBlockHeight(h),
                    })));
                } else {
                    // forced transaction: garbage bytes, a mint, or an under-claimed max gas
                    let payload = match ctx.tape.choose(3) {
                        0 => vec![0xFF; 5 + ctx.tape.below(20)],
                        1 => Transaction::default_test_tx().to_bytes(),
                        _ => vec![],
                    };
                    events.push(DaEvent::Transaction(RelayedTransaction::V1(RelayedTransactionV1 {
                        nonce: Nonce::from(nonce),
                        max_gas: ctx.tape.choose(1000),
                        serialized_transaction: payload,
                        da_height: DaBlockHeight(h),
                    })));
                }
            }
        }
        for node in std::iter::once(p).chain(validators.iter()) {
            let mut db = node.db.relayer().clone();
            db.insert_events(&DaBlockHeight(h), &events).expect("harness: relayer insert");
        }
        sim.da_history.insert(h, events);
        st.da_tip = Some(h);
    }
    // what the port reports
    let tip = sim_da_tip(&st, p);
    st.finalized = match ctx.tape.weighted(&[6, 2]) {
        0 => tip,
        _ => st.finalized.max(tip.saturating_sub(ctx.tape.choose(2))),
    };
    st.bump_during_wait = if ctx.tape.chance(1, 5) { Some(tip) } else { None };
    if ctx.prop == "C30" || ctx.prop == "C05" {
        st.fail_next_wait = ctx.tape.chance(1, 12);
        st.fail_next_cost = ctx.tape.chance(1, 12);
    }
    st.cost_queries.clear();
    st.last_answer = None;
    if advance > 0 {
        ctx.ev(format!("  da advance +{advance} tip={tip} reported={} synthetic={synthetic_profile}", st.finalized));
    }
}

fn sim_da_tip(st: &crate::ports::RelayerState, _p: &Node) -> u64 {
    st.da_tip.unwrap_or(0)
}

/// C30: expected DA height of the produced block = largest fitting prefix.
pub fn c30_da_height(ctx: &mut Ctx, p: &Node, result: &ExecutionResult, relayer: &SimRelayer) {
    let prev = parent_da_height(p, result);
    let got = result.block.header().da_height().0;
    let st = relayer.st.lock().unwrap();
    let Some(finalized) = st.last_answer else { return };
    drop(st);
    let expected = reference_da_height(p, relayer, prev, finalized);
    match expected {
        Some(e) => {
            ctx.check("C30", "da-height-not-largest-fitting-prefix", got == e, || {
                format!("block DA height {got}, reference {e} (parent {prev}, finalized {finalized})")
            });
        }
        None => {
            ctx.check("C30", "produced-although-da-does-not-fit", false, || {
                format!("a block was produced with DA height {got} although not even DA height {} fits (parent {prev}, finalized {finalized})", prev + 1)
            });
        }
    }
    ctx.check("C30", "da-height-out-of-range", got >= prev && got <= finalized.max(prev), || {
        format!("DA height {got} outside [{prev}, {finalized}]")
    });
    if got > prev + 1 {
        ctx.probe("da_multi_height_jump");
    }
    if got == prev {
        ctx.probe("da_height_unchanged");
    }
}

fn parent_da_height(p: &Node, result: &ExecutionResult) -> u64 {
    let h = *result.block.header().height();
    let view = p.db.on_chain().latest_view().expect("view");
    use fuel_core_storage::tables::FuelBlocks;
    let parent = view
        .storage_as_ref::<FuelBlocks>()
        .get(&h.pred().expect("height > 0"))
        .expect("block read")
        .expect("parent block");
    parent.header().da_height().0
}

/// None = production must fail (finalized > prev but even prev+1 does not fit).
fn reference_da_height(p: &Node, relayer: &SimRelayer, prev: u64, finalized: u64) -> Option<u64> {
    if finalized <= prev {
        return Some(prev);
    }
    let gas_limit = p.spec.params.block_gas_limit();
    let tx_limit = (u16::MAX - 1) as u64;
    let mut best = prev;
    let mut cost = 0u64;
    let mut txs = 0u64;
    for h in prev + 1..=finalized {
        let (c, t) = relayer.cost_of(h);
        cost = cost.saturating_add(c);
        txs = txs.saturating_add(t);
        if cost > gas_limit || txs > tx_limit {
            break;
        }
        best = h;
    }
    if best == prev { None } else { Some(best) }
}

/// A production attempt failed: it must be for an allowed reason.
pub fn production_failed(ctx: &mut Ctx, _sim: &mut Sim, p: &Node, relayer: &SimRelayer, e: &anyhow::Error) {
    let msg = format!("{e:#}");
    if msg.contains("injected relayer failure") {
        ctx.fault("relayer_port_error");
        return;
    }
    if msg.contains("No new da_height found") {
        // allowed exactly when the reference says nothing fits
        let st = relayer.st.lock().unwrap();
        let finalized = st.last_answer.unwrap_or(0);
        drop(st);
        let view = p.db.on_chain().latest_view().expect("view");
        let prev = view.latest_block().map(|b| b.header().da_height().0).unwrap_or(0);
        let r = reference_da_height(p, relayer, prev, finalized);
        ctx.check("C30", "production-failed-although-da-fits", r.is_none(), || {
            format!("production failed with '{msg}' although DA height {r:?} fits (parent {prev}, finalized {finalized})")
        });
        ctx.probe("production_failed_da_does_not_fit");
        return;
    }
    ctx.check("C01", "production-failed", false, || format!("block production failed: {msg}"));
}

/// C05: exactly the relayer events of (parent DA, block DA] are imported, in order, once;
/// forced transactions are executed or reported as failed; the inbox root is the Merkle root
/// of exactly those events.
pub fn c05_da_events(ctx: &mut Ctx, sim: &Sim, p: &Node, result: &ExecutionResult, _relayer: &SimRelayer) {
    let prev = parent_da_height(p, result);
    let got = result.block.header().da_height().0;
    let mut expected: Vec<DaEvent> = Vec::new();
    for h in prev + 1..=got {
        if let Some(ev) = sim.da_history.get(&h) {
            expected.extend(ev.iter().cloned());
        }
    }
    let mut calc = MerkleRootCalculator::new();
    for e in &expected {
        calc.push(e.hash().as_ref());
    }
    let root: Bytes32 = calc.root().into();
    ctx.check("C05", "inbox-root-wrong", result.block.header().event_inbox_root() == root, || {
        format!(
            "event inbox root {} != Merkle root over the {} events of DA heights {}..={got}",
            result.block.header().event_inbox_root(),
            expected.len(),
            prev + 1
        )
    });
    let want_msgs: Vec<Nonce> = expected
        .iter()
        .filter_map(|e| match e {
            DaEvent::Message(m) => Some(*m.nonce()),
            _ => None,
        })
        .collect();
    let got_msgs: Vec<Nonce> = result
        .events
        .iter()
        .filter_map(|e| match e {
            ExecEvent::MessageImported(m) => Some(*m.nonce()),
            _ => None,
        })
        .collect();
    ctx.check("C05", "imported-messages-differ", want_msgs == got_msgs, || {
        format!("imported messages {got_msgs:?}, relayer history says {want_msgs:?}")
    });
    for n in &got_msgs {
        ctx.check("C05", "message-imported-twice", !sim.ever_imported_msgs.contains(n), || {
            format!("message {n} imported a second time")
        });
    }
    // forced transactions: executed or reported
    let chain_id = sim.spec.params.chain_id();
    let included: BTreeSet<_> = result.block.transactions().iter().map(|t| t.id(&chain_id)).collect();
    let failed: BTreeSet<_> = result
        .events
        .iter()
        .filter_map(|e| match e {
            ExecEvent::ForcedTransactionFailed { id, .. } => Some(id.clone()),
            _ => None,
        })
        .collect();
    for e in &expected {
        if let DaEvent::Transaction(t) = e {
            let rid = t.id();
            let executed = {
                use fuel_core_types::fuel_types::canonical::Deserialize;
                Transaction::from_bytes(t.serialized_transaction())
                    .ok()
                    .map(|tx| included.contains(&tx.id(&chain_id)))
                    .unwrap_or(false)
            };
            ctx.check("C05", "forced-tx-neither-executed-nor-reported", executed || failed.contains(&rid), || {
                format!("forced transaction {rid:?} was neither executed nor reported as failed")
            });
            ctx.probe("forced_tx_seen");
        }
    }
    if !expected.is_empty() {
        ctx.probe("da_events_imported");
    }
}

pub fn after_commit_da(sim: &mut Sim, result_events: &[ExecEvent]) {
    for e in result_events {
        if let ExecEvent::MessageImported(m) = e {
            sim.ever_imported_msgs.insert(*m.nonce());
        }
    }
}

/// C45: dry runs leave the databases unchanged and are repeatable on an unchanged chain.
/// The same inputs/outputs/limits with the script replaced by `asm::script_log_block_time`,
/// re-signed by the wallets that own the inputs.
fn time_reading_variant(spec: &chainkit::spec::ChainSpec, g: &GenTx) -> Option<Transaction> {
    script_variant(spec, g, chainkit::asm::script_log_block_time(), None)
}

/// The same transaction with a script that burns its whole gas limit (status: failed, used
/// gas = everything the transaction may use): gives the block gas limit something to limit.
pub fn gas_burner_variant(spec: &chainkit::spec::ChainSpec, g: &GenTx) -> Option<Transaction> {
    // three quarters of what one transaction may use at most: two of them exceed the smallest
    // block gas limit the specs have
    let limit = spec.params.tx_params().max_gas_per_tx() / 4 * 3;
    script_variant(spec, g, chainkit::asm::script_burn_all_gas(), Some(limit))
}

fn script_variant(
    spec: &chainkit::spec::ChainSpec,
    g: &GenTx,
    script: Vec<u8>,
    gas_limit: Option<u64>,
) -> Option<Transaction> {
    use fuel_core_types::fuel_tx::{
        Signable,
        field::{
            Script as _,
            ScriptData as _,
        },
    };
    let Transaction::Script(mut s) = g.tx.clone() else {
        return None;
    };
    *s.script_mut() = script;
    if let Some(l) = gas_limit {
        use fuel_core_types::fuel_tx::field::ScriptGasLimit as _;
        *s.script_gas_limit_mut() = l;
    }
    *s.script_data_mut() = Vec::new();
    let chain_id = spec.params.chain_id();
    // the builder cached the id of the original script: recompute before and after signing
    use fuel_core_types::fuel_tx::Cacheable;
    s.precompute(&chain_id).ok()?;
    for w in &spec.wallets {
        s.sign_inputs(&w.secret, &chain_id);
    }
    s.precompute(&chain_id).ok()?;
    Some(s.into())
}

pub async fn c45_dry_runs(ctx: &mut Ctx, sim: &mut Sim, p: &Node, producer: &Prod) {
    let n = if ctx.prop == "C45" { 1 + ctx.tape.below(3) } else { ctx.tape.below(2) };
    for _ in 0..n {
        let tables = chainkit::ledger::scan(p.db.on_chain());
        let mut st = chainkit::txgen::GenState::default();
        st.executed = sim.gen_state.executed.clone();
        let height = p.height() + 1;
        let mut txs = Vec::new();
        for _ in 0..1 + ctx.tape.below(2) {
            if let Some(g) = chainkit::txgen::gen_tx(ctx, &sim.spec, &tables, &mut st, height) {
                if g.tx.is_script() {
                    txs.push(g);
                }
            }
        }
        if txs.is_empty() {
            continue;
        }
        let at = if p.height() > 0 && ctx.tape.chance(1, 4) {
            Some(BlockHeight::from(1 + ctx.tape.choose(p.height() as u64) as u32))
        } else {
            None
        };
        let utxo_validation = match ctx.tape.choose(3) {
            0 => None,
            1 => Some(true),
            _ => Some(false),
        };
        let record = ctx.tape.chance(1, 3);
        let gas_price = if ctx.tape.coin() { None } else { Some(ctx.tape.choose(3)) };
        // Time-dependent request: one script is replaced by a script that logs the time of the
        // block it runs in, and the node derives the simulated time itself (`time: None`, as
        // the GraphQL dryRun/assembleTx paths do). The node's wall clock (simulated) is put
        // before, at or after the latest block's time and moves between the two repeats: the
        // chain is unchanged, so the answer must not.
        let time_arg = if ctx.tape.chance(1, 2) {
            if ctx.tape.coin() {
                if let Some(t) = time_reading_variant(&sim.spec, &txs[0]) {
                    txs[0].desc = format!("log-block-time variant of [{}]", txs[0].desc);
                    txs[0].tx = t;
                    ctx.probe("dry_run_time_reading_script");
                }
            }
            ctx.probe("dry_run_time_derived_by_node");
            None
        } else {
            Some(Tai64::from_unix(sim.time as i64))
        };
        const SKEW_S: [i64; 7] = [-3600, -5, -1, 0, 1, 5, 3600];
        let skew = SKEW_S[ctx.tape.below(SKEW_S.len())];
        let wall_step_s = [0i64, 1, 2, 60][ctx.tape.below(4)];
        let wall0 = (sim.time as i64 + skew).max(1);
        simkit::clock::set_unix_ms(wall0 * 1000);
        if skew < 0 {
            ctx.probe("dry_run_wall_clock_behind_latest_block");
        }
        ctx.scope("C45");
        ctx.op(format!(
            "dry_run {:?} at={at:?} utxo_validation={utxo_validation:?} record_reads={record} time={} wall_clock=block{skew:+}s repeat_after={wall_step_s}s",
            txs.iter().map(|t| t.desc.clone()).collect::<Vec<_>>(),
            if time_arg.is_some() { "explicit" } else { "derived" },
        ));
        let before_on = hash_dump(&dump_on_chain(p.db.on_chain()));
        let raw: Vec<Transaction> = txs.iter().map(|t| t.tx.clone()).collect();
        let r1 = producer.dry_run(raw.clone(), at, time_arg, utxo_validation, gas_price, record).await;
        let mid_on = hash_dump(&dump_on_chain(p.db.on_chain()));
        simkit::clock::set_unix_ms((wall0 + wall_step_s) * 1000);
        let r2 = producer.dry_run(raw, at, time_arg, utxo_validation, gas_price, record).await;
        let after_on = hash_dump(&dump_on_chain(p.db.on_chain()));
        ctx.check("C45", "dry-run-changed-on-chain-state", before_on == mid_on && mid_on == after_on, || {
            "the on-chain database changed during a dry run".to_string()
        });
        let sig = |r: &anyhow::Result<fuel_core_types::services::executor::DryRunResult>| match r {
            Ok(d) => format!(
                "ok {:?} reads={}",
                d.transactions.iter().map(|(_, s)| status_sig(s)).collect::<Vec<_>>(),
                d.storage_reads.len()
            ),
            Err(e) => format!("err {e:#}"),
        };
        ctx.ev(format!("  -> {}", &sig(&r1).chars().take(160).collect::<String>()));
        ctx.check("C45", "dry-run-not-repeatable", sig(&r1) == sig(&r2), || {
            format!("the same dry run on an unchanged chain answered differently: {} vs {}", sig(&r1), sig(&r2))
        });
        if r1.is_ok() {
            ctx.probe("dry_run_ok");
        } else {
            ctx.probe("dry_run_err");
        }
    }
}
