//! Simulated ports of the real `Producer`.

use chainkit::{
    node::{
        ExecPort,
        Node,
        OnChainDb,
        RelayerDb,
        SimSource,
    },
    spec::ChainSpec,
};
use fuel_core_executor::ports::RelayerPort;
use fuel_core_producer::{
    Config as ProducerConfig,
    Producer,
    block_producer::gas_price::{
        ChainStateInfoProvider,
        GasPriceProvider,
    },
    ports::{
        Relayer,
        RelayerBlockInfo,
        TxPool,
    },
};
use fuel_core_storage::transactional::AtomicView;
use fuel_core_types::{
    blockchain::{
        header::ConsensusParametersVersion,
        primitives::DaBlockHeight,
    },
    fuel_tx::ConsensusParameters,
    fuel_types::BlockHeight,
};
use std::{
    collections::BTreeMap,
    sync::{
        Arc,
        Mutex,
    },
};

#[derive(Clone, Default)]
pub struct SimTxPool {
    pub next: Arc<Mutex<Option<SimSource>>>,
    pub asked: Arc<Mutex<Vec<(u64, u32)>>>,
}

impl SimTxPool {
    pub fn set(&self, s: SimSource) {
        *self.next.lock().unwrap() = Some(s);
    }
}

impl TxPool for SimTxPool {
    type TxSource = SimSource;
    async fn get_source(&self, gas_price: u64, block_height: BlockHeight) -> anyhow::Result<SimSource> {
        self.asked.lock().unwrap().push((gas_price, *block_height));
        Ok(self.next.lock().unwrap().take().unwrap_or_default())
    }
}

#[derive(Clone)]
pub struct SimGas(pub u64);
impl GasPriceProvider for SimGas {
    fn production_gas_price(&self) -> anyhow::Result<u64> {
        Ok(self.0)
    }
    fn dry_run_gas_price(&self) -> anyhow::Result<u64> {
        Ok(self.0)
    }
}

#[derive(Clone)]
pub struct SimChainState(pub Arc<ConsensusParameters>);
impl ChainStateInfoProvider for SimChainState {
    fn consensus_params_at_version(
        &self,
        _version: &ConsensusParametersVersion,
    ) -> anyhow::Result<Arc<ConsensusParameters>> {
        Ok(self.0.clone())
    }
}

pub struct RelayerState {
    /// finalized DA height the relayer reports
    pub finalized: u64,
    /// if set, the finalized height moves to this value while the producer is awaiting the port
    pub bump_during_wait: Option<u64>,
    /// the finalized height that the last `wait_for_at_least_height` call returned
    pub last_answer: Option<u64>,
    /// synthetic (gas cost, tx count) per DA height; heights not listed are computed from the
    /// relayer database exactly like fuel-core's own adapter does
    pub synthetic: BTreeMap<u64, (u64, u64)>,
    pub fail_next_wait: bool,
    pub fail_next_cost: bool,
    pub cost_queries: Vec<u64>,
    /// highest DA height the harness has written events (or a synthetic profile) for
    pub da_tip: Option<u64>,
}

#[derive(Clone)]
pub struct SimRelayer {
    pub db: RelayerDb,
    pub st: Arc<Mutex<RelayerState>>,
}

impl SimRelayer {
    pub fn new(db: RelayerDb) -> Self {
        SimRelayer {
            db,
            st: Arc::new(Mutex::new(RelayerState {
                finalized: 0,
                bump_during_wait: None,
                last_answer: None,
                synthetic: BTreeMap::new(),
                fail_next_wait: false,
                fail_next_cost: false,
                cost_queries: vec![],
                da_tip: None,
            })),
        }
    }
    pub fn cost_of(&self, h: u64) -> (u64, u64) {
        if let Some(c) = self.st.lock().unwrap().synthetic.get(&h) {
            return *c;
        }
        let view = self.db.latest_view().expect("relayer view");
        let events = view.get_events(&DaBlockHeight(h)).unwrap_or_default();
        let mut gas = 0u64;
        let mut txs = 0u64;
        for e in events {
            gas = gas.saturating_add(e.cost());
            if matches!(e, fuel_core_types::services::relayer::Event::Transaction(_)) {
                txs += 1;
            }
        }
        (gas, txs)
    }
}

#[async_trait::async_trait]
impl Relayer for SimRelayer {
    async fn wait_for_at_least_height(&self, height: &DaBlockHeight) -> anyhow::Result<DaBlockHeight> {
        // the port call takes virtual time; the DA layer may finalize more meanwhile
        tokio::time::sleep(std::time::Duration::from_millis(5)).await;
        let mut st = self.st.lock().unwrap();
        if st.fail_next_wait {
            st.fail_next_wait = false;
            return Err(anyhow::anyhow!("injected relayer failure"));
        }
        if let Some(b) = st.bump_during_wait.take() {
            st.finalized = st.finalized.max(b);
        }
        let answer = st.finalized.max(height.0);
        st.last_answer = Some(answer);
        Ok(DaBlockHeight(answer))
    }

    async fn get_cost_and_transactions_number_for_block(
        &self,
        height: &DaBlockHeight,
    ) -> anyhow::Result<RelayerBlockInfo> {
        tokio::time::sleep(std::time::Duration::from_millis(1)).await;
        {
            let mut st = self.st.lock().unwrap();
            st.cost_queries.push(height.0);
            if st.fail_next_cost {
                st.fail_next_cost = false;
                return Err(anyhow::anyhow!("injected relayer failure"));
            }
        }
        let (gas_cost, tx_count) = self.cost_of(height.0);
        Ok(RelayerBlockInfo { gas_cost, tx_count })
    }
}

pub type Prod = Producer<OnChainDb, SimTxPool, ExecPort, SimGas, SimChainState>;

pub fn make_producer(node: &Node, spec: &ChainSpec, relayer: SimRelayer) -> Prod {
    Producer {
        config: ProducerConfig {
            coinbase_recipient: spec.coinbase_recipient,
            metrics: false,
        },
        view_provider: node.db.on_chain().clone(),
        txpool: SimTxPool::default(),
        executor: Arc::new(node.exec.clone()),
        relayer: Box::new(relayer),
        lock: Default::default(),
        gas_price_provider: SimGas(spec.gas_price),
        chain_state_info_provider: SimChainState(Arc::new(spec.params.clone())),
    }
}
