//! W1 chain — N nodes (one producer, validators, optionally one WASM validator), each a real
//! `CombinedDatabase` + upgradable `Executor` + `Importer` + PoA `Verifier`, with the real
//! `Producer` on the producing node. Simulated parties: adversarial transaction source / waiter /
//! preconfirmation sender, relayer (DA) history, clients issuing dry runs, a Byzantine producer
//! that tampers with blocks, crash/restart of validators. Properties: C01–C07, C30, C45.

mod oracles;
mod ports;

use chainkit::{
    ledger,
    node::{
        Node,
        SimSource,
        Strategy,
        dump_on_chain,
        hash_dump,
        seal,
    },
    spec::ChainSpec,
    txgen::{
        self,
        Expect,
        GenState,
        GenTx,
    },
};
use fuel_core_types::{
    fuel_tx::{
        Transaction,
        UniqueIdentifier,
    },
    services::block_importer::{
        ImportResult,
        UncommittedResult as UncommittedImportResult,
    },
    tai64::Tai64,
};
use simkit::{
    Ctx,
    Tier,
    World,
};
use std::sync::Arc;

struct Chain;

impl World for Chain {
    fn name(&self) -> &'static str {
        "w1_chain"
    }
    fn properties(&self) -> Vec<&'static str> {
        vec!["C01", "C02", "C03", "C04", "C05", "C06", "C07", "C30", "C45"]
    }
    fn real_components(&self) -> Vec<&'static str> {
        vec![
            "fuel_core_upgradable_executor::Executor (native; WASM strategy for C07) + fuel_core_executor + fuel-vm",
            "fuel_core_producer::Producer (header construction, DA height selection, dry_run)",
            "fuel_core_importer::Importer (real importer thread) + fuel_core PoA Verifier (VerifierAdapter)",
            "fuel_core::database::Database<OnChain|Relayer> over MemoryStore, CombinedDatabase, real genesis (execute_and_commit_genesis_block)",
            "fuel-core relayer adapter (RelayerPort for the relayer database view)",
        ]
    }
    fn stubs(&self) -> Vec<&'static str> {
        vec![
            "transaction pool (adversarial TransactionsSource), NewTxWaiter, PreconfirmationSender",
            "DA node / relayer service (events are written into the relayer database by the harness)",
            "gas price provider, chain state info provider (constants from the generated chain spec)",
            "network between producer and validators (in-process delivery with duplication / restart)",
        ]
    }
    fn default_runs(&self, prop: &str, tier: Tier) -> u64 {
        match (prop, tier) {
            ("C07", Tier::Quick) => 120,
            ("C07", Tier::Thorough) => 3_000,
            (_, Tier::Quick) => 1000,
            (_, Tier::Thorough) => 30_000,
        }
    }
    fn nontrivial_min_ops(&self, _prop: &str) -> u64 {
        3
    }
    fn assumptions(&self, prop: &str) -> Vec<String> {
        let mut v = vec![
            "programs come from a fixed menu of generated scripts/contracts (state writes, message out, mint, revert/panic at a chosen point), not arbitrary bytecode".to_string(),
            "the importer's worker thread is driven synchronously: each import is one atomic step of the simulation".to_string(),
        ];
        if prop == "C07" {
            v.push("native vs WASM agreement is a differential comparison on simulated traffic; wasmtime's compile threads stay under the OS".into());
        }
        v
    }
    fn run(&self, ctx: &mut Ctx) {
        let seed = ctx.tape.choose(u64::MAX);
        let rt = chainkit::runtime(seed);
        // the node's wall clock is simulated (set by the dry-run clients, see oracles::c45)
        simkit::clock::enable(1_000);
        let r = std::panic::catch_unwind(std::panic::AssertUnwindSafe(|| rt.block_on(world(ctx))));
        simkit::clock::disable();
        if let Err(e) = r {
            std::panic::resume_unwind(e);
        }
    }
}

pub struct Sim {
    pub spec: ChainSpec,
    pub gen_state: GenState,
    pub time: u64,
    /// every transaction id that was executed in a committed block of the honest chain
    pub executed_ids: std::collections::BTreeSet<fuel_core_types::fuel_tx::TxId>,
    pub ever_created_coins: std::collections::BTreeSet<fuel_core_types::fuel_tx::UtxoId>,
    pub ever_spent_coins: std::collections::BTreeSet<fuel_core_types::fuel_tx::UtxoId>,
    pub ever_spent_msgs: std::collections::BTreeSet<fuel_core_types::fuel_types::Nonce>,
    pub ever_imported_msgs: std::collections::BTreeSet<fuel_core_types::fuel_types::Nonce>,
    pub da_history: std::collections::BTreeMap<u64, Vec<fuel_core_types::services::relayer::Event>>,
}

async fn world(ctx: &mut Ctx) {
    let spec = ChainSpec::generate(ctx);
    ctx.ev(format!("spec {}", spec.describe()));
    let producer_node = match Node::genesis(&spec, "P", Strategy::Native).await {
        Ok(n) => n,
        Err(e) => panic!("harness: genesis failed: {e:?}"),
    };
    let want_wasm = ctx.prop == "C07";
    let n_validators = if want_wasm { 1 } else { ctx.tape.below(2) };
    let mut validators: Vec<Node> = Vec::new();
    for i in 0..n_validators {
        let strategy = if want_wasm { Strategy::Wasm } else { Strategy::Native };
        validators.push(
            Node::genesis(&spec, &format!("V{i}"), strategy)
                .await
                .unwrap_or_else(|e| panic!("harness: genesis failed: {e:?}")),
        );
    }
    let mut sim = Sim {
        spec: spec.clone(),
        gen_state: GenState::default(),
        time: 1_700_000_000,
        executed_ids: Default::default(),
        ever_created_coins: Default::default(),
        ever_spent_coins: Default::default(),
        ever_spent_msgs: Default::default(),
        ever_imported_msgs: Default::default(),
        da_history: Default::default(),
    };
    // coins of the genesis state count as "created"
    for id in ledger::scan(producer_node.db.on_chain()).coins.keys() {
        sim.ever_created_coins.insert(*id);
    }
    let relayer = ports::SimRelayer::new(producer_node.db.relayer().clone());
    let mut producer = ports::make_producer(&producer_node, &spec, relayer.clone());
    let mut p = producer_node;

    let blocks = 2 + ctx.tape.below(if ctx.tier == Tier::Thorough { 10 } else { 5 });
    for _ in 0..blocks {
        if ctx.failed() {
            return;
        }
        let height = p.height() + 1;
        // ---- candidate transactions ----
        let tables = ledger::scan(p.db.on_chain());
        sim.gen_state.reserved_coins.clear();
        sim.gen_state.reserved_msgs.clear();
        let ncand = ctx.tape.small(6) as usize;
        let mut cands: Vec<GenTx> = Vec::new();
        for _ in 0..ncand {
            if let Some(g) = txgen::gen_tx(ctx, &spec, &tables, &mut sim.gen_state, height) {
                cands.push(g);
            }
        }
        // gas burners: some valid script candidates get a script that uses up its whole gas
        // limit, so that the used gas of a block can actually reach the block gas limit
        if ctx.tape.chance(1, 3) {
            for c in cands.iter_mut() {
                if c.tx.is_script() && matches!(c.expect, Expect::Success | Expect::Failure) && ctx.tape.chance(1, 2) {
                    if let Some(t) = oracles::gas_burner_variant(&spec, c) {
                        c.tx = t;
                        c.desc = format!("gas-burner variant of [{}]", c.desc);
                        c.expect = Expect::Failure;
                        c.touches_contracts = false;
                        ctx.probe("gas_burner_candidate");
                    }
                }
            }
        }
        // sometimes the same transaction twice in one block
        if !cands.is_empty() && ctx.tape.chance(1, 6) {
            let i = ctx.tape.below(cands.len());
            let mut dup = cands[i].clone();
            dup.desc = format!("same-block duplicate of #{i}");
            dup.expect = Expect::Skipped;
            cands.push(dup);
        }
        for (i, c) in cands.iter().enumerate() {
            ctx.ev(format!(
                "  cand#{i} {} id={} expect={:?}",
                c.desc,
                c.tx.id(&spec.params.chain_id()),
                c.expect
            ));
        }
        // the source hands them out over several next() calls
        let nbatches = 1 + ctx.tape.below(3);
        let mut batches: Vec<Vec<Transaction>> = vec![Vec::new(); nbatches];
        for c in &cands {
            let b = ctx.tape.below(nbatches);
            batches[b].push(c.tx.clone());
        }
        let source = SimSource::new(batches);
        producer.txpool.set(source.clone());
        p.exec
            .waiter_new_tx_times
            .store(ctx.tape.choose(3), std::sync::atomic::Ordering::SeqCst);
        p.exec
            .sender
            .refuse_try_send
            .store(ctx.tape.choose(3), std::sync::atomic::Ordering::SeqCst);
        sim.time += ctx.tape.choose(20);
        // DA progress for this block
        oracles::da_step(ctx, &mut sim, &p, &validators, &relayer);

        ctx.scope("C01");
        ctx.op(format!("produce height={height} time={} cands={}", sim.time, cands.len()));
        let parent_dump = dump_on_chain(p.db.on_chain());
        let res = producer
            .produce_and_execute_block_txpool(height.into(), Tai64::from_unix(sim.time as i64), ())
            .await;
        let uncommitted = match res {
            Ok(r) => r,
            Err(e) => {
                ctx.ev(format!("  production failed: {e:#}"));
                oracles::production_failed(ctx, &mut sim, &p, &relayer, &e);
                continue;
            }
        };
        let (result, changes) = uncommitted.into();
        ctx.ev(format!(
            "  block id={} txs={} skipped={} events={} da={}",
            result.block.id(),
            result.block.transactions().len(),
            result.skipped_transactions.len(),
            result.events.len(),
            result.block.header().da_height().0,
        ));
        for (id, e) in &result.skipped_transactions {
            ctx.ev(format!("  skipped {id}: {e}"));
        }
        // ---- oracles on the uncommitted result (parent state still in place) ----
        oracles::c01_validate_matches(ctx, &p, &result, &changes);
        oracles::c03_mint_and_limits(ctx, &sim, &p, &result, &source);
        oracles::c04_skipped_and_reverted(ctx, &sim, &p, &cands, &result, &changes, &parent_dump);
        oracles::c05_da_events(ctx, &sim, &p, &result, &relayer);
        oracles::c30_da_height(ctx, &p, &result, &relayer);
        oracles::expectations(ctx, &sim, &cands, &result);
        if ctx.failed() {
            return;
        }
        // ---- commit on the producer through the real importer ----
        let before = ledger::scan(p.db.on_chain());
        let sealed = seal(&spec.poa.secret, &result.block);
        let events = result.events.clone();
        let block = result.block.clone();
        let import = UncommittedImportResult::new(
            ImportResult::new_from_local(sealed.clone(), result.tx_status.clone(), result.events.clone()),
            changes,
        );
        ctx.scope("C08");
        if let Err(e) = p.importer.commit_result(import).await {
            ctx.violate("C01", "produced-block-not-committable", format!("importer refused the produced block: {e}"));
            return;
        }
        let after = ledger::scan(p.db.on_chain());
        oracles::c02_utxo(ctx, &mut sim, &block, &result.tx_status, &events, &before, &after);
        oracles::c06_ids(ctx, &mut sim, &p, &block);
        oracles::after_commit_da(&mut sim, &events);
        for (tx, st) in block.transactions().iter().zip(result.tx_status.iter()) {
            let _ = st;
            if !tx.is_mint() {
                sim.gen_state.executed.push(tx.clone());
            }
        }
        // remember coins spent in this block for stale double spends
        for (id, c) in before.coins.iter() {
            if !after.coins.contains_key(id) {
                if let Some(wi) = spec.wallets.iter().position(|w| w.address == c.owner) {
                    sim.gen_state.spent_coins.push((*id, c.clone(), wi));
                }
            }
        }
        if ctx.failed() {
            return;
        }
        // ---- validators import the sealed block (duplicates, restarts) ----
        let p_hash = hash_dump(&dump_on_chain(p.db.on_chain()));
        let mut new_validators = Vec::new();
        for mut v in validators.drain(..) {
            if ctx.tape.chance(1, 8) {
                ctx.fault("validator_restart");
                ctx.ev(format!("  restart {}", v.name));
                v = v.restart();
            }
            oracles::byzantine_variants(ctx, &sim, &v, &sealed, &result.tx_status);
            ctx.scope(if v.strategy == Strategy::Wasm { "C07" } else { "C01" });
            let r = v.importer.execute_and_commit(sealed.clone()).await;
            let which = if v.strategy == Strategy::Wasm { "C07" } else { "C01" };
            ctx.check(which, "validator-rejected-produced-block", r.is_ok(), || {
                format!("{} ({:?}) rejected the honest block {}: {:?}", v.name, v.strategy, height, r)
            });
            if r.is_ok() {
                let v_hash = hash_dump(&dump_on_chain(v.db.on_chain()));
                ctx.check(which, "validator-state-differs", v_hash == p_hash, || {
                    let a = dump_on_chain(p.db.on_chain());
                    let b = dump_on_chain(v.db.on_chain());
                    let sa: std::collections::BTreeSet<_> = a.iter().collect();
                    let sb: std::collections::BTreeSet<_> = b.iter().collect();
                    let d1: Vec<String> = sa.difference(&sb).take(4).map(|x| format!("col{} {}={}", x.0, oracles::hex(&x.1), oracles::hex(&x.2[..x.2.len().min(24)]))).collect();
                    let d2: Vec<String> = sb.difference(&sa).take(4).map(|x| format!("col{} {}={}", x.0, oracles::hex(&x.1), oracles::hex(&x.2[..x.2.len().min(24)]))).collect();
                    format!("{} ({:?}) state after block {height} differs from the producer's: only producer {d1:?}; only validator {d2:?}", v.name, v.strategy)
                });
            }
            if ctx.tape.chance(1, 6) {
                ctx.fault("duplicate_delivery");
                let r2 = v.importer.execute_and_commit(sealed.clone()).await;
                ctx.check("C06", "duplicate-block-accepted", r2.is_err(), || {
                    format!("{} accepted block {height} a second time", v.name)
                });
            }
            new_validators.push(v);
        }
        validators = new_validators;
        // ---- read-only clients ----
        oracles::c45_dry_runs(ctx, &mut sim, &p, &producer).await;
        if ctx.tape.chance(1, 10) {
            ctx.fault("producer_restart");
            ctx.ev("  restart P");
            p = p.restart();
            producer = ports::make_producer(&p, &spec, relayer.clone());
        }
    }
    ctx.sim_ms += (sim.time - 1_700_000_000) * 1000;
    let _ = Arc::new(());
}

fn main() {
    simkit::cli::main_world(&Chain)
}
