//! W12 runtime — the real `fuel_core_services::ServiceRunner` (service.rs / state.rs) driven by
//! a scripted `RunnableService`/`RunnableTask` (init ok/err/panic/slow/waits-for-stop; run steps
//! Continue/Stop/ErrorContinue/panic/await-the-state-watcher; shutdown ok/err/panic) and by racing
//! clients that issue start / stop / start_and_await / stop_and_await / await_start_or_stop /
//! await_stop / state() / drop in tape order with tape-chosen virtual delays, on a paused
//! current-thread tokio runtime.  Property: C41.
//!
//! Every choice (scripts, client programs, delays) is drawn from the tape before the runtime is
//! started, so a run is a pure function of the tape.  All actors append structured events to one
//! history (single OS thread => total order); the oracle replays that history afterwards.

use fuel_core_services::{
    EmptyShared,
    RunnableService,
    RunnableTask,
    Service,
    ServiceRunner,
    State,
    StateWatcher,
    TaskNextAction,
};
use futures::FutureExt;
use simkit::{
    Ctx,
    Tier,
    World,
};
use std::{
    collections::{
        BTreeMap,
        VecDeque,
    },
    future::Future,
    panic::AssertUnwindSafe,
    sync::{
        Arc,
        Mutex,
        Once,
    },
    time::Duration,
};
use tokio::time::Instant;

const PROP: &str = "C41";

/// Largest scripted sleep of one task future / one client delay (virtual ms).
const MAX_SLEEP_MS: u64 = 15;
/// Sleep of the "continue forever" fallback run step (virtual ms).
const FALLBACK_SLEEP_MS: u64 = 7;
/// Bound of the liveness clause: once a stop was requested, the task has to finish at most its
/// initialisation, one run step and its shutdown, each of which sleeps at most `MAX_SLEEP_MS`
/// (3 * 15 = 45 ms of virtual time; yields take no virtual time).  The clause allows 200 ms.
const STOP_BOUND_MS: u64 = 200;
/// How long the driver lets the clients race before the final phase (virtual ms).
const CLIENT_HORIZON_MS: u64 = 400;

// ------------------------------------------------------------------------------------------
// scripts (drawn from the tape)
// ------------------------------------------------------------------------------------------

#[derive(Clone, Copy, Debug)]
enum Delay {
    None,
    Yields(u32),
    Sleep(u64),
}

impl Delay {
    fn draw(ctx: &mut Ctx) -> Delay {
        match ctx.tape.weighted(&[4, 3, 3]) {
            0 => Delay::None,
            1 => Delay::Yields(1 + ctx.tape.choose(3) as u32),
            _ => Delay::Sleep(1 + ctx.tape.small(MAX_SLEEP_MS - 1)),
        }
    }
    async fn wait(self) {
        match self {
            Delay::None => {}
            Delay::Yields(k) => {
                for _ in 0..k {
                    tokio::task::yield_now().await;
                }
            }
            Delay::Sleep(ms) => tokio::time::sleep(Duration::from_millis(ms)).await,
        }
    }
    fn show(self) -> String {
        match self {
            Delay::None => "-".into(),
            Delay::Yields(k) => format!("y{k}"),
            Delay::Sleep(ms) => format!("{ms}ms"),
        }
    }
}

#[derive(Clone, Copy, Debug, PartialEq, Eq)]
enum InitKind {
    Ok,
    Err,
    Panic,
    /// Initialisation that only finishes once the state left `Starting` (a stop arrived).
    WaitLeaveStarting,
    /// The pattern of `FuelService::into_task`: select between `wait_stopping_or_stopped` and
    /// the (slow) initialisation; a stop seen by the watcher fails the initialisation.
    SelectStopOrSleep,
}

#[derive(Clone, Copy, Debug, PartialEq, Eq)]
enum RunKind {
    Continue,
    Stop,
    ErrorContinue,
    /// Panics inside the returned future.
    PanicAsync,
    /// Panics in the synchronous part of `run` (like a mockall `returning(|_| panic!())`).
    PanicSync,
    /// `watcher.while_started().await` then Stop (the documented way to follow the state).
    WhileStartedStop,
    /// `watcher.while_started().await` then Continue (the runner's loop re-checks the state).
    WhileStartedContinue,
    /// select { while_started, sleep } then Continue.
    SelectWhileStartedOrSleep,
    /// `watcher.wait_stopping_or_stopped().await` then Stop.
    WaitStoppingOrStopped,
}

#[derive(Clone, Copy, Debug)]
struct RunStep {
    delay: Delay,
    kind: RunKind,
}

#[derive(Clone, Copy, Debug, PartialEq, Eq)]
enum ShutKind {
    Ok,
    Err,
    PanicAsync,
    PanicSync,
}

#[derive(Clone, Debug)]
struct Script {
    init_delay: Delay,
    init: InitKind,
    steps: Vec<RunStep>,
    /// What `run` does once the scripted steps are used up (always awaits something or stops).
    fallback: RunStep,
    shut_delay: Delay,
    shut: ShutKind,
}

impl Script {
    fn draw(ctx: &mut Ctx, faulty: bool) -> Script {
        let init_delay = Delay::draw(ctx);
        let init = if faulty {
            match ctx.tape.weighted(&[10, 2, 2, 2, 2]) {
                0 => InitKind::Ok,
                1 => InitKind::Err,
                2 => InitKind::Panic,
                3 => InitKind::WaitLeaveStarting,
                _ => InitKind::SelectStopOrSleep,
            }
        } else {
            InitKind::Ok
        };
        let max_steps = if ctx.tier == Tier::Thorough { 8 } else { 6 };
        let nsteps = ctx.tape.choose(max_steps + 1);
        let mut steps = Vec::new();
        for _ in 0..nsteps {
            let delay = Delay::draw(ctx);
            let kind = if faulty {
                match ctx.tape.weighted(&[8, 3, 3, 1, 1, 3, 2, 2, 1]) {
                    0 => RunKind::Continue,
                    1 => RunKind::Stop,
                    2 => RunKind::ErrorContinue,
                    3 => RunKind::PanicAsync,
                    4 => RunKind::PanicSync,
                    5 => RunKind::WhileStartedStop,
                    6 => RunKind::WhileStartedContinue,
                    7 => RunKind::SelectWhileStartedOrSleep,
                    _ => RunKind::WaitStoppingOrStopped,
                }
            } else {
                match ctx.tape.weighted(&[8, 3, 3, 2, 2]) {
                    0 => RunKind::Continue,
                    1 => RunKind::Stop,
                    2 => RunKind::WhileStartedStop,
                    3 => RunKind::WhileStartedContinue,
                    _ => RunKind::SelectWhileStartedOrSleep,
                }
            };
            steps.push(RunStep { delay, kind });
        }
        let fallback = match ctx.tape.choose(3) {
            0 => RunStep {
                delay: Delay::None,
                kind: RunKind::WhileStartedStop,
            },
            1 => RunStep {
                delay: Delay::Sleep(FALLBACK_SLEEP_MS),
                kind: RunKind::Continue,
            },
            _ => RunStep {
                delay: Delay::None,
                kind: RunKind::Stop,
            },
        };
        let shut_delay = Delay::draw(ctx);
        let shut = if faulty {
            match ctx.tape.weighted(&[10, 3, 2, 1]) {
                0 => ShutKind::Ok,
                1 => ShutKind::Err,
                2 => ShutKind::PanicAsync,
                _ => ShutKind::PanicSync,
            }
        } else {
            ShutKind::Ok
        };
        Script {
            init_delay,
            init,
            steps,
            fallback,
            shut_delay,
            shut,
        }
    }

    fn show(&self) -> String {
        let steps: Vec<String> = self
            .steps
            .iter()
            .map(|s| format!("{}:{:?}", s.delay.show(), s.kind))
            .collect();
        format!(
            "init={}:{:?} steps=[{}] fallback={}:{:?} shutdown={}:{:?}",
            self.init_delay.show(),
            self.init,
            steps.join(","),
            self.fallback.delay.show(),
            self.fallback.kind,
            self.shut_delay.show(),
            self.shut
        )
    }
}

#[derive(Clone, Copy, Debug, PartialEq, Eq)]
enum Op {
    Start,
    Stop,
    StartAndAwait,
    StopAndAwait,
    AwaitStartOrStop,
    AwaitStop,
    ReadState,
    /// Takes the runner out of the shared slot; the real `Drop` (which requests a stop) runs
    /// when the last in-flight operation that still borrows the runner finishes.
    DropRunner,
    /// Obtains a `StateWatcher`, lets go of the runner and awaits `while_started` on it.
    WatchWhileStarted,
}

impl Op {
    fn draw(ctx: &mut Ctx) -> Op {
        match ctx.tape.weighted(&[4, 4, 2, 2, 2, 3, 2, 1, 1]) {
            0 => Op::Start,
            1 => Op::StartAndAwait,
            2 => Op::Stop,
            3 => Op::StopAndAwait,
            4 => Op::AwaitStartOrStop,
            5 => Op::AwaitStop,
            6 => Op::ReadState,
            7 => Op::DropRunner,
            _ => Op::WatchWhileStarted,
        }
    }
    fn awaits_stop(self) -> bool {
        matches!(self, Op::AwaitStop | Op::StopAndAwait)
    }
}

// ------------------------------------------------------------------------------------------
// history
// ------------------------------------------------------------------------------------------

#[derive(Clone, Debug)]
enum Ev {
    /// Somebody read the service state (through the runner, a watcher, or an await result).
    Observe { who: String, state: State },
    TaskEnter { what: &'static str, n: u32, kind: String },
    TaskExit { what: &'static str, n: u32, outcome: String },
    OpIssue { client: String, idx: usize, op: Op },
    OpDone { client: String, idx: usize, op: Op, result: String, state: Option<State> },
    OpSkipped { client: String, idx: usize, op: Op },
    StopRequested { by: String },
    Note(String),
}

struct ObsInner {
    t0: Option<Instant>,
    evs: Vec<(u64, Ev)>,
    /// The task is currently blocked inside `StateWatcher::wait_stopping_or_stopped`.
    in_wait_stopping_or_stopped: bool,
    panics: Vec<String>,
}

#[derive(Clone)]
struct Obs(Arc<Mutex<ObsInner>>);

impl Obs {
    fn new() -> Self {
        Obs(Arc::new(Mutex::new(ObsInner {
            t0: None,
            evs: Vec::new(),
            in_wait_stopping_or_stopped: false,
            panics: Vec::new(),
        })))
    }
    fn lock(&self) -> std::sync::MutexGuard<'_, ObsInner> {
        self.0.lock().unwrap_or_else(|e| e.into_inner())
    }
    fn now_ms(&self) -> u64 {
        let g = self.lock();
        match g.t0 {
            Some(t0) => Instant::now().saturating_duration_since(t0).as_millis() as u64,
            None => 0,
        }
    }
    fn log(&self, ev: Ev) {
        let t = self.now_ms();
        self.lock().evs.push((t, ev));
    }
    fn observe(&self, who: impl Into<String>, state: State) {
        self.log(Ev::Observe {
            who: who.into(),
            state,
        });
    }
}

fn rank(s: &State) -> u8 {
    match s {
        State::NotStarted => 0,
        State::Starting => 1,
        State::Started => 2,
        State::Stopping => 3,
        State::Stopped | State::StoppedWithError(_) => 4,
    }
}

// ------------------------------------------------------------------------------------------
// the scripted service
// ------------------------------------------------------------------------------------------

const PANIC_PREFIX: &str = "scripted panic";
const INIT_ERR: &str = "scripted init error";

struct Svc {
    script: Script,
    obs: Obs,
}

/// (`Clone` is not needed by the real ServiceRunner; it lets a sensitivity mutant of service.rs
/// call `shutdown` twice.)
#[derive(Clone)]
struct Task {
    steps: VecDeque<RunStep>,
    fallback: RunStep,
    shut_delay: Delay,
    shut: ShutKind,
    obs: Obs,
    watcher: StateWatcher,
    run_no: u32,
}

#[async_trait::async_trait]
impl RunnableService for Svc {
    const NAME: &'static str = "W12Scripted";
    type SharedData = EmptyShared;
    type Task = Task;
    type TaskParams = ();

    fn shared_data(&self) -> Self::SharedData {
        EmptyShared
    }

    async fn into_task(
        self,
        watcher: &StateWatcher,
        _params: Self::TaskParams,
    ) -> anyhow::Result<Self::Task> {
        let obs = self.obs.clone();
        let s = watcher.borrow().clone();
        obs.observe("task.init", s);
        obs.log(Ev::TaskEnter {
            what: "init",
            n: 0,
            kind: format!("{:?}", self.script.init),
        });
        let exit = |o: &str| {
            obs.log(Ev::TaskExit {
                what: "init",
                n: 0,
                outcome: o.to_string(),
            })
        };
        match self.script.init {
            InitKind::Ok => self.script.init_delay.wait().await,
            InitKind::Err => {
                self.script.init_delay.wait().await;
                exit("err");
                return Err(anyhow::anyhow!(INIT_ERR));
            }
            InitKind::Panic => {
                self.script.init_delay.wait().await;
                exit("panic");
                panic!("{PANIC_PREFIX}: init");
            }
            InitKind::WaitLeaveStarting => {
                self.script.init_delay.wait().await;
                let mut w = watcher.clone();
                loop {
                    let s = w.borrow().clone();
                    if !s.starting() {
                        break;
                    }
                    if w.changed().await.is_err() {
                        break;
                    }
                }
            }
            InitKind::SelectStopOrSleep => {
                let mut w = watcher.clone();
                let d = self.script.init_delay;
                let stopped = tokio::select! {
                    biased;
                    _ = w.wait_stopping_or_stopped() => true,
                    _ = d.wait() => false,
                };
                if stopped {
                    exit("err(stop seen during init)");
                    return Err(anyhow::anyhow!(INIT_ERR));
                }
            }
        }
        let s = watcher.borrow().clone();
        obs.observe("task.init.end", s);
        exit("ok");
        Ok(Task {
            steps: self.script.steps.iter().copied().collect(),
            fallback: self.script.fallback,
            shut_delay: self.script.shut_delay,
            shut: self.script.shut,
            obs: obs.clone(),
            watcher: watcher.clone(),
            run_no: 0,
        })
    }
}

impl RunnableTask for Task {
    fn run(
        &mut self,
        watcher: &mut StateWatcher,
    ) -> impl Future<Output = TaskNextAction> + Send {
        self.run_no += 1;
        let n = self.run_no;
        let step = self.steps.pop_front().unwrap_or(self.fallback);
        let obs = self.obs.clone();
        let s = watcher.borrow().clone();
        obs.observe("task.run", s);
        obs.log(Ev::TaskEnter {
            what: "run",
            n,
            kind: format!("{}:{:?}", step.delay.show(), step.kind),
        });
        if step.kind == RunKind::PanicSync {
            obs.log(Ev::TaskExit {
                what: "run",
                n,
                outcome: "panic(sync)".into(),
            });
            panic!("{PANIC_PREFIX}: run (sync)");
        }
        async move {
            step.delay.wait().await;
            let (out, name) = match step.kind {
                RunKind::Continue => (TaskNextAction::Continue, "continue"),
                RunKind::Stop => (TaskNextAction::Stop, "stop"),
                RunKind::ErrorContinue => (
                    TaskNextAction::ErrorContinue(anyhow::anyhow!("scripted run error")),
                    "error-continue",
                ),
                RunKind::PanicAsync | RunKind::PanicSync => {
                    obs.log(Ev::TaskExit {
                        what: "run",
                        n,
                        outcome: "panic".into(),
                    });
                    panic!("{PANIC_PREFIX}: run");
                }
                RunKind::WhileStartedStop | RunKind::WhileStartedContinue => {
                    if let Ok(s) = watcher.while_started().await {
                        obs.observe("task.run.while_started", s);
                    }
                    if step.kind == RunKind::WhileStartedStop {
                        (TaskNextAction::Stop, "watched->stop")
                    } else {
                        (TaskNextAction::Continue, "watched->continue")
                    }
                }
                RunKind::SelectWhileStartedOrSleep => {
                    let seen = tokio::select! {
                        biased;
                        r = watcher.while_started() => r.ok(),
                        _ = tokio::time::sleep(Duration::from_millis(FALLBACK_SLEEP_MS)) => None,
                    };
                    if let Some(s) = seen {
                        obs.observe("task.run.while_started", s);
                    }
                    (TaskNextAction::Continue, "select->continue")
                }
                RunKind::WaitStoppingOrStopped => {
                    obs.lock().in_wait_stopping_or_stopped = true;
                    let _ = watcher.wait_stopping_or_stopped().await;
                    obs.lock().in_wait_stopping_or_stopped = false;
                    (TaskNextAction::Stop, "wait_stopping_or_stopped->stop")
                }
            };
            obs.log(Ev::TaskExit {
                what: "run",
                n,
                outcome: name.into(),
            });
            out
        }
    }

    fn shutdown(self) -> impl Future<Output = anyhow::Result<()>> + Send {
        let obs = self.obs.clone();
        let s = self.watcher.borrow().clone();
        obs.observe("task.shutdown", s);
        obs.log(Ev::TaskEnter {
            what: "shutdown",
            n: 0,
            kind: format!("{}:{:?}", self.shut_delay.show(), self.shut),
        });
        if self.shut == ShutKind::PanicSync {
            obs.log(Ev::TaskExit {
                what: "shutdown",
                n: 0,
                outcome: "panic(sync)".into(),
            });
            panic!("{PANIC_PREFIX}: shutdown (sync)");
        }
        let delay = self.shut_delay;
        let kind = self.shut;
        async move {
            delay.wait().await;
            let exit = |o: &str| {
                obs.log(Ev::TaskExit {
                    what: "shutdown",
                    n: 0,
                    outcome: o.to_string(),
                })
            };
            match kind {
                ShutKind::Ok => {
                    exit("ok");
                    Ok(())
                }
                ShutKind::Err => {
                    exit("err");
                    Err(anyhow::anyhow!("scripted shutdown error"))
                }
                ShutKind::PanicAsync | ShutKind::PanicSync => {
                    exit("panic");
                    panic!("{PANIC_PREFIX}: shutdown");
                }
            }
        }
    }
}

// ------------------------------------------------------------------------------------------
// clients
// ------------------------------------------------------------------------------------------

/// The runner as the clients share it. Dropping the last reference runs `ServiceRunner::drop`,
/// which requests a stop.
struct Handle {
    runner: ServiceRunner<Svc>,
    obs: Obs,
}

impl Drop for Handle {
    fn drop(&mut self) {
        self.obs.log(Ev::StopRequested {
            by: "drop(ServiceRunner)".into(),
        });
        // `self.runner` is dropped after this body.
    }
}

type Slot = Arc<Mutex<Option<Arc<Handle>>>>;

fn res_state(r: &anyhow::Result<State>) -> (String, Option<State>) {
    match r {
        Ok(s) => (format!("Ok({s:?})"), Some(s.clone())),
        Err(e) => (format!("Err({e})"), None),
    }
}

async fn client(name: String, ops: Vec<(Delay, Op)>, slot: Slot, obs: Obs) {
    for (idx, (delay, op)) in ops.into_iter().enumerate() {
        delay.wait().await;
        let h = if op == Op::DropRunner {
            slot.lock().unwrap_or_else(|e| e.into_inner()).take()
        } else {
            slot.lock().unwrap_or_else(|e| e.into_inner()).clone()
        };
        let Some(h) = h else {
            obs.log(Ev::OpSkipped {
                client: name.clone(),
                idx,
                op,
            });
            continue;
        };
        obs.log(Ev::OpIssue {
            client: name.clone(),
            idx,
            op,
        });
        let who = format!("{name}#{idx}");
        let (result, state) = match op {
            Op::Start => {
                let r = h.runner.start();
                obs.observe(format!("{who}.state"), h.runner.state());
                (if r.is_ok() { "Ok".to_string() } else { "Err(already started)".to_string() }, None)
            }
            Op::Stop => {
                obs.log(Ev::StopRequested { by: who.clone() });
                let r = h.runner.stop();
                obs.observe(format!("{who}.state"), h.runner.state());
                (format!("{r}"), None)
            }
            Op::StartAndAwait => res_state(&h.runner.start_and_await().await),
            Op::StopAndAwait => {
                obs.log(Ev::StopRequested { by: who.clone() });
                res_state(&h.runner.stop_and_await().await)
            }
            Op::AwaitStartOrStop => res_state(&h.runner.await_start_or_stop().await),
            Op::AwaitStop => res_state(&h.runner.await_stop().await),
            Op::ReadState => {
                let s = h.runner.state();
                (format!("{s:?}"), Some(s))
            }
            Op::DropRunner => {
                let others = Arc::strong_count(&h) - 1;
                drop(h);
                obs.log(Ev::OpDone {
                    client: name.clone(),
                    idx,
                    op,
                    result: format!("released ({others} in-flight borrowers)"),
                    state: None,
                });
                continue;
            }
            Op::WatchWhileStarted => {
                let mut w = h.runner.state_watcher();
                drop(h);
                let r = w.while_started().await;
                let out = res_state(&r);
                obs.log(Ev::OpDone {
                    client: name.clone(),
                    idx,
                    op,
                    result: out.0,
                    state: out.1,
                });
                continue;
            }
        };
        obs.log(Ev::OpDone {
            client: name.clone(),
            idx,
            op,
            result,
            state,
        });
        drop(h);
    }
}

async fn monitor(mut w: StateWatcher, obs: Obs) {
    loop {
        let s = w.borrow_and_update().clone();
        obs.observe("monitor", s);
        if w.changed().await.is_err() {
            obs.log(Ev::Note("monitor: channel closed".into()));
            break;
        }
    }
}

// ------------------------------------------------------------------------------------------
// world
// ------------------------------------------------------------------------------------------

fn install_panic_filter() {
    static ONCE: Once = Once::new();
    ONCE.call_once(|| {
        let prev = std::panic::take_hook();
        std::panic::set_hook(Box::new(move |info| {
            let msg = if let Some(s) = info.payload().downcast_ref::<&str>() {
                (*s).to_string()
            } else if let Some(s) = info.payload().downcast_ref::<String>() {
                s.clone()
            } else {
                String::new()
            };
            // Panics of the scripted task are workload, not findings: the ServiceRunner is
            // specified to catch them. (An init error becomes a panic inside service.rs.)
            if msg.starts_with(PANIC_PREFIX)
                || (msg.starts_with("The initialization of W12Scripted failed")
                    && msg.ends_with(INIT_ERR))
            {
                return;
            }
            prev(info)
        }));
    });
}

fn scripted_error_message(msg: &str) -> bool {
    msg.starts_with(PANIC_PREFIX)
        || (msg.starts_with("The initialization of W12Scripted failed") && msg.ends_with(INIT_ERR))
}

struct Runtime12;

impl World for Runtime12 {
    fn name(&self) -> &'static str {
        "w12_runtime"
    }
    fn properties(&self) -> Vec<&'static str> {
        vec![PROP]
    }
    fn real_components(&self) -> Vec<&'static str> {
        vec![
            "fuel_core_services::ServiceRunner (new, start, stop, start_and_await, stop_and_await, await_start_or_stop, await_stop, state, state_watcher, Drop)",
            "fuel_core_services service.rs: initialize_loop, run, run_task, shutdown_task",
            "fuel_core_services::StateWatcher (while_started, wait_stopping_or_stopped, changed, borrow)",
            "tokio watch channel, tokio current-thread scheduler and paused timer (real tokio, virtual clock)",
        ]
    }
    fn stubs(&self) -> Vec<&'static str> {
        vec![
            "RunnableService/RunnableTask: scripted task (outcomes and delays drawn from the tape)",
            "clients: simulated parties calling the public Service API",
            "fuel-core-metrics global registry is cleared at the start of every run (harness hygiene; busy/idle metrics are not observed)",
        ]
    }
    fn default_runs(&self, _prop: &str, tier: Tier) -> u64 {
        match tier {
            Tier::Quick => 150_000,
            Tier::Thorough => 5_000_000,
        }
    }
    fn nontrivial_min_ops(&self, _prop: &str) -> u64 {
        3
    }
    fn assumptions(&self, _prop: &str) -> Vec<String> {
        vec![
            "interleavings are those of one OS thread: tokio's current-thread scheduler with a paused clock; actors are moved relative to each other by tape-chosen yields and virtual sleeps (multi-threaded runtime preemption inside a poll is not explored)".into(),
            format!("liveness clause: an await for stop issued before/after a stop request must return within {STOP_BOUND_MS} ms of virtual time after both happened; scripted task futures sleep at most {MAX_SLEEP_MS} ms each and always terminate once the state left Started/Starting"),
            "state observations are samples (runner.state(), await results, watcher reads by a monitor task, by the scripted task and by clients), totally ordered because everything runs on one thread".into(),
            "'stop was requested' = a call of stop(), stop_and_await() or the drop of the ServiceRunner".into(),
        ]
    }

    fn run(&self, ctx: &mut Ctx) {
        install_panic_filter();
        // The metrics registry is process-global and grows with every ServiceRunner::new.
        *fuel_core_metrics::global_registry().registry.lock() = Default::default();

        // ---- configuration (swarm) ----
        let thorough = ctx.tier == Tier::Thorough;
        let faulty = !ctx.tape.chance(1, 8); // ~1 in 8 runs: task never fails
        let script = Script::draw(ctx, faulty);
        let nclients = 1 + ctx.tape.choose(if thorough { 5 } else { 4 });
        let max_ops = if thorough { 5 } else { 3 };
        let mut programs: Vec<Vec<(Delay, Op)>> = Vec::new();
        // 3 of 4 runs: the first client starts the service right away (otherwise most histories
        // would consist of a stop before any start)
        let early_start = !ctx.tape.chance(1, 4);
        for c in 0..nclients {
            let n = 1 + ctx.tape.choose(max_ops);
            let mut p = Vec::new();
            for k in 0..n {
                if c == 0 && k == 0 && early_start {
                    let op = if ctx.tape.coin() { Op::StartAndAwait } else { Op::Start };
                    p.push((Delay::None, op));
                    continue;
                }
                let d = Delay::draw(ctx);
                let op = Op::draw(ctx);
                p.push((d, op));
            }
            programs.push(p);
        }
        // what the driver does after the clients had their time
        let final_op = match ctx.tape.weighted(&[3, 3, 2, 2]) {
            0 => Some(Op::StopAndAwait),
            1 => Some(Op::Stop),
            2 => Some(Op::DropRunner),
            _ => None,
        };
        let seed = ctx.tape.choose(256);
        ctx.ev(format!("script {}", script.show()));
        for (i, p) in programs.iter().enumerate() {
            let s: Vec<String> = p
                .iter()
                .map(|(d, o)| format!("{}:{:?}", d.show(), o))
                .collect();
            ctx.ev(format!("client c{i} [{}]", s.join(",")));
        }
        ctx.ev(format!("final {final_op:?}"));
        if script.init != InitKind::Ok {
            ctx.fault(&format!("init:{:?}", script.init));
        }

        let obs = Obs::new();
        let mut seed_bytes = [0u8; 32];
        seed_bytes[..8].copy_from_slice(&seed.to_le_bytes());
        let rt = tokio::runtime::Builder::new_current_thread()
            .enable_time()
            .start_paused(true)
            .rng_seed(tokio::runtime::RngSeed::from_bytes(&seed_bytes))
            .build()
            .expect("tokio runtime");

        ctx.scope(PROP);
        let obs2 = obs.clone();
        let end_ms = rt.block_on(async move {
            let obs = obs2;
            obs.lock().t0 = Some(Instant::now());
            let handle = Arc::new(Handle {
                runner: ServiceRunner::new(Svc {
                    script,
                    obs: obs.clone(),
                }),
                obs: obs.clone(),
            });
            obs.observe("driver.new", handle.runner.state());
            let mon = tokio::spawn(monitor(handle.runner.state_watcher(), obs.clone()));
            let slot: Slot = Arc::new(Mutex::new(Some(handle)));
            let (done_tx, mut done_rx) = tokio::sync::mpsc::unbounded_channel::<()>();
            let mut joins = Vec::new();
            let spawn_client = |name: String, ops: Vec<(Delay, Op)>| {
                let slot = slot.clone();
                let obs = obs.clone();
                let done = done_tx.clone();
                tokio::spawn(async move {
                    let r = AssertUnwindSafe(client(name.clone(), ops, slot, obs.clone()))
                        .catch_unwind()
                        .await;
                    if r.is_err() {
                        obs.lock().panics.push(name);
                    }
                    let _ = done.send(());
                })
            };
            let n = programs.len();
            for (i, p) in programs.into_iter().enumerate() {
                joins.push(spawn_client(format!("c{i}"), p));
            }
            let deadline = Instant::now() + Duration::from_millis(CLIENT_HORIZON_MS);
            let mut finished = 0;
            while finished < n {
                match tokio::time::timeout_at(deadline, done_rx.recv()).await {
                    Ok(Some(())) => finished += 1,
                    _ => break,
                }
            }
            obs.log(Ev::Note(format!(
                "driver: {finished}/{n} clients finished; final phase"
            )));
            if let Some(op) = final_op {
                joins.push(spawn_client("final".into(), vec![(Delay::None, op)]));
            }
            tokio::time::sleep(Duration::from_millis(STOP_BOUND_MS + 1)).await;
            // a few more scheduler turns so that everything runnable at this instant ran
            for _ in 0..4 {
                tokio::task::yield_now().await;
            }
            obs.log(Ev::Note("driver: end".into()));
            let end = obs.now_ms();
            // the history ends here (what the teardown below does is not part of it)
            let out = {
                let mut g = obs.lock();
                (
                    std::mem::take(&mut g.evs),
                    g.in_wait_stopping_or_stopped,
                    std::mem::take(&mut g.panics),
                    end,
                )
            };
            for j in &joins {
                j.abort();
            }
            mon.abort();
            out
        });
        drop(rt);
        let (evs, in_wsos, panics, end_ms) = end_ms;
        judge(ctx, &evs, end_ms, in_wsos);
        ctx.sim_ms += end_ms;
        if !panics.is_empty() {
            // a panic escaped from a ServiceRunner method into a client: re-raise so that the
            // harness attributes it by location (simkit: /repo location => violation)
            panic!("client task(s) {panics:?} panicked inside a ServiceRunner call");
        }
    }
}

struct Judge {
    max_rank: u8,
    max_state: State,
    terminal: Option<State>,
}

impl Judge {
    /// One observation of the service state, in history order.
    fn see(&mut self, ctx: &mut Ctx, who: &str, state: &State, t: u64) {
        let r = rank(state);
        let (max_rank, max_state) = (self.max_rank, self.max_state.clone());
        ctx.check(PROP, "state-went-backwards", r >= max_rank, || {
            format!("{who} observed {state:?} at t={t} ms after {max_state:?} had been observed")
        });
        if r > self.max_rank {
            self.max_rank = r;
            self.max_state = state.clone();
            match r {
                1 => ctx.probe("seen_starting"),
                2 => ctx.probe("seen_started"),
                3 => ctx.probe("seen_stopping"),
                _ => {}
            }
        }
        if r == 4 {
            match &self.terminal {
                Some(first) => {
                    ctx.check(PROP, "terminal-state-changed", first == state, || {
                        format!("{who} observed {state:?} at t={t} ms after the service had been observed as {first:?}")
                    });
                }
                None => {
                    self.terminal = Some(state.clone());
                    match state {
                        State::StoppedWithError(m) => {
                            ctx.probe("stopped_with_error");
                            // a panic that is not part of the script was caught by the runner
                            ctx.check(
                                PROP,
                                "panic:crates/services/src/service.rs(caught)",
                                scripted_error_message(m),
                                || format!("service stopped with an error that no scripted task produced: {m}"),
                            );
                        }
                        _ => ctx.probe("stopped_clean"),
                    }
                }
            }
        }
    }
}

fn judge(ctx: &mut Ctx, evs: &[(u64, Ev)], end_ms: u64, in_wsos: bool) {
    let mut j = Judge {
        max_rank: 0,
        max_state: State::NotStarted,
        terminal: None,
    };
    let mut shutdowns = 0u32;
    let mut task_created = false;
    let mut first_stop_req: Option<u64> = None;
    let mut pending: BTreeMap<(String, usize), (Op, u64)> = BTreeMap::new();

    for (t, ev) in evs {
        let t = *t;
        match ev {
            Ev::Observe { who, state } => {
                ctx.ev(format!("t={t} see {who} {state:?}"));
                j.see(ctx, who, state, t);
            }
            Ev::TaskEnter { what, n, kind } => {
                ctx.ev(format!("t={t} task {what}#{n} enter {kind}"));
                if *what == "shutdown" {
                    shutdowns += 1;
                    ctx.check(PROP, "shutdown-twice", shutdowns <= 1, || {
                        format!("RunnableTask::shutdown was called {shutdowns} times (t={t} ms)")
                    });
                } else {
                    ctx.check(PROP, "ran-after-stopped", j.terminal.is_none(), || {
                        format!(
                            "{what}#{n} was called at t={t} ms after the state {:?} had been observable",
                            j.terminal.as_ref().unwrap()
                        )
                    });
                    if *what == "run" {
                        task_created = true;
                    }
                }
            }
            Ev::TaskExit { what, n, outcome } => {
                ctx.ev(format!("t={t} task {what}#{n} exit {outcome}"));
                if outcome.starts_with("panic") {
                    ctx.fault(&format!("{what}:panic"));
                } else if outcome.starts_with("err") {
                    ctx.fault(&format!("{what}:error"));
                }
            }
            Ev::OpIssue { client, idx, op } => {
                ctx.op(format!("t={t} {client}#{idx} {op:?}"));
                if op.awaits_stop() {
                    pending.insert((client.clone(), *idx), (*op, t));
                }
            }
            Ev::OpSkipped { client, idx, op } => {
                ctx.ev(format!("t={t} {client}#{idx} {op:?} skipped (runner released)"));
            }
            Ev::OpDone { client, idx, op, result, state } => {
                ctx.ev(format!("t={t} {client}#{idx} {op:?} -> {result}"));
                if let Some(s) = state {
                    // an await result / state() value is an observation as well
                    j.see(ctx, &format!("{client}#{idx} {op:?} (return value)"), s, t);
                }
                if op.awaits_stop() {
                    let issued = pending.remove(&(client.clone(), *idx)).map(|x| x.1).unwrap_or(t);
                    match state {
                        Some(s) => {
                            ctx.check(PROP, "await-stop-returned-unstopped", s.stopped(), || {
                                format!("{client}#{idx} {op:?} returned {s:?}, which is not a stopped state (t={t} ms)")
                            });
                        }
                        None => ctx.probe("await_stop_returned_err"),
                    }
                    if let Some(req) = first_stop_req {
                        let from = req.max(issued);
                        ctx.check(PROP, "await-stop-late", t <= from + STOP_BOUND_MS, || {
                            format!("{client}#{idx} {op:?} issued at {issued} ms, stop requested at {req} ms, returned only at {t} ms (bound {STOP_BOUND_MS} ms)")
                        });
                        ctx.probe("await_stop_returned_after_request");
                    } else {
                        ctx.probe("await_stop_returned_without_request");
                    }
                }
            }
            Ev::StopRequested { by } => {
                ctx.ev(format!("t={t} stop requested by {by}"));
                if first_stop_req.is_none() {
                    first_stop_req = Some(t);
                    match j.max_rank {
                        0 => ctx.probe("first_stop_request_while_not_started"),
                        1 => ctx.probe("first_stop_request_while_starting"),
                        2 => ctx.probe("first_stop_request_while_started"),
                        3 => ctx.probe("first_stop_request_while_stopping"),
                        _ => ctx.probe("first_stop_request_after_stopped"),
                    }
                }
            }
            Ev::Note(s) => ctx.ev(format!("t={t} {s}")),
        }
        if ctx.failed() {
            return;
        }
    }
    // awaits for stop that never returned
    for ((client, idx), (op, issued)) in pending {
        match first_stop_req {
            Some(req) => {
                let from = req.max(issued);
                let class = if in_wsos {
                    // the task sits in StateWatcher::wait_stopping_or_stopped
                    "await-stop-hung:wait_stopping_or_stopped"
                } else {
                    "await-stop-hung"
                };
                // (the driver always sleeps STOP_BOUND_MS after the last request it knows of)
                let max_state = j.max_state.clone();
                ctx.check(PROP, class, end_ms < from + STOP_BOUND_MS, || {
                    format!("{client}#{idx} {op:?} issued at {issued} ms did not return by {end_ms} ms although a stop was requested at {req} ms (bound {STOP_BOUND_MS} ms); last observed state {max_state:?}")
                });
            }
            None => ctx.probe("await_stop_pending_without_request"),
        }
    }
    if task_created {
        if shutdowns == 1 {
            ctx.probe("shutdown_ran_once");
        } else {
            ctx.probe("task_ran_but_no_shutdown(info)");
        }
    }
}

fn main() {
    simkit::cli::main_world(&Runtime12)
}
