//! Tape-driven transaction generator: valid transfers, scripts calling the pre-deployed
//! contracts (returning, reverting or panicking at a chosen point), contract creation, message
//! spends, and the invalid / colliding / duplicate / expired variants the properties ask for.

use crate::{
    asm::{
        self,
        CallSpec,
        Ending,
    },
    ledger::Tables,
    spec::{
        ChainSpec,
        contract_id_of,
    },
};
use fuel_core_types::{
    fuel_tx::{
        Address,
        Bytes32,
        Contract,
        Finalizable,
        Input,
        Output,
        Salt,
        Transaction,
        TransactionBuilder,
        TxPointer,
        UniqueIdentifier,
        UtxoId,
        Witness,
    },
    fuel_types::{
        BlockHeight,
        Nonce,
    },
};
use simkit::Ctx;
use std::collections::BTreeSet;

#[derive(Clone, Debug, PartialEq, Eq)]
pub enum Expect {
    /// should be included and succeed
    Success,
    /// should be included with a failure status (revert / panic)
    Failure,
    /// should be skipped by the producer
    Skipped,
    /// depends on data the generator does not model (e.g. fee vs. tiny coins): no expectation
    Any,
}

#[derive(Clone)]
pub struct GenTx {
    pub tx: Transaction,
    pub desc: String,
    pub expect: Expect,
    /// writes contract state / balances before a possible revert
    pub touches_contracts: bool,
}

#[derive(Default)]
pub struct GenState {
    /// inputs already used by transactions generated for the pending block
    pub reserved_coins: BTreeSet<UtxoId>,
    pub reserved_msgs: BTreeSet<Nonce>,
    /// transactions that were included in earlier blocks (for resubmission)
    pub executed: Vec<Transaction>,
    /// coins that were spent in earlier blocks (for stale double spends)
    pub spent_coins: Vec<(UtxoId, crate::ledger::CoinInfo, usize)>,
    pub salt_counter: u64,
}

fn wallet_index(spec: &ChainSpec, a: &Address) -> Option<usize> {
    spec.wallets.iter().position(|w| &w.address == a)
}

/// Pick an unreserved coin of `asset` owned by some wallet; returns (wallet index, utxo, info).
fn pick_coin(
    ctx: &mut Ctx,
    spec: &ChainSpec,
    tables: &Tables,
    st: &GenState,
    want_base: bool,
    min_amount: u64,
) -> Option<(usize, UtxoId, crate::ledger::CoinInfo)> {
    let base = *spec.params.base_asset_id();
    let cands: Vec<_> = tables
        .coins
        .iter()
        .filter(|(id, c)| {
            !st.reserved_coins.contains(id)
                && ((c.asset == base) == want_base)
                && c.amount >= min_amount
                && wallet_index(spec, &c.owner).is_some()
        })
        .collect();
    if cands.is_empty() {
        return None;
    }
    let (id, c) = cands[ctx.tape.below(cands.len())];
    Some((wallet_index(spec, &c.owner).unwrap(), *id, c.clone()))
}

fn base_builder(spec: &ChainSpec, script: Vec<u8>, data: Vec<u8>) -> TransactionBuilder<fuel_core_types::fuel_tx::Script> {
    let mut b = TransactionBuilder::script(script, data);
    b.with_params(spec.params.clone());
    b
}

fn add_contract(b: &mut TransactionBuilder<fuel_core_types::fuel_tx::Script>, id: fuel_core_types::fuel_tx::ContractId) {
    let input_index = b.inputs().len() as u16;
    b.add_input(Input::contract(
        UtxoId::new(Bytes32::zeroed(), 0),
        Bytes32::zeroed(),
        Bytes32::zeroed(),
        TxPointer::default(),
        id,
    ));
    b.add_output(Output::contract(input_index, Bytes32::zeroed(), Bytes32::zeroed()));
}

/// Generate one candidate transaction for the block at `height`.
pub fn gen_tx(
    ctx: &mut Ctx,
    spec: &ChainSpec,
    tables: &Tables,
    st: &mut GenState,
    height: u32,
) -> Option<GenTx> {
    let base = *spec.params.base_asset_id();
    let max_gas_per_tx = spec.params.tx_params().max_gas_per_tx();
    let gas_limit = (max_gas_per_tx / 4).max(10_000).min(max_gas_per_tx / 2);
    let kind = ctx.tape.weighted(&[
        14, // 0 transfer
        12, // 1 script calls (ret)
        8,  // 2 script calls cut by revert / panic
        4,  // 3 call into the reverting contract
        4,  // 4 smo through contract
        4,  // 5 mint through contract
        4,  // 6 create
        6,  // 7 message spend
        3,  // 8 missing input
        3,  // 9 mismatching input
        4,  // 10 double spend (same block or stale)
        4,  // 11 duplicate of an executed transaction
        3,  // 12 fee too low / tiny coin
        3,  // 13 expired or immature
        2,  // 14 alt-asset transfer
    ]);
    match kind {
        0 | 12 | 13 | 14 => {
            let want_base = kind != 14;
            let min = if kind == 12 { 1 } else { 1_000 };
            let (wi, utxo, coin) = pick_coin(ctx, spec, tables, st, want_base, min)?;
            let mut b = base_builder(spec, vec![], vec![]);
            b.script_gas_limit(gas_limit.min(100_000));
            b.add_unsigned_coin_input(spec.wallets[wi].secret, utxo, coin.amount, coin.asset, coin.tx_pointer);
            let mut fee_coin_amount = coin.amount;
            if !want_base {
                // the fee must be paid in the base asset
                let (wj, u2, c2) = pick_coin(ctx, spec, tables, st, true, 1_000)?;
                if u2 == utxo {
                    return None;
                }
                b.add_unsigned_coin_input(spec.wallets[wj].secret, u2, c2.amount, c2.asset, c2.tx_pointer);
                b.add_output(Output::change(spec.wallets[wj].address, 0, base));
                st.reserved_coins.insert(u2);
                fee_coin_amount = c2.amount;
            }
            let to = spec.wallets[ctx.tape.below(spec.wallets.len())].address;
            let send = if want_base { coin.amount / (2 + ctx.tape.choose(3)) } else { coin.amount / 2 };
            if send > 0 {
                b.add_output(Output::coin(to, send, coin.asset));
            }
            b.add_output(Output::change(spec.wallets[wi].address, 0, coin.asset));
            let mut expect = Expect::Success;
            let mut desc = format!("transfer w{wi} {} of {}", send, coin.amount);
            let budget = if want_base { coin.amount - send } else { fee_coin_amount };
            match kind {
                12 => {
                    b.max_fee_limit(0);
                    expect = if spec.gas_price > 0 { Expect::Skipped } else { Expect::Any };
                    desc = format!("fee-too-low {desc}");
                }
                13 => {
                    b.max_fee_limit(budget / 2);
                    if ctx.tape.coin() {
                        b.maturity(BlockHeight::from(height + 1 + ctx.tape.choose(3) as u32));
                        desc = format!("immature {desc}");
                    } else if height > 0 {
                        b.expiration(BlockHeight::from(height - 1 - ctx.tape.choose(height.min(3) as u64) as u32));
                        desc = format!("expired {desc}");
                    }
                    expect = Expect::Skipped;
                }
                _ => {
                    b.max_fee_limit(budget / 2);
                    // a tiny budget may not cover the fee: no expectation then
                    if budget < 100_000 && spec.gas_price > 0 {
                        expect = Expect::Any;
                    }
                }
            }
            if ctx.tape.chance(1, 4) {
                b.tip(ctx.tape.choose(10));
            }
            st.reserved_coins.insert(utxo);
            Some(GenTx { tx: b.finalize_as_transaction(), desc, expect, touches_contracts: false })
        }
        1..=5 => {
            let (wi, utxo, coin) = pick_coin(ctx, spec, tables, st, true, 1_000_000)?;
            let c = &spec.contracts;
            let mut used = Vec::new();
            let (calls, ending, name): (Vec<CallSpec>, Ending, &str) = match kind {
                1 | 2 => {
                    let n = 1 + ctx.tape.below(3);
                    let calls: Vec<CallSpec> = (0..n)
                        .map(|_| CallSpec {
                            contract: c.sww,
                            a: 1 + ctx.tape.choose(1000),
                            b: ctx.tape.choose(4),
                            forward: 0,
                            asset: base,
                        })
                        .collect();
                    used.push(c.sww);
                    if kind == 1 {
                        (calls, Ending::Ret, "sww")
                    } else {
                        let cut = ctx.tape.below(n + 1);
                        let e = if ctx.tape.coin() { Ending::Revert } else { Ending::Panic };
                        (calls[..cut].to_vec(), e, "sww-then-fail")
                    }
                }
                3 => {
                    used.push(c.sww);
                    used.push(c.sww_rvrt);
                    (
                        vec![
                            CallSpec { contract: c.sww, a: 7, b: ctx.tape.choose(4), forward: 0, asset: base },
                            CallSpec { contract: c.sww_rvrt, a: 9, b: ctx.tape.choose(4), forward: 0, asset: base },
                        ],
                        Ending::Ret,
                        "call-reverting-contract",
                    )
                }
                4 => {
                    used.push(c.smo);
                    let amt = 1 + ctx.tape.choose(1000) as u32;
                    let fail = ctx.tape.chance(1, 3);
                    (
                        vec![CallSpec { contract: c.smo, a: amt as u64, b: 0, forward: amt, asset: base }],
                        if fail { Ending::Revert } else { Ending::Ret },
                        "smo",
                    )
                }
                _ => {
                    used.push(c.mint);
                    let fail = ctx.tape.chance(1, 3);
                    (
                        vec![CallSpec { contract: c.mint, a: 1 + ctx.tape.choose(100), b: 0, forward: 0, asset: base }],
                        if fail { Ending::Panic } else { Ending::Ret },
                        "mint",
                    )
                }
            };
            let (script, data) = asm::script_calls(&calls, ending, ctx.tape.chance(1, 3));
            let mut b = base_builder(spec, script, data);
            b.script_gas_limit(gas_limit);
            b.max_fee_limit(coin.amount / 2);
            b.add_unsigned_coin_input(spec.wallets[wi].secret, utxo, coin.amount, coin.asset, coin.tx_pointer);
            for id in &used {
                add_contract(&mut b, *id);
            }
            b.add_output(Output::change(spec.wallets[wi].address, 0, base));
            st.reserved_coins.insert(utxo);
            let expect = if kind == 3 || ending != Ending::Ret { Expect::Failure } else { Expect::Success };
            Some(GenTx {
                tx: b.finalize_as_transaction(),
                desc: format!("script {name} calls={} ending={ending:?} w{wi}", calls.len()),
                expect,
                touches_contracts: !calls.is_empty(),
            })
        }
        6 => {
            let (wi, utxo, coin) = pick_coin(ctx, spec, tables, st, true, 1_000_000)?;
            st.salt_counter += 1;
            let mut salt = [0u8; 32];
            salt[..8].copy_from_slice(&st.salt_counter.to_be_bytes());
            salt[8] = ctx.tape.choose(256) as u8;
            let salt = Salt::from(salt);
            let code = asm::contract_sww(ctx.tape.coin());
            let contract = Contract::from(code.clone());
            let root = contract.root();
            let state_root = Contract::default_state_root();
            let id = contract_id_of(&code, salt);
            let mut b = TransactionBuilder::create(Witness::from(code), salt, vec![]);
            b.with_params(spec.params.clone());
            b.max_fee_limit(coin.amount / 2);
            b.add_unsigned_coin_input(spec.wallets[wi].secret, utxo, coin.amount, coin.asset, coin.tx_pointer);
            b.add_output(Output::change(spec.wallets[wi].address, 0, base));
            b.add_output(Output::contract_created(id, state_root));
            let _ = root;
            st.reserved_coins.insert(utxo);
            Some(GenTx {
                tx: b.finalize_as_transaction(),
                desc: format!("create contract w{wi}"),
                expect: Expect::Success,
                touches_contracts: false,
            })
        }
        7 => {
            let cands: Vec<_> = tables
                .messages
                .iter()
                .filter(|(n, m)| !st.reserved_msgs.contains(*n) && wallet_index(spec, &m.recipient).is_some())
                .collect();
            if cands.is_empty() {
                return None;
            }
            let (nonce, m) = cands[ctx.tape.below(cands.len())];
            let wi = wallet_index(spec, &m.recipient).unwrap();
            let retryable = !m.data.is_empty();
            // a retryable message cannot pay fees: add a coin for that
            let fail = ctx.tape.chance(1, 2);
            let (script, data) = asm::script_calls(&[], if fail { Ending::Revert } else { Ending::Ret }, false);
            let mut b = base_builder(spec, script, data);
            b.script_gas_limit(gas_limit.min(100_000));
            b.add_unsigned_message_input(spec.wallets[wi].secret, m.sender, *nonce, m.amount, m.data.clone());
            let mut budget = m.amount;
            if retryable {
                let (wj, u2, c2) = pick_coin(ctx, spec, tables, st, true, 1_000_000)?;
                b.add_unsigned_coin_input(spec.wallets[wj].secret, u2, c2.amount, c2.asset, c2.tx_pointer);
                st.reserved_coins.insert(u2);
                budget = c2.amount;
            }
            b.max_fee_limit(budget / 2);
            b.add_output(Output::change(spec.wallets[wi].address, 0, base));
            st.reserved_msgs.insert(*nonce);
            Some(GenTx {
                tx: b.finalize_as_transaction(),
                desc: format!("message spend retryable={retryable} fail={fail} w{wi}"),
                expect: if fail { Expect::Failure } else { Expect::Success },
                touches_contracts: false,
            })
        }
        8 | 9 => {
            // an input that does not exist, or whose fields disagree with the stored coin
            let (wi, utxo, coin) = pick_coin(ctx, spec, tables, st, true, 1_000)?;
            let mut b = base_builder(spec, vec![], vec![]);
            b.script_gas_limit(10_000);
            b.max_fee_limit(coin.amount / 2);
            let desc;
            if kind == 8 {
                let fake = UtxoId::new(Bytes32::from([0xEE; 32]), ctx.tape.choose(4) as u16);
                b.add_unsigned_coin_input(spec.wallets[wi].secret, fake, coin.amount, coin.asset, coin.tx_pointer);
                desc = "missing-input".to_string();
            } else {
                let which = ctx.tape.below(3);
                let (amount, asset, secret) = match which {
                    0 => (coin.amount + 1, coin.asset, spec.wallets[wi].secret),
                    1 => (coin.amount, spec.alt_asset, spec.wallets[wi].secret),
                    _ => (coin.amount, coin.asset, spec.wallets[(wi + 1) % spec.wallets.len()].secret),
                };
                b.add_unsigned_coin_input(secret, utxo, amount, asset, coin.tx_pointer);
                desc = format!("mismatching-input field={which}");
                // the real coin is not consumed: do not reserve it
            }
            b.add_output(Output::change(spec.wallets[wi].address, 0, base));
            Some(GenTx { tx: b.finalize_as_transaction(), desc, expect: Expect::Skipped, touches_contracts: false })
        }
        10 => {
            // spend something that is already reserved in this block, or was spent in the past
            let same_block = ctx.tape.coin() || st.spent_coins.is_empty();
            let (wi, utxo, coin) = if same_block {
                let reserved: Vec<_> = tables
                    .coins
                    .iter()
                    .filter(|(id, c)| st.reserved_coins.contains(id) && c.asset == base && wallet_index(spec, &c.owner).is_some())
                    .collect();
                if reserved.is_empty() {
                    return None;
                }
                let (id, c) = reserved[ctx.tape.below(reserved.len())];
                (wallet_index(spec, &c.owner).unwrap(), *id, c.clone())
            } else {
                let (id, c, wi) = st.spent_coins[ctx.tape.below(st.spent_coins.len())].clone();
                (wi, id, c)
            };
            let mut b = base_builder(spec, vec![], vec![]);
            b.script_gas_limit(10_000 + ctx.tape.choose(100)); // makes the id differ from the first spender
            b.max_fee_limit(coin.amount / 2);
            b.add_unsigned_coin_input(spec.wallets[wi].secret, utxo, coin.amount, coin.asset, coin.tx_pointer);
            b.add_output(Output::change(spec.wallets[wi].address, 0, base));
            Some(GenTx {
                tx: b.finalize_as_transaction(),
                desc: format!("double-spend same_block={same_block}"),
                // the first spender may itself have been skipped: only stale spends are certain
                expect: if same_block { Expect::Any } else { Expect::Skipped },
                touches_contracts: false,
            })
        }
        _ => {
            if st.executed.is_empty() {
                return None;
            }
            let tx = st.executed[ctx.tape.below(st.executed.len())].clone();
            Some(GenTx {
                desc: format!("resubmit executed tx {}", tx.id(&spec.params.chain_id())),
                tx,
                expect: Expect::Skipped,
                touches_contracts: false,
            })
        }
    }
}
