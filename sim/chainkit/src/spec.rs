//! Tape-generated chain specification: consensus parameters (tiny limits so that block limits
//! are reached), keys, genesis coins / messages / contracts.

use crate::asm;
use fuel_core_chain_config::{
    ChainConfig,
    CoinConfig,
    ConsensusConfig,
    ContractConfig,
    MessageConfig,
    StateConfig,
};
use fuel_core_types::{
    blockchain::primitives::DaBlockHeight,
    fuel_crypto::SecretKey,
    fuel_tx::{
        Address,
        AssetId,
        Bytes32,
        ConsensusParameters,
        Contract,
        ContractId,
        FeeParameters,
        Input,
        Salt,
        TxParameters,
    },
    fuel_types::Nonce,
};
use sha2::{
    Digest,
    Sha256,
};
use simkit::Ctx;

#[derive(Clone)]
pub struct Wallet {
    pub secret: SecretKey,
    pub address: Address,
}

pub fn secret_from_index(tag: &str, i: u64) -> SecretKey {
    let mut n = 0u64;
    loop {
        let mut h = Sha256::new();
        h.update(tag.as_bytes());
        h.update(i.to_be_bytes());
        h.update(n.to_be_bytes());
        let bytes: [u8; 32] = h.finalize().into();
        if let Ok(s) = SecretKey::try_from(&bytes[..]) {
            return s;
        }
        n += 1;
    }
}

#[derive(Clone, Debug)]
pub struct Contracts {
    pub sww: ContractId,
    pub sww_rvrt: ContractId,
    pub smo: ContractId,
    pub mint: ContractId,
    pub coinbase: ContractId,
}

#[derive(Clone)]
pub struct ChainSpec {
    pub params: ConsensusParameters,
    pub chain_config: ChainConfig,
    pub state: StateConfig,
    pub wallets: Vec<Wallet>,
    pub poa: Wallet,
    pub contracts: Contracts,
    pub alt_asset: AssetId,
    pub gas_price: u64,
    pub coinbase_recipient: Option<ContractId>,
}

pub fn contract_id_of(code: &[u8], salt: Salt) -> ContractId {
    let contract = Contract::from(code.to_vec());
    let root = contract.root();
    let state_root = Contract::default_state_root();
    Contract::id(&salt, &root, &state_root)
}

fn contract_config(code: Vec<u8>, n: u8) -> ContractConfig {
    let salt = Salt::from([n; 32]);
    ContractConfig {
        contract_id: contract_id_of(&code, salt),
        code,
        tx_id: Bytes32::from([0xC0 | n; 32]),
        output_index: 0,
        tx_pointer_block_height: 0u32.into(),
        tx_pointer_tx_idx: 0,
        states: vec![],
        balances: vec![],
    }
}

impl ChainSpec {
    pub fn generate(ctx: &mut Ctx) -> Self {
        let mut params = ConsensusParameters::default();
        // --- limits: small, so the block limits are reached ---
        let max_gas_per_tx = *ctx.tape.pick(&[2_000_000u64, 400_000, 1_000_000, 10_000_000]);
        let block_gas_limit = max_gas_per_tx.saturating_mul(1 + ctx.tape.choose(4));
        let tx_params = TxParameters::default().with_max_gas_per_tx(max_gas_per_tx);
        params.set_tx_params(tx_params);
        params.set_block_gas_limit(block_gas_limit);
        let size_limit = *ctx.tape.pick(&[260_096u64, 4_000, 12_000, 1_500]);
        params.set_block_transaction_size_limit(size_limit);
        let fee = FeeParameters::default()
            .with_gas_price_factor(*ctx.tape.pick(&[1u64, 1, 10, 1000]))
            .with_gas_per_byte(*ctx.tape.pick(&[0u64, 1, 4, 63]));
        params.set_fee_params(fee);
        let gas_price = *ctx.tape.pick(&[0u64, 1, 1, 2, 5]);

        let wallets: Vec<Wallet> = (0..3)
            .map(|i| {
                let secret = secret_from_index("wallet", i);
                Wallet {
                    address: Input::owner(&secret.public_key()),
                    secret,
                }
            })
            .collect();
        let poa_secret = secret_from_index("poa", 0);
        let poa = Wallet {
            address: Input::owner(&poa_secret.public_key()),
            secret: poa_secret,
        };
        let alt_asset = AssetId::from([0xA5; 32]);
        let base = *params.base_asset_id();

        // --- genesis state ---
        let mut coins = Vec::new();
        let mut n = 0u8;
        for w in &wallets {
            let k = 3 + ctx.tape.choose(4);
            for _ in 0..k {
                n += 1;
                let amount = match ctx.tape.choose(4) {
                    0 => 1 + ctx.tape.choose(50),
                    1 => 1_000 + ctx.tape.choose(10_000),
                    _ => 10_000_000 + ctx.tape.choose(100_000_000),
                };
                coins.push(CoinConfig {
                    tx_id: Bytes32::from([n; 32]),
                    output_index: ctx.tape.choose(3) as u16,
                    tx_pointer_block_height: 0u32.into(),
                    tx_pointer_tx_idx: 0,
                    owner: w.address.into(),
                    amount,
                    asset_id: if ctx.tape.chance(1, 5) { alt_asset } else { base },
                });
            }
        }
        let mut messages = Vec::new();
        let nmsg = ctx.tape.choose(4);
        for i in 0..nmsg {
            let w = &wallets[ctx.tape.below(wallets.len())];
            let retryable = ctx.tape.coin();
            messages.push(MessageConfig {
                sender: Address::from([0x51; 32]),
                recipient: w.address,
                nonce: Nonce::from([0x80 | (i as u8); 32]),
                amount: 1_000_000 + ctx.tape.choose(1_000_000),
                data: if retryable { vec![1, 2, 3, i as u8] } else { vec![] },
                da_height: DaBlockHeight(0),
            });
        }
        let sww = contract_config(asm::contract_sww(false), 1);
        let sww_rvrt = contract_config(asm::contract_sww(true), 2);
        let smo = contract_config(asm::contract_smo(), 3);
        let mint = contract_config(asm::contract_mint(), 4);
        let coinbase = contract_config(vec![0x24, 0, 0, 0], 5); // `ret $zero`
        let contracts = Contracts {
            sww: sww.contract_id,
            sww_rvrt: sww_rvrt.contract_id,
            smo: smo.contract_id,
            mint: mint.contract_id,
            coinbase: coinbase.contract_id,
        };
        let state = StateConfig {
            coins,
            messages,
            blobs: vec![],
            contracts: vec![sww, sww_rvrt, smo, mint, coinbase],
            last_block: None,
        };
        let mut chain_config = ChainConfig::local_testnet();
        chain_config.consensus_parameters = params.clone();
        chain_config.consensus = ConsensusConfig::PoA {
            signing_key: poa.address,
        };
        let coinbase_recipient = if ctx.tape.chance(2, 3) {
            Some(contracts.coinbase)
        } else {
            None
        };
        ChainSpec {
            params,
            chain_config,
            state,
            wallets,
            poa,
            contracts,
            alt_asset,
            gas_price,
            coinbase_recipient,
        }
    }

    pub fn describe(&self) -> String {
        format!(
            "block_gas_limit={} max_gas_per_tx={} size_limit={} gas_price_factor={} gas_per_byte={} gas_price={} coins={} messages={} coinbase={}",
            self.params.block_gas_limit(),
            self.params.tx_params().max_gas_per_tx(),
            self.params.block_transaction_size_limit(),
            self.params.fee_params().gas_price_factor(),
            self.params.fee_params().gas_per_byte(),
            self.gas_price,
            self.state.coins.len(),
            self.state.messages.len(),
            self.coinbase_recipient.is_some(),
        )
    }
}
