//! Table scans of the on-chain database (coins, messages, processed ids) used both to drive
//! the transaction generator and as the independent side of the UTXO oracles.

use crate::node::OnChainDb;
use fuel_core_storage::{
    iter::IteratorOverTable,
    tables::{
        Coins,
        Messages,
        ProcessedTransactions,
    },
};
use fuel_core_types::{
    entities::{
        coins::coin::CompressedCoin,
        relayer::message::Message,
    },
    fuel_tx::{
        Address,
        AssetId,
        TxId,
        TxPointer,
        UtxoId,
    },
    fuel_types::Nonce,
};
use std::collections::{
    BTreeMap,
    BTreeSet,
};

#[derive(Clone, Debug, PartialEq, Eq)]
pub struct CoinInfo {
    pub owner: Address,
    pub amount: u64,
    pub asset: AssetId,
    pub tx_pointer: TxPointer,
}

#[derive(Clone, Debug, PartialEq, Eq)]
pub struct MsgInfo {
    pub sender: Address,
    pub recipient: Address,
    pub amount: u64,
    pub data: Vec<u8>,
    pub da_height: u64,
}

#[derive(Clone, Debug, Default, PartialEq, Eq)]
pub struct Tables {
    pub coins: BTreeMap<UtxoId, CoinInfo>,
    pub messages: BTreeMap<Nonce, MsgInfo>,
}

fn coin_info(c: &CompressedCoin) -> CoinInfo {
    CoinInfo {
        owner: *c.owner(),
        amount: *c.amount(),
        asset: *c.asset_id(),
        tx_pointer: *c.tx_pointer(),
    }
}

fn msg_info(m: &Message) -> MsgInfo {
    MsgInfo {
        sender: *m.sender(),
        recipient: *m.recipient(),
        amount: m.amount(),
        data: m.data().to_vec(),
        da_height: m.da_height().0,
    }
}

pub fn scan(db: &OnChainDb) -> Tables {
    let mut t = Tables::default();
    for item in db.iter_all::<Coins>(None) {
        let (k, v) = item.expect("coins iteration");
        t.coins.insert(k, coin_info(&v));
    }
    for item in db.iter_all::<Messages>(None) {
        let (k, v) = item.expect("messages iteration");
        t.messages.insert(k, msg_info(&v));
    }
    t
}

pub fn processed_ids(db: &OnChainDb) -> BTreeSet<TxId> {
    db.iter_all_keys::<ProcessedTransactions>(None)
        .map(|r| r.expect("processed iteration"))
        .collect()
}
