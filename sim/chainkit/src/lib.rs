//! chainkit — shared library for the chain worlds (W1 family).
pub mod asm;
pub mod ledger;
pub mod node;
pub mod spec;
pub mod txgen;

/// Paused current-thread tokio runtime seeded from the run (discrete-event time).
pub fn runtime(seed: u64) -> tokio::runtime::Runtime {
    let mut b = [0u8; 32];
    b[..8].copy_from_slice(&seed.to_le_bytes());
    tokio::runtime::Builder::new_current_thread()
        .enable_time()
        .start_paused(true)
        .rng_seed(tokio::runtime::RngSeed::from_bytes(&b))
        .build()
        .expect("runtime")
}
