//! A node: real `CombinedDatabase`, real upgradable `Executor` (native or WASM strategy), real
//! `Importer` with the real PoA `Verifier`, and the simulated ports around them.

use crate::spec::ChainSpec;
use fuel_core::{
    combined_database::CombinedDatabase,
    database::{
        Database,
        database_description::{
            on_chain::OnChain,
            relayer::Relayer,
        },
    },
    service::{
        Config,
        adapters::{
            VerifierAdapter,
            block_importer::NoopBlockReconciliationWriteAdapter,
        },
        genesis::execute_and_commit_genesis_block,
    },
};
use fuel_core_executor::{
    executor::WaitNewTransactionsResult,
    ports::{
        MaybeCheckedTransaction,
        NewTxWaiterPort,
        PreconfirmationSenderPort,
        TransactionsSource,
    },
};
use fuel_core_importer::{
    Importer,
    ports::Validator,
};
use fuel_core_storage::{
    column::Column,
    iter::{
        IterDirection,
        IterableStore,
    },
    kv_store::StorageColumn,
    transactional::Changes,
};
use fuel_core_types::{
    blockchain::{
        SealedBlock,
        block::Block,
        consensus::{
            Consensus,
            poa::PoAConsensus,
        },
    },
    fuel_crypto::{
        Message,
        SecretKey,
        Signature,
    },
    fuel_tx::Transaction,
    services::{
        block_producer::Components,
        executor::{
            Result as ExecutorResult,
            UncommittedResult,
            UncommittedValidationResult,
        },
        preconfirmation::Preconfirmation,
    },
};
use fuel_core_upgradable_executor::{
    config::Config as ExecConfig,
    executor::Executor,
};
use std::sync::{
    Arc,
    Mutex,
    atomic::{
        AtomicBool,
        AtomicU64,
        Ordering,
    },
};

pub type OnChainDb = Database<OnChain>;
pub type RelayerDb = Database<Relayer>;
pub type Exec = Executor<OnChainDb, RelayerDb>;

#[derive(Clone, Copy, PartialEq, Eq, Debug)]
pub enum Strategy {
    Native,
    Wasm,
}

/// What the adversarial transaction source hands to the executor.
#[derive(Default)]
pub struct SourceScript {
    /// successive answers of `next()`; after the last one the source is empty
    pub batches: Vec<Vec<Transaction>>,
    /// every call of `next(gas, count, size)` as seen by the source
    pub asked: Vec<(u64, u16, u32)>,
}

#[derive(Clone, Default)]
pub struct SimSource {
    pub inner: Arc<Mutex<SourceScript>>,
}

impl SimSource {
    pub fn new(batches: Vec<Vec<Transaction>>) -> Self {
        SimSource {
            inner: Arc::new(Mutex::new(SourceScript {
                batches,
                asked: vec![],
            })),
        }
    }
}

impl TransactionsSource for SimSource {
    fn next(&self, gas_limit: u64, tx_count_limit: u16, size_limit: u32) -> Vec<MaybeCheckedTransaction> {
        let mut g = self.inner.lock().unwrap();
        g.asked.push((gas_limit, tx_count_limit, size_limit));
        if g.batches.is_empty() {
            return vec![];
        }
        g.batches
            .remove(0)
            .into_iter()
            .map(MaybeCheckedTransaction::Transaction)
            .collect()
    }
}

/// Reports `NewTransaction` a scripted number of times, then `Timeout`.
pub struct SimWaiter {
    pub new_tx_times: u32,
}

impl NewTxWaiterPort for SimWaiter {
    async fn wait_for_new_transactions(&mut self) -> WaitNewTransactionsResult {
        if self.new_tx_times > 0 {
            self.new_tx_times -= 1;
            WaitNewTransactionsResult::NewTransaction
        } else {
            WaitNewTransactionsResult::Timeout
        }
    }
}

/// Preconfirmation sender that lets `try_send` return leftovers a scripted number of times.
#[derive(Clone, Default)]
pub struct SimPreconfSender {
    pub refuse_try_send: Arc<AtomicU64>,
    pub sent: Arc<Mutex<Vec<Preconfirmation>>>,
}

impl PreconfirmationSenderPort for SimPreconfSender {
    fn try_send(&self, preconfirmations: Vec<Preconfirmation>) -> Vec<Preconfirmation> {
        let n = self.refuse_try_send.load(Ordering::SeqCst);
        if n > 0 {
            self.refuse_try_send.store(n - 1, Ordering::SeqCst);
            return preconfirmations;
        }
        self.sent.lock().unwrap().extend(preconfirmations);
        vec![]
    }
    async fn send(&self, preconfirmations: Vec<Preconfirmation>) {
        self.sent.lock().unwrap().extend(preconfirmations);
    }
}

/// The executor as seen by importer and producer, with switchable faults.
#[derive(Clone)]
pub struct ExecPort {
    pub exec: Arc<Exec>,
    pub fail_next_validate: Arc<AtomicBool>,
    pub waiter_new_tx_times: Arc<AtomicU64>,
    pub sender: SimPreconfSender,
}

impl ExecPort {
    /// Non-generic entry points: the executor's generic code is instantiated once, here.
    pub fn validate_block(
        &self,
        block: &Block,
    ) -> ExecutorResult<UncommittedValidationResult<Changes>> {
        self.exec.validate(block)
    }

    pub fn produce_once(
        &self,
        comp: Components<fuel_core_executor::executor::OnceTransactionsSource>,
    ) -> ExecutorResult<UncommittedResult<Changes>> {
        self.exec.produce_without_commit_with_source_direct_resolve(comp)
    }
}

impl Validator for ExecPort {
    fn validate(&self, block: &Block) -> ExecutorResult<UncommittedValidationResult<Changes>> {
        if self.fail_next_validate.swap(false, Ordering::SeqCst) {
            return Err(fuel_core_types::services::executor::Error::Other(
                "injected validator failure".into(),
            ));
        }
        self.exec.validate(block)
    }
}

impl fuel_core_producer::ports::BlockProducer<SimSource> for ExecPort {
    type Deadline = ();
    async fn produce_without_commit(
        &self,
        component: Components<SimSource>,
        _deadline: (),
    ) -> ExecutorResult<UncommittedResult<Changes>> {
        let waiter = SimWaiter {
            new_tx_times: self.waiter_new_tx_times.swap(0, Ordering::SeqCst) as u32,
        };
        self.exec
            .produce_without_commit_with_source(component, waiter, self.sender.clone())
            .await
    }
}

impl fuel_core_producer::ports::DryRunner for ExecPort {
    fn dry_run(
        &self,
        block: Components<Vec<Transaction>>,
        forbid_fake_coins: Option<bool>,
        at_height: Option<fuel_core_types::fuel_types::BlockHeight>,
        record_storage_read_replay: bool,
    ) -> ExecutorResult<fuel_core_types::services::executor::DryRunResult> {
        self.exec
            .dry_run(block, forbid_fake_coins, at_height, record_storage_read_replay)
    }
}

pub struct Node {
    pub name: String,
    pub strategy: Strategy,
    pub db: CombinedDatabase,
    pub exec: ExecPort,
    pub importer: Arc<Importer>,
    pub verifier: VerifierAdapter,
    pub spec: ChainSpec,
}

fn exec_config() -> ExecConfig {
    ExecConfig {
        forbid_fake_coins_default: true,
        allow_syscall: true,
        native_executor_version: None,
        allow_historical_execution: true,
    }
}

impl Node {
    /// Fresh in-memory node started from the generated genesis through the real genesis path.
    pub async fn genesis(spec: &ChainSpec, name: &str, strategy: Strategy) -> anyhow::Result<Node> {
        let db = CombinedDatabase::in_memory();
        let config = Config::local_node_with_configs(spec.chain_config.clone(), spec.state.clone());
        execute_and_commit_genesis_block(&config, &db).await?;
        Ok(Self::from_db(spec, name, strategy, db))
    }

    /// (Re)build all in-memory components over the durable state `db` (a restart).
    pub fn from_db(spec: &ChainSpec, name: &str, strategy: Strategy, db: CombinedDatabase) -> Node {
        let on_chain = db.on_chain().clone();
        let relayer = db.relayer().clone();
        let exec = match strategy {
            Strategy::Native => Exec::native(on_chain.clone(), relayer, exec_config()),
            Strategy::Wasm => Exec::wasm(on_chain.clone(), relayer, exec_config()),
        };
        let exec = ExecPort {
            exec: Arc::new(exec),
            fail_next_validate: Default::default(),
            waiter_new_tx_times: Default::default(),
            sender: Default::default(),
        };
        let genesis_block = {
            use fuel_core_storage::transactional::AtomicView;
            on_chain
                .latest_view()
                .expect("view")
                .genesis_block()
                .expect("genesis block read")
                .expect("genesis block exists")
        };
        let verifier = VerifierAdapter::new(&genesis_block, spec.chain_config.consensus.clone(), on_chain.clone());
        let importer = Importer::new(
            spec.params.chain_id(),
            fuel_core_importer::Config::new(false),
            on_chain,
            exec.clone(),
            verifier.clone(),
            NoopBlockReconciliationWriteAdapter,
        );
        Node {
            name: name.to_string(),
            strategy,
            db,
            exec,
            importer: Arc::new(importer),
            verifier,
            spec: spec.clone(),
        }
    }

    pub fn restart(self) -> Node {
        let Node { name, strategy, db, spec, .. } = self;
        Self::from_db(&spec, &name, strategy, db)
    }

    pub fn height(&self) -> u32 {
        use fuel_core_storage::transactional::HistoricalView;
        self.db.on_chain().latest_height().map(|h| *h).unwrap_or(0)
    }
}

pub fn seal(secret: &SecretKey, block: &Block) -> SealedBlock {
    let id = block.id();
    let message = Message::from_bytes(id.into_message().into());
    let signature = Signature::sign(secret, &message);
    SealedBlock {
        entity: block.clone(),
        consensus: Consensus::PoA(PoAConsensus::new(signature)),
    }
}

/// Full content of a database as sorted (column, key, value) triples. The metadata column is
/// left out: its value serialises a `HashSet` (indexation availability) in hash order, which
/// differs between processes and nodes without any difference in state.
pub fn dump_on_chain(db: &OnChainDb) -> Vec<(u32, Vec<u8>, Vec<u8>)> {
    let mut out = Vec::new();
    for c in enum_all_columns() {
        if c == Column::Metadata {
            continue;
        }
        for item in db.iter_store(c, None, None, IterDirection::Forward) {
            let (k, v) = item.expect("iteration");
            out.push((c.id(), k, v.to_vec()));
        }
    }
    out
}

pub fn enum_all_columns() -> Vec<Column> {
    enum_iterator::all::<Column>().collect()
}

pub fn hash_dump(d: &[(u32, Vec<u8>, Vec<u8>)]) -> u64 {
    let mut f = simkit::Fnv::default();
    for (c, k, v) in d {
        f.write(&c.to_be_bytes());
        f.write(&(k.len() as u32).to_be_bytes());
        f.write(k);
        f.write(&(v.len() as u32).to_be_bytes());
        f.write(v);
    }
    f.0
}
