//! Bytecode of the pre-deployed test contracts and the script generator.

use fuel_core_types::{
    fuel_asm::{
        Instruction,
        RegId,
        op,
    },
    fuel_types::canonical::Serialize,
    fuel_tx::{
        AssetId,
        ContractId,
    },
    fuel_vm::{
        Call,
        CallFrame,
    },
};

fn bytes(v: Vec<Instruction>) -> Vec<u8> {
    v.into_iter().collect()
}

fn a_off() -> u16 {
    CallFrame::a_offset().try_into().unwrap()
}
fn b_off() -> u16 {
    CallFrame::b_offset().try_into().unwrap()
}

/// state[key(b)] = a ; the key is the 32-byte word whose first 8 bytes are `b`.
pub fn contract_sww(revert_after: bool) -> Vec<u8> {
    let mut v = vec![
        op::addi(0x10, RegId::FP, a_off()),
        op::lw(0x10, 0x10, 0),
        op::addi(0x11, RegId::FP, b_off()),
        op::lw(0x11, 0x11, 0),
        op::move_(0x12, RegId::SP),
        op::cfei(32),
        op::sw(0x12, 0x11, 0),
        op::sww(0x12, 0x13, 0x10),
    ];
    v.push(if revert_after {
        op::rvrt(RegId::ONE)
    } else {
        op::ret(RegId::ONE)
    });
    bytes(v)
}

/// Transfers `a` of the asset whose id is at memory `b` to the address right after it,
/// into variable output 0 (same program as fuel-core's executor tests use).
pub fn contract_tro() -> Vec<u8> {
    bytes(vec![
        op::addi(0x10, RegId::FP, a_off()),
        op::lw(0x10, 0x10, 0),
        op::addi(0x11, RegId::FP, b_off()),
        op::lw(0x11, 0x11, 0),
        op::addi(0x12, 0x11, 32),
        op::addi(0x13, RegId::ZERO, 0),
        op::tro(0x12, 0x13, 0x10, 0x11),
        op::ret(RegId::ONE),
    ])
}

/// Sends a message out with `a` coins of the base asset (forwarded with the call) to the
/// all-zero recipient, no data.
pub fn contract_smo() -> Vec<u8> {
    bytes(vec![
        op::addi(0x10, RegId::FP, a_off()),
        op::lw(0x10, 0x10, 0),
        op::move_(0x12, RegId::SP),
        op::cfei(32),
        op::smo(0x12, 0x12, RegId::ZERO, 0x10),
        op::ret(RegId::ONE),
    ])
}

/// Mints `a` coins of the contract's zero sub-asset (changes the contract's balances).
pub fn contract_mint() -> Vec<u8> {
    bytes(vec![
        op::addi(0x10, RegId::FP, a_off()),
        op::lw(0x10, 0x10, 0),
        op::move_(0x12, RegId::SP),
        op::cfei(32),
        op::mint(0x10, 0x12),
        op::ret(RegId::ONE),
    ])
}

#[derive(Clone, Copy, Debug, PartialEq, Eq)]
pub enum Ending {
    Ret,
    Revert,
    Panic,
}

#[derive(Clone, Debug)]
pub struct CallSpec {
    pub contract: ContractId,
    pub a: u64,
    pub b: u64,
    /// coins forwarded with the call (< 2^18)
    pub forward: u32,
    pub asset: AssetId,
}

/// A straight-line script: a sequence of contract calls, cut after `cut` calls by `ending`.
/// Returns (script bytes, script data). The data of call k lives at `$is + padded(script) + 80k`:
/// [asset id (32)][Call struct (48)], and for TRO calls the caller puts [asset][address] at
/// an extra area addressed through `b` (see `tro_data`).
pub fn script_calls(calls: &[CallSpec], ending: Ending, log_first: bool) -> (Vec<u8>, Vec<u8>) {
    // number of instructions: optional log + 4 per call + 1 ending
    let n_instr = calls.len() * 5 + 1 + usize::from(log_first);
    let script_len = n_instr * 4;
    let padded = script_len.div_ceil(8) * 8;
    let mut v: Vec<Instruction> = Vec::new();
    if log_first {
        v.push(op::log(RegId::ONE, RegId::ZERO, RegId::ZERO, RegId::ZERO));
    }
    let mut data = Vec::new();
    for (k, c) in calls.iter().enumerate() {
        let base = padded + k * 80;
        assert!(base + 32 < 4096, "script too long for 12-bit immediates");
        v.push(op::addi(0x11, RegId::IS, base as u16));
        v.push(op::addi(0x10, RegId::IS, (base + 32) as u16));
        v.push(op::movi(0x12, c.forward));
        v.push(op::call(0x10, 0x12, 0x11, RegId::CGAS));
        v.push(op::noop());
        data.extend_from_slice(c.asset.as_ref());
        data.extend_from_slice(&Call::new(c.contract, c.a, c.b).to_bytes());
    }
    v.push(match ending {
        Ending::Ret => op::ret(RegId::ONE),
        Ending::Revert => op::rvrt(RegId::ONE),
        Ending::Panic => op::div(0x10, RegId::ONE, RegId::ZERO),
    });
    assert_eq!(v.len(), n_instr);
    (bytes(v), data)
}

/// A script whose receipts depend on the time of the block it is executed in:
/// `log(time(height), height)` of the block being built, then `ret 1`.
pub fn script_log_block_time() -> Vec<u8> {
    bytes(vec![
        op::bhei(0x10),
        op::time(0x11, 0x10),
        op::log(0x11, 0x10, RegId::ZERO, RegId::ZERO),
        op::ret(RegId::ONE),
    ])
}

/// A script that never returns: it burns its whole gas limit and panics with OutOfGas.
pub fn script_burn_all_gas() -> Vec<u8> {
    bytes(vec![op::ji(0)])
}

/// A trivial predicate that evaluates to true.
pub fn predicate_true() -> Vec<u8> {
    bytes(vec![op::ret(RegId::ONE)])
}
/// A predicate that evaluates to false.
pub fn predicate_false() -> Vec<u8> {
    bytes(vec![op::ret(RegId::ZERO)])
}
