//! Compression world (C33, C14 monitor): every block of a chain built by the real producer /
//! executor / importer is compressed in order by the REAL compression service
//! (`fuel_core_compression_service::service::new_service` under its `ServiceRunner`: catch-up
//! `sync_previously_produced_blocks`, live stream from the real importer broadcast through
//! fuel-core's `CompressionBlockDBAdapter`, `compress` with the real temporal registry over
//! `Database<CompressionDatabase>`), read back from the `CompressedBlocks` table and decompressed
//! in order on a second node (own on-chain database one block behind, own registry in its own
//! `Database<CompressionDatabase>`, fuel-core's `DecompressionContext`).
//!
//! Simulated: the compressor's "disk" (`FaultyStore`), a supervisor that stops / restarts the
//! compression service and the node, the clock (block timestamps), a registry pre-history
//! (seeded through the real registry API on both nodes, standing for the 2^24 registrations a
//! run cannot make), the answer to "which UTXO is (height 0, i, j)" for genesis coins.

use crate::{
    chain::{
        Chain,
        ChainKnobs,
        START_TIME,
    },
    faulty::{
        FaultyStore,
        Plan,
    },
    smt::{
        self,
        CompDb,
    },
    txgen_ext,
};
use chainkit::{
    node::{
        Node,
        OnChainDb,
        Strategy,
    },
    spec::ChainSpec,
};
use fuel_core::{
    combined_database::CombinedDatabase,
    database::{
        Database,
        OnChainIterableKeyValueView,
        database_description::compression::CompressionDatabase,
    },
    service::{
        Config,
        adapters::{
            BlockImporterAdapter,
            compression_adapters::CompressionBlockDBAdapter,
        },
        config::DaCompressionConfig,
        genesis::execute_and_commit_genesis_block,
    },
};
use fuel_core_compression::{
    VersionedCompressedBlock,
    decompress::decompress,
    ports::{
        CoinInfo,
        HistoryLookup,
        MessageInfo,
        TemporalRegistry,
    },
};
use fuel_core_compression_service::{
    service::{
        UninitializedCompressionService,
        new_service,
    },
    storage::{
        self,
        CompressedBlocks,
        evictor_cache::MetadataKey,
    },
    temporal_registry::{
        CompressionStorageWrapper,
        DecompressionContext,
    },
};
use fuel_core_services::{
    Service,
    ServiceRunner,
    State,
};
use fuel_core_storage::{
    StorageAsMut,
    StorageAsRef,
    transactional::{
        AtomicView,
        HistoricalView,
        IntoTransaction,
    },
};
use fuel_core_types::{
    blockchain::{
        SealedBlock,
        header::PartialBlockHeader,
    },
    fuel_compression::RegistryKey,
    fuel_tx::{
        Address,
        AssetId,
        CompressedUtxoId,
        ContractId,
        Input,
        Output,
        ScriptCode,
        Transaction,
        UniqueIdentifier,
        UtxoId,
        field::{
            InputContract,
            Inputs,
            OutputContract,
            Outputs,
            ReceiptsRoot,
        },
        input::PredicateCode,
    },
    fuel_types::Nonce,
    tai64::Tai64,
};
use simkit::{
    Ctx,
    Tier,
};
use std::{
    collections::BTreeMap,
    sync::Arc,
    time::Duration,
};

type CompressorRunner = ServiceRunner<UninitializedCompressionService<CompressionBlockDBAdapter, CompDb, OnChainDb>>;

// ---------------------------------------------------------------------------------------------
// the decompressor's database view
// ---------------------------------------------------------------------------------------------

/// fuel-core's `DecompressionContext` (registry in the compression database, history from the
/// on-chain database), except that the UTXO ids of genesis coins are answered by the harness:
/// the genesis block has no transactions to look them up in.
struct SimDecompressDb<'a> {
    inner: DecompressionContext<'a, CompDb, OnChainIterableKeyValueView>,
    genesis_utxos: &'a BTreeMap<(u16, u16), UtxoId>,
}

macro_rules! delegate_registry {
    ($($t:ty),*) => {$(
        impl TemporalRegistry<$t> for SimDecompressDb<'_> {
            fn read_registry(&self, key: &RegistryKey) -> anyhow::Result<$t> {
                <_ as TemporalRegistry<$t>>::read_registry(&self.inner, key)
            }
            fn read_timestamp(&self, key: &RegistryKey) -> anyhow::Result<Tai64> {
                <_ as TemporalRegistry<$t>>::read_timestamp(&self.inner, key)
            }
            fn write_registry(&mut self, key: &RegistryKey, value: &$t, timestamp: Tai64) -> anyhow::Result<()> {
                <_ as TemporalRegistry<$t>>::write_registry(&mut self.inner, key, value, timestamp)
            }
            fn registry_index_lookup(&self, value: &$t) -> anyhow::Result<Option<RegistryKey>> {
                <_ as TemporalRegistry<$t>>::registry_index_lookup(&self.inner, value)
            }
        }
    )*};
}
delegate_registry!(Address, AssetId, ContractId, ScriptCode, PredicateCode);

impl HistoryLookup for SimDecompressDb<'_> {
    fn utxo_id(&self, c: CompressedUtxoId) -> anyhow::Result<UtxoId> {
        if *c.tx_pointer.block_height() == 0 {
            return self
                .genesis_utxos
                .get(&(c.tx_pointer.tx_index(), c.output_index))
                .copied()
                .ok_or_else(|| anyhow::anyhow!("harness: unknown genesis coin {c:?}"));
        }
        self.inner.utxo_id(c)
    }
    fn coin(&self, utxo_id: UtxoId) -> anyhow::Result<CoinInfo> {
        self.inner.coin(utxo_id)
    }
    fn message(&self, nonce: Nonce) -> anyhow::Result<MessageInfo> {
        self.inner.message(nonce)
    }
}

// ---------------------------------------------------------------------------------------------
// "the same transaction": everything that compression carries
// ---------------------------------------------------------------------------------------------

fn strip_inputs(inputs: &mut [Input]) {
    for i in inputs {
        match i {
            Input::CoinSigned(c) => c.tx_pointer = Default::default(),
            Input::CoinPredicate(c) => c.tx_pointer = Default::default(),
            Input::Contract(c) => strip_input_contract(c),
            _ => {}
        }
    }
}

fn strip_input_contract(c: &mut fuel_core_types::fuel_tx::input::contract::Contract) {
    c.utxo_id = Default::default();
    c.balance_root = Default::default();
    c.state_root = Default::default();
    c.tx_pointer = Default::default();
}

fn strip_output_contract(c: &mut fuel_core_types::fuel_tx::output::contract::Contract) {
    c.balance_root = Default::default();
    c.state_root = Default::default();
}

fn strip_outputs(outputs: &mut [Output]) {
    for o in outputs {
        match o {
            Output::Change { amount, .. } => *amount = 0,
            Output::Variable { to, amount, asset_id } => {
                *to = Default::default();
                *amount = 0;
                *asset_id = Default::default();
            }
            Output::Contract(c) => strip_output_contract(c),
            _ => {}
        }
    }
}

/// The fields that block execution fills in (and that DA compression leaves out by design:
/// the `compress(skip)` fields of fuel-tx) are reset; everything else must survive the round trip.
pub fn strip_execution_fields(tx: &Transaction) -> Transaction {
    let mut tx = tx.clone();
    match &mut tx {
        Transaction::Script(t) => {
            *t.receipts_root_mut() = Default::default();
            strip_inputs(t.inputs_mut());
            strip_outputs(t.outputs_mut());
        }
        Transaction::Create(t) => {
            strip_inputs(t.inputs_mut());
            strip_outputs(t.outputs_mut());
        }
        Transaction::Upgrade(t) => {
            strip_inputs(t.inputs_mut());
            strip_outputs(t.outputs_mut());
        }
        Transaction::Upload(t) => {
            strip_inputs(t.inputs_mut());
            strip_outputs(t.outputs_mut());
        }
        Transaction::Blob(t) => {
            strip_inputs(t.inputs_mut());
            strip_outputs(t.outputs_mut());
        }
        Transaction::Mint(t) => {
            strip_input_contract(t.input_contract_mut());
            strip_output_contract(t.output_contract_mut());
        }
    }
    tx
}

// ---------------------------------------------------------------------------------------------
// the world
// ---------------------------------------------------------------------------------------------

#[derive(Debug, Clone)]
struct Knobs {
    fault_free: bool,
    retention: u64,
    stop_restart: bool,
    commit_fail: bool,
    lost_ack: bool,
    read_err: bool,
    node_restart: bool,
    seeded: bool,
    blocks: usize,
}

struct Sim {
    spec: ChainSpec,
    chain: Chain,
    /// the compressor's disk
    store: Arc<FaultyStore<CompressionDatabase>>,
    plan: Plan,
    service: Option<CompressorRunner>,
    /// the decompressing node
    d: Node,
    genesis_utxos: BTreeMap<(u16, u16), UtxoId>,
    originals: BTreeMap<u32, SealedBlock>,
    next_to_decompress: u32,
    k: Knobs,
}

fn open_comp(store: &Arc<FaultyStore<CompressionDatabase>>) -> CompDb {
    // opening reads the metadata: the harness's own reads are not subject to injected faults
    let armed = std::mem::take(&mut *store.plan.lock().unwrap());
    let db = <CompDb>::new(store.clone());
    *store.plan.lock().unwrap() = armed;
    db
}

pub async fn world(ctx: &mut Ctx) {
    let fault_free = ctx.tape.choose(8) == 7;
    let mut k = Knobs {
        fault_free,
        retention: *ctx.tape.pick(&[10u64, 3, 60, 3600]),
        stop_restart: false,
        commit_fail: false,
        lost_ack: false,
        read_err: false,
        node_restart: false,
        seeded: ctx.tape.chance(1, 2),
        blocks: 3 + ctx.tape.below(if ctx.tier == Tier::Thorough { 16 } else { 8 }),
    };
    if !fault_free {
        k.stop_restart = ctx.tape.coin();
        k.commit_fail = ctx.tape.chance(1, 3);
        k.lost_ack = ctx.tape.chance(1, 4);
        k.read_err = ctx.tape.chance(1, 3);
        k.node_restart = ctx.tape.chance(1, 4);
    }
    let chain_knobs = ChainKnobs {
        max_cands: 2 + ctx.tape.choose(6),
        ext_weight: 3 + ctx.tape.choose(5),
        da_rate: 1 + ctx.tape.choose(4),
    };
    ctx.ev(format!("knobs {k:?} {chain_knobs:?}"));
    let mut spec = ChainSpec::generate(ctx);
    txgen_ext::extend_spec(ctx, &mut spec);
    ctx.ev(format!("spec {}", spec.describe()));

    // ---- the two nodes ----
    let (store, plan) = FaultyStore::<CompressionDatabase>::new();
    let p_db = CombinedDatabase::new(
        Database::in_memory(),
        Database::in_memory(),
        Database::in_memory(),
        Database::in_memory(),
        open_comp(&store),
    );
    let chain = Chain::genesis(&spec, p_db, chain_knobs).await;
    let d_db = CombinedDatabase::in_memory();
    let config = Config::local_node_with_configs(spec.chain_config.clone(), spec.state.clone());
    execute_and_commit_genesis_block(&config, &d_db)
        .await
        .unwrap_or_else(|e| panic!("harness: genesis of the decompressor failed: {e:?}"));
    let d = Node::from_db(&spec, "D", Strategy::Native, d_db);
    let mut chain = chain;
    chain.da_mirrors.push(d.db.relayer().clone());
    let genesis_utxos: BTreeMap<(u16, u16), UtxoId> = spec
        .state
        .coins
        .iter()
        .map(|c| ((c.tx_pointer_tx_idx, c.output_index), UtxoId::new(c.tx_id, c.output_index)))
        .collect();
    assert_eq!(genesis_utxos.len(), spec.state.coins.len(), "harness: genesis coins must have unique compressed ids");

    let mut sim = Sim {
        spec: spec.clone(),
        chain,
        store,
        plan,
        service: None,
        d,
        genesis_utxos,
        originals: BTreeMap::new(),
        next_to_decompress: 1,
        k,
    };
    if sim.k.seeded {
        sim.seed_registry(ctx);
    }
    sim.monitor(ctx, "start");
    sim.start_service(ctx).await;
    sim.settle().await;

    for _ in 0..sim.k.blocks {
        if ctx.failed() {
            break;
        }
        sim.faults_between_blocks(ctx).await;
        // block time: mostly close together, sometimes across the retention window
        let r = sim.k.retention;
        let dt = match ctx.tape.weighted(&[8, 2, 2, 1, 1, 1]) {
            0 => ctx.tape.choose(3),
            1 => r / 2,
            2 => r + 1 + ctx.tape.choose(5),
            3 => r,
            4 => r.saturating_sub(1),
            _ => 3 * r,
        };
        if dt > r {
            ctx.probe("block_time_jumps_over_retention");
        }
        sim.arm_storage_faults(ctx);
        let Some(c) = sim.chain.next_block(ctx, dt).await else {
            sim.disarm(ctx);
            continue;
        };
        ctx.sim_ms += dt * 1000;
        sim.originals.insert(c.height, c.sealed.clone());
        sim.settle().await;
        sim.disarm(ctx);
        sim.supervise(ctx).await;
        sim.monitor(ctx, "compressor");
        sim.decompress_available(ctx).await;
    }
    if !ctx.failed() {
        // faults stop; the compressor catches up and every block must have made the round trip
        ctx.ev("faults stop");
        sim.k.commit_fail = false;
        sim.k.lost_ack = false;
        sim.k.read_err = false;
        *sim.plan.lock().unwrap() = Default::default();
        sim.restart_service(ctx, "final").await;
        sim.settle().await;
        sim.monitor(ctx, "compressor/final");
        sim.decompress_available(ctx).await;
        let tip = sim.chain.height();
        ctx.check("C33", "not-all-blocks-round-tripped", sim.next_to_decompress == tip + 1, || {
            format!(
                "after the faults stopped and the compression service was restarted, blocks {}..={tip} have no compressed form (compression database at {:?})",
                sim.next_to_decompress,
                sim.comp_height()
            )
        });
    }
    sim.stop_service(ctx, "end").await;
}

impl Sim {
    fn comp_height(&self) -> Option<u32> {
        HistoricalView::latest_height(&open_comp(&self.store)).map(|h| *h)
    }

    async fn settle(&mut self) {
        tokio::time::sleep(Duration::from_millis(1)).await;
    }

    /// A registry pre-history: entries that an earlier part of the chain's life left behind, and
    /// an evictor that has gone around the key space and is about to hand out these keys again.
    /// Written through the real registry API, identically on both nodes.
    fn seed_registry(&mut self, ctx: &mut Ctx) {
        let base_key: u32 = match ctx.tape.choose(3) {
            0 => 0,
            1 => (1 << 24) - 1 - 1 - ctx.tape.choose(6) as u32, // the last writable keys: wrap-around
            _ => 1000,
        };
        let retention = self.k.retention;
        let key_at = |i: u32| {
            let raw = (base_key + i) % ((1 << 24) - 1);
            RegistryKey::try_from(raw).unwrap()
        };
        // values the chain is going to use, and a few it is not
        let mut addrs: Vec<Address> = self.spec.wallets.iter().map(|w| w.address).collect();
        addrs.push(txgen_ext::predicate_owner(0));
        addrs.push(Address::from([0x99; 32]));
        let assets: Vec<AssetId> = vec![self.spec.alt_asset, AssetId::from(txgen_ext::EXTRA_ASSETS[0]), AssetId::from([0x98; 32])];
        let c = &self.spec.contracts;
        let contracts: Vec<ContractId> = vec![c.sww, c.coinbase, c.smo, ContractId::from([0x97; 32])];
        let preds: Vec<PredicateCode> = (0..txgen_ext::N_PREDICATES).map(|i| PredicateCode::from(txgen_ext::predicate_code(i))).collect();
        let mut plan: Vec<(u8, u32, u64)> = Vec::new(); // (keyspace, slot, age)
        let age = |ctx: &mut Ctx| match ctx.tape.choose(4) {
            0 => 0,
            1 => retention,
            2 => retention + 1 + ctx.tape.choose(10),
            _ => retention / 2,
        };
        for (ks, n) in [(0u8, addrs.len()), (1, assets.len()), (2, contracts.len()), (4, preds.len())] {
            let take = ctx.tape.below(n + 1);
            for slot in 0..take {
                plan.push((ks, slot as u32, age(ctx)));
            }
        }
        let gap = ctx.tape.choose(3) as u32;
        ctx.ev(format!("seed registry base_key={base_key} entries={} evictor_gap={gap}", plan.len()));
        if plan.is_empty() {
            return;
        }
        let p_comp = open_comp(&self.store);
        for (who, db) in [("P", p_comp), ("D", self.d.db.compression().clone())] {
            let mut tx = db.into_transaction();
            {
                let mut w = CompressionStorageWrapper { storage_tx: &mut tx };
                for (ks, slot, age) in &plan {
                    let key = key_at(*slot);
                    let ts = Tai64::from_unix((START_TIME - age) as i64);
                    let r = match ks {
                        0 => w.write_registry(&key, &addrs[*slot as usize], ts),
                        1 => w.write_registry(&key, &assets[*slot as usize], ts),
                        2 => w.write_registry(&key, &contracts[*slot as usize], ts),
                        _ => w.write_registry(&key, &preds[*slot as usize], ts),
                    };
                    r.unwrap_or_else(|e| panic!("harness: seeding the registry failed: {e:?}"));
                }
            }
            if who == "P" {
                // the evictor's last assigned key: just before (or `gap` before) the seeded keys
                let last = RegistryKey::try_from((base_key + (1 << 24) - 1 - 1 - gap) % ((1 << 24) - 1)).unwrap();
                for mk in [MetadataKey::Address, MetadataKey::AssetId, MetadataKey::ContractId, MetadataKey::PredicateCode] {
                    tx.storage_as_mut::<storage::EvictorCache>()
                        .insert(&mk, &last)
                        .expect("harness: seeding the evictor failed");
                }
            }
            tx.commit().expect("harness: seeding commit failed");
        }
        ctx.probe("seeded_registry");
    }

    async fn start_service(&mut self, ctx: &mut Ctx) {
        assert!(self.service.is_none());
        let on_chain = self.chain.node.db.on_chain().clone();
        let importer = BlockImporterAdapter {
            block_importer: self.chain.node.importer.clone(),
            database: on_chain.clone(),
        };
        let source = CompressionBlockDBAdapter::new(importer, on_chain.clone());
        let config = DaCompressionConfig {
            retention_duration: Duration::from_secs(self.k.retention),
            metrics: false,
            starting_height: None,
        };
        let before = self.comp_height();
        ctx.scope("C33");
        ctx.op(format!("compression service start storage={before:?} chain={}", self.chain.height()));
        let runner = match new_service(source, open_comp(&self.store), config, on_chain, self.spec.params.chain_id()) {
            Ok(r) => r,
            Err(e) => {
                ctx.ev(format!("  construction failed: {e:?}"));
                return;
            }
        };
        let state = runner.start_and_await().await;
        ctx.ev(format!("  state={:?} storage={:?}", state.as_ref().map(state_name), self.comp_height()));
        if let (Some(b), Some(a)) = (before, self.comp_height())
            && a > b
        {
            ctx.probe("resync_from_storage");
        }
        self.service = Some(runner);
    }

    async fn stop_service(&mut self, ctx: &mut Ctx, why: &str) {
        if let Some(s) = self.service.take() {
            ctx.ev(format!("  compression service stop ({why})"));
            let _ = s.stop_and_await().await;
        }
    }

    async fn restart_service(&mut self, ctx: &mut Ctx, why: &str) {
        self.stop_service(ctx, why).await;
        self.start_service(ctx).await;
    }

    async fn faults_between_blocks(&mut self, ctx: &mut Ctx) {
        if self.k.stop_restart && ctx.tape.chance(1, 4) {
            if self.service.is_some() {
                ctx.fault("compressor_down");
                self.stop_service(ctx, "crash").await;
            } else {
                self.start_service(ctx).await;
                self.settle().await;
            }
        }
        if self.k.node_restart && ctx.tape.chance(1, 8) {
            ctx.fault("node_restart");
            ctx.ev("  node restart");
            self.stop_service(ctx, "node restart").await;
            self.chain.restart_node();
            self.start_service(ctx).await;
            self.settle().await;
        }
    }

    fn arm_storage_faults(&mut self, ctx: &mut Ctx) {
        if self.service.is_none() {
            return;
        }
        let mut p = self.plan.lock().unwrap();
        if self.k.commit_fail && ctx.tape.chance(1, 6) {
            p.fail_next_commit = true;
        }
        if self.k.lost_ack && ctx.tape.chance(1, 8) {
            p.lost_ack_next_commit = true;
        }
        if self.k.read_err && ctx.tape.chance(1, 5) {
            p.fail_read_in = Some(1 + ctx.tape.choose(30) as u32);
        }
    }

    fn disarm(&mut self, ctx: &mut Ctx) {
        let mut p = self.plan.lock().unwrap();
        if p.fired_commit > 0 {
            ctx.fault("compression_commit_error");
        }
        if p.fired_lost_ack > 0 {
            ctx.fault("compression_commit_lost_ack");
        }
        if p.fired_read > 0 {
            ctx.fault("compression_read_error");
        }
        *p = Default::default();
    }

    /// A service that stopped or cannot advance any more is restarted, now or later.
    async fn supervise(&mut self, ctx: &mut Ctx) {
        let Some(s) = &self.service else { return };
        let state = s.state();
        let behind = self.comp_height() != Some(self.chain.height());
        match state {
            State::Started => {
                if behind {
                    ctx.probe("compressor_stuck_behind");
                    if ctx.tape.chance(1, 2) {
                        self.restart_service(ctx, "stuck behind").await;
                        self.settle().await;
                    }
                }
            }
            State::StoppedWithError(e) => {
                let expected = e.contains("initialization of");
                ctx.check("C33", "compression-task-panicked", expected, || format!("the compression service task panicked: {e}"));
                ctx.probe("compressor_start_failed");
                if ctx.tape.chance(1, 2) {
                    self.restart_service(ctx, "start failed").await;
                    self.settle().await;
                }
            }
            _ => {
                if ctx.tape.chance(1, 2) {
                    self.restart_service(ctx, "stopped").await;
                    self.settle().await;
                }
            }
        }
    }

    /// C14 monitor on both registries.
    fn monitor(&mut self, ctx: &mut Ctx, when: &str) {
        smt::check_tables(ctx, &open_comp(&self.store), &format!("{when}/P"));
        smt::check_tables(ctx, self.d.db.compression(), &format!("{when}/D"));
    }

    /// The decompressing node takes every compressed block that is available, in order.
    async fn decompress_available(&mut self, ctx: &mut Ctx) {
        loop {
            if ctx.failed() {
                return;
            }
            let g = self.next_to_decompress;
            let p_comp = open_comp(&self.store);
            let compressed: Option<VersionedCompressedBlock> = p_comp
                .storage_as_ref::<CompressedBlocks>()
                .get(&g.into())
                .expect("harness: CompressedBlocks read")
                .map(|c| c.into_owned());
            let Some(compressed) = compressed else { return };
            let Some(original) = self.originals.get(&g).cloned() else {
                panic!("harness: compressed block {g} without an original");
            };
            assert_eq!(self.d.height() + 1, g, "harness: the decompressor is one block behind");
            ctx.scope("C33");
            ctx.op(format!("decompress {g}"));
            let config = fuel_core_compression::Config {
                temporal_registry_retention: Duration::from_secs(self.k.retention),
            };
            let on_chain = self.d.db.on_chain().latest_view().expect("harness: view");
            let mut tx = self.d.db.compression().clone().into_transaction();
            let db = SimDecompressDb {
                inner: DecompressionContext {
                    compression_storage: CompressionStorageWrapper { storage_tx: &mut tx },
                    onchain_db: on_chain,
                },
                genesis_utxos: &self.genesis_utxos,
            };
            let result = decompress(config, db, compressed).await;
            let block = match result {
                Ok(b) => b,
                Err(e) => {
                    ctx.violate("C33", "decompression-failed", format!("block {g}: {e:#}"));
                    return;
                }
            };
            tx.commit().expect("harness: the decompressor's registry commit failed");
            // ---- the oracle ----
            let orig = &original.entity;
            let want_header = PartialBlockHeader::from(orig.header());
            if !ctx.check("C33", "header-mismatch", block.header == want_header, || {
                format!("block {g}: decompressed header {:?}, original {:?}", block.header, want_header)
            }) {
                return;
            }
            let chain_id = self.spec.params.chain_id();
            if !ctx.check(
                "C33",
                "transaction-count",
                block.transactions.len() == orig.transactions().len(),
                || format!("block {g}: {} transactions decompressed, {} in the original", block.transactions.len(), orig.transactions().len()),
            ) {
                return;
            }
            for (i, (a, b)) in orig.transactions().iter().zip(block.transactions.iter()).enumerate() {
                if !ctx.check("C33", "tx-id-mismatch", a.id(&chain_id) == b.id(&chain_id), || {
                    format!("block {g} tx {i}: id {} became {}", a.id(&chain_id), b.id(&chain_id))
                }) {
                    return;
                }
                let (sa, sb) = (strip_execution_fields(a), strip_execution_fields(b));
                if !ctx.check("C33", "transaction-mismatch", sa == sb, || {
                    format!("block {g} tx {i}: original {sa:?}\n decompressed {sb:?}")
                }) {
                    return;
                }
            }
            ctx.probe_n("transactions_round_tripped", orig.transactions().len() as u64);
            smt::check_tables(ctx, self.d.db.compression(), &format!("decompress {g}/D"));
            // the decompressing node follows the chain
            if let Err(e) = self.d.importer.execute_and_commit(original).await {
                panic!("harness: the decompressing node rejected block {g}: {e}");
            }
            self.next_to_decompress += 1;
        }
    }
}

fn state_name(s: &State) -> &'static str {
    match s {
        State::NotStarted => "NotStarted",
        State::Starting => "Starting",
        State::Started => "Started",
        State::Stopping => "Stopping",
        State::Stopped => "Stopped",
        State::StoppedWithError(_) => "StoppedWithError",
    }
}
