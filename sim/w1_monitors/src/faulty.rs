//! `FaultyStore`: a fault-injecting wrapper of the real `MemoryStore` that sits below a real
//! `Database<Description>` (the "disk" of the simulation). Faults are armed by the harness before
//! an operation ("the k-th read from now fails", "the next commit fails before anything is
//! written", "the next commit is applied but reports an error"), so that the tape alone decides
//! them. Only databases that are touched on the simulation thread are wrapped.

use fuel_core::{
    database::database_description::DatabaseDescription,
    state::{
        IterableKeyValueView,
        KeyValueView,
        TransactableStorage,
        in_memory::memory_store::MemoryStore,
    },
};
use fuel_core_storage::{
    Result as StorageResult,
    iter::{
        BoxedIter,
        IterDirection,
        IterableStore,
    },
    kv_store::{
        KVItem,
        KeyItem,
        KeyValueInspect,
        Value,
    },
    transactional::StorageChanges,
};
use std::sync::{
    Arc,
    Mutex,
};

#[derive(Default, Debug, Clone)]
pub struct FaultPlan {
    /// fail the k-th `get` from now (1 = the next one)
    pub fail_read_in: Option<u32>,
    /// the next commit fails before anything is written
    pub fail_next_commit: bool,
    /// the next commit is applied, but an error is returned
    pub lost_ack_next_commit: bool,
    pub reads: u64,
    pub commits: u64,
    pub fired_read: u64,
    pub fired_commit: u64,
    pub fired_lost_ack: u64,
}

pub type Plan = Arc<Mutex<FaultPlan>>;

pub struct FaultyStore<D: DatabaseDescription> {
    pub inner: Arc<MemoryStore<D>>,
    pub plan: Plan,
}

impl<D: DatabaseDescription> FaultyStore<D> {
    pub fn new() -> (Arc<Self>, Plan) {
        let plan: Plan = Default::default();
        (
            Arc::new(FaultyStore {
                inner: Arc::new(MemoryStore::default()),
                plan: plan.clone(),
            }),
            plan,
        )
    }
}

impl<D: DatabaseDescription> core::fmt::Debug for FaultyStore<D> {
    fn fmt(&self, f: &mut core::fmt::Formatter<'_>) -> core::fmt::Result {
        f.write_str("FaultyStore(MemoryStore)")
    }
}

impl<D: DatabaseDescription> KeyValueInspect for FaultyStore<D> {
    type Column = D::Column;

    fn get(&self, key: &[u8], column: Self::Column) -> StorageResult<Option<Value>> {
        {
            let mut p = self.plan.lock().unwrap();
            p.reads += 1;
            if let Some(k) = p.fail_read_in {
                if k <= 1 {
                    p.fail_read_in = None;
                    p.fired_read += 1;
                    return Err(anyhow::anyhow!("injected: read error").into());
                }
                p.fail_read_in = Some(k - 1);
            }
        }
        self.inner.get(key, column)
    }
}

impl<D: DatabaseDescription> IterableStore for FaultyStore<D> {
    fn iter_store(
        &self,
        column: Self::Column,
        prefix: Option<&[u8]>,
        start: Option<&[u8]>,
        direction: IterDirection,
    ) -> BoxedIter<'_, KVItem> {
        self.inner.iter_store(column, prefix, start, direction)
    }

    fn iter_store_keys(
        &self,
        column: Self::Column,
        prefix: Option<&[u8]>,
        start: Option<&[u8]>,
        direction: IterDirection,
    ) -> BoxedIter<'_, KeyItem> {
        self.inner.iter_store_keys(column, prefix, start, direction)
    }
}

impl<D: DatabaseDescription> TransactableStorage<D::Height> for FaultyStore<D> {
    fn commit_changes(&self, height: Option<D::Height>, changes: StorageChanges) -> StorageResult<()> {
        let (fail, lost) = {
            let mut p = self.plan.lock().unwrap();
            p.commits += 1;
            let fail = std::mem::take(&mut p.fail_next_commit);
            let lost = !fail && std::mem::take(&mut p.lost_ack_next_commit);
            if fail {
                p.fired_commit += 1;
            }
            if lost {
                p.fired_lost_ack += 1;
            }
            (fail, lost)
        };
        if fail {
            return Err(anyhow::anyhow!("injected: commit failed, nothing written").into());
        }
        self.inner.commit_changes(height, changes)?;
        if lost {
            return Err(anyhow::anyhow!("injected: commit applied, acknowledgement lost").into());
        }
        Ok(())
    }

    fn view_at_height(&self, height: &D::Height) -> StorageResult<KeyValueView<Self::Column, D::Height>> {
        self.inner.view_at_height(height)
    }

    fn latest_view(&self) -> StorageResult<IterableKeyValueView<Self::Column, D::Height>> {
        self.inner.latest_view()
    }

    fn rollback_block_to(&self, height: &D::Height) -> StorageResult<()> {
        self.inner.rollback_block_to(height)
    }
}

// ---------------------------------------------------------------------------------------------
// on-chain store with historical views
// ---------------------------------------------------------------------------------------------

use fuel_core::{
    database::database_description::on_chain::OnChain,
    state::key_value_view::KeyValueViewWrapper,
};
use fuel_core_storage::{
    column::Column,
    kv_store::StorageColumn,
};
use std::collections::BTreeMap;

/// The real `MemoryStore<OnChain>` plus what `HistoricalRocksDB` adds to RocksDB: a view of the
/// state as of every committed height (here: a snapshot taken after each commit that carries a
/// height). Re-validating an old block (`view_at(height - 1)`) needs it.
pub struct HistoryStore {
    pub inner: Arc<MemoryStore<OnChain>>,
    snapshots: Mutex<BTreeMap<u32, Arc<Snapshot>>>,
}

pub struct Snapshot(BTreeMap<(u32, Vec<u8>), Value>);

struct SnapshotView(Arc<Snapshot>);

impl KeyValueInspect for SnapshotView {
    type Column = Column;
    fn get(&self, key: &[u8], column: Self::Column) -> StorageResult<Option<Value>> {
        Ok(self.0.0.get(&(column.id(), key.to_vec())).cloned())
    }
}

impl HistoryStore {
    pub fn new() -> Arc<Self> {
        Arc::new(HistoryStore {
            inner: Arc::new(MemoryStore::default()),
            snapshots: Mutex::new(BTreeMap::new()),
        })
    }
}

impl core::fmt::Debug for HistoryStore {
    fn fmt(&self, f: &mut core::fmt::Formatter<'_>) -> core::fmt::Result {
        f.write_str("HistoryStore(MemoryStore<OnChain>)")
    }
}

impl KeyValueInspect for HistoryStore {
    type Column = Column;
    fn get(&self, key: &[u8], column: Self::Column) -> StorageResult<Option<Value>> {
        self.inner.get(key, column)
    }
}

impl IterableStore for HistoryStore {
    fn iter_store(
        &self,
        column: Self::Column,
        prefix: Option<&[u8]>,
        start: Option<&[u8]>,
        direction: IterDirection,
    ) -> BoxedIter<'_, KVItem> {
        self.inner.iter_store(column, prefix, start, direction)
    }

    fn iter_store_keys(
        &self,
        column: Self::Column,
        prefix: Option<&[u8]>,
        start: Option<&[u8]>,
        direction: IterDirection,
    ) -> BoxedIter<'_, KeyItem> {
        self.inner.iter_store_keys(column, prefix, start, direction)
    }
}

impl TransactableStorage<fuel_core_types::fuel_types::BlockHeight> for HistoryStore {
    fn commit_changes(
        &self,
        height: Option<fuel_core_types::fuel_types::BlockHeight>,
        changes: StorageChanges,
    ) -> StorageResult<()> {
        self.inner.commit_changes(height, changes)?;
        if let Some(h) = height {
            let mut snap = BTreeMap::new();
            for c in chainkit::node::enum_all_columns() {
                for item in self.inner.iter_store(c, None, None, IterDirection::Forward) {
                    let (k, v) = item?;
                    snap.insert((c.id(), k), v);
                }
            }
            self.snapshots.lock().unwrap().insert(*h, Arc::new(Snapshot(snap)));
        }
        Ok(())
    }

    fn view_at_height(
        &self,
        height: &fuel_core_types::fuel_types::BlockHeight,
    ) -> StorageResult<KeyValueView<Self::Column, fuel_core_types::fuel_types::BlockHeight>> {
        let snap = self
            .snapshots
            .lock()
            .unwrap()
            .get(&**height)
            .cloned()
            .ok_or_else(|| anyhow::anyhow!("HistoryStore: no state for height {height}"))?;
        Ok(KeyValueView::from_storage_and_metadata(
            KeyValueViewWrapper::new(SnapshotView(snap)),
            Some(*height),
        ))
    }

    fn latest_view(&self) -> StorageResult<IterableKeyValueView<Self::Column, fuel_core_types::fuel_types::BlockHeight>> {
        self.inner.latest_view()
    }

    fn rollback_block_to(&self, height: &fuel_core_types::fuel_types::BlockHeight) -> StorageResult<()> {
        self.inner.rollback_block_to(height)
    }
}
