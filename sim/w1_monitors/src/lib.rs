//! W1 monitors — library part: the chain driver and the monitor worlds (see `main.rs`).
pub mod chain;
pub mod compress;
pub mod faulty;
pub mod offchain;
pub mod smt;
pub mod txgen_ext;

use simkit::Ctx;

/// One simulated history for the property under check. The futures of the worlds are driven
/// here (inside the library) so that the binary does not instantiate them a second time.
pub fn run(ctx: &mut Ctx) {
    let seed = ctx.tape.choose(u64::MAX);
    match ctx.prop.as_str() {
        "C14" => {
            // mostly the direct driver, sometimes the monitor over the real compression service
            if ctx.tape.chance(1, 4) {
                let rt = chainkit::runtime(seed);
                rt.block_on(compress::world(ctx));
            } else {
                smt::direct_world(ctx);
            }
        }
        "C33" => {
            let rt = chainkit::runtime(seed);
            rt.block_on(compress::world(ctx));
        }
        _ => {
            let rt = chainkit::runtime(seed);
            rt.block_on(offchain::world(ctx));
        }
    }
}
