//! Chain driver shared by the monitor worlds: one producing node (chainkit `Node`: real
//! `CombinedDatabase`, upgradable `Executor`, `Importer`, PoA verifier) with the real `Producer`,
//! a simulated transaction source and a simulated DA layer (events written into the relayer
//! database, a port that reports the finalized DA height). Blocks are produced, sealed with the
//! PoA key and committed through the real importer; the import result that the importer
//! broadcasts is handed back to the caller.
//!
//! The port implementations mirror `/verif/sim/w1_chain/src/ports.rs` (reduced to what the
//! monitors need: no fault switches on the producer side, those belong to w1_chain's properties).

use crate::txgen_ext::{
    self,
    ExtState,
};
use chainkit::{
    ledger,
    node::{
        ExecPort,
        Node,
        OnChainDb,
        RelayerDb,
        SimSource,
        Strategy,
        seal,
    },
    spec::ChainSpec,
    txgen::{
        self,
        GenState,
    },
};
use fuel_core::{
    combined_database::CombinedDatabase,
    service::{
        Config,
        genesis::execute_and_commit_genesis_block,
    },
};
use fuel_core_executor::ports::RelayerPort;
use fuel_core_producer::{
    Config as ProducerConfig,
    Producer,
    block_producer::gas_price::{
        ChainStateInfoProvider,
        GasPriceProvider,
    },
    ports::{
        Relayer,
        RelayerBlockInfo,
        TxPool,
    },
};
use fuel_core_storage::transactional::AtomicView;
use fuel_core_types::{
    blockchain::{
        SealedBlock,
        header::ConsensusParametersVersion,
        primitives::DaBlockHeight,
    },
    entities::relayer::{
        message::{
            Message,
            MessageV1,
        },
        transaction::{
            RelayedTransaction,
            RelayedTransactionV1,
        },
    },
    fuel_tx::{
        Address,
        ConsensusParameters,
        Transaction,
        UniqueIdentifier,
    },
    fuel_types::{
        BlockHeight,
        Nonce,
    },
    services::{
        block_importer::{
            ImportResult,
            SharedImportResult,
            UncommittedResult as UncommittedImportResult,
        },
        relayer::Event as DaEvent,
    },
    tai64::Tai64,
};
use simkit::Ctx;
use std::sync::{
    Arc,
    Mutex,
};

#[derive(Clone, Default)]
pub struct SimTxPool {
    pub next: Arc<Mutex<Option<SimSource>>>,
}

impl SimTxPool {
    pub fn set(&self, s: SimSource) {
        *self.next.lock().unwrap() = Some(s);
    }
}

impl TxPool for SimTxPool {
    type TxSource = SimSource;
    async fn get_source(&self, _gas_price: u64, _block_height: BlockHeight) -> anyhow::Result<SimSource> {
        Ok(self.next.lock().unwrap().take().unwrap_or_default())
    }
}

#[derive(Clone)]
pub struct SimGas(pub u64);
impl GasPriceProvider for SimGas {
    fn production_gas_price(&self) -> anyhow::Result<u64> {
        Ok(self.0)
    }
    fn dry_run_gas_price(&self) -> anyhow::Result<u64> {
        Ok(self.0)
    }
}

#[derive(Clone)]
pub struct SimChainState(pub Arc<ConsensusParameters>);
impl ChainStateInfoProvider for SimChainState {
    fn consensus_params_at_version(
        &self,
        _version: &ConsensusParametersVersion,
    ) -> anyhow::Result<Arc<ConsensusParameters>> {
        Ok(self.0.clone())
    }
}

/// The DA layer as the producer sees it: finalized height = everything the harness has written.
#[derive(Clone)]
pub struct SimRelayer {
    pub db: RelayerDb,
    pub finalized: Arc<Mutex<u64>>,
}

#[async_trait::async_trait]
impl Relayer for SimRelayer {
    async fn wait_for_at_least_height(&self, height: &DaBlockHeight) -> anyhow::Result<DaBlockHeight> {
        tokio::time::sleep(std::time::Duration::from_millis(5)).await;
        let f = *self.finalized.lock().unwrap();
        Ok(DaBlockHeight(f.max(height.0)))
    }

    async fn get_cost_and_transactions_number_for_block(
        &self,
        height: &DaBlockHeight,
    ) -> anyhow::Result<RelayerBlockInfo> {
        tokio::time::sleep(std::time::Duration::from_millis(1)).await;
        let view = self.db.latest_view()?;
        let events = view.get_events(height).unwrap_or_default();
        let mut gas_cost = 0u64;
        let mut tx_count = 0u64;
        for e in events {
            gas_cost = gas_cost.saturating_add(e.cost());
            if matches!(e, DaEvent::Transaction(_)) {
                tx_count += 1;
            }
        }
        Ok(RelayerBlockInfo { gas_cost, tx_count })
    }
}

pub type Prod = Producer<OnChainDb, SimTxPool, ExecPort, SimGas, SimChainState>;

pub fn make_producer(node: &Node, spec: &ChainSpec, relayer: SimRelayer) -> Prod {
    Producer {
        config: ProducerConfig {
            coinbase_recipient: spec.coinbase_recipient,
            metrics: false,
        },
        view_provider: node.db.on_chain().clone(),
        txpool: SimTxPool::default(),
        executor: Arc::new(node.exec.clone()),
        relayer: Box::new(relayer),
        lock: Default::default(),
        gas_price_provider: SimGas(spec.gas_price),
        chain_state_info_provider: SimChainState(Arc::new(spec.params.clone())),
    }
}

/// Workload knobs of the chain (drawn once per run by the world).
#[derive(Clone, Debug)]
pub struct ChainKnobs {
    /// max candidate transactions per block
    pub max_cands: u64,
    /// weight (out of 10) of the extra generator (fan-outs, predicates, fresh addresses, ...)
    pub ext_weight: u64,
    /// chance (out of 8) that a block advances the DA layer
    pub da_rate: u64,
}

pub struct Chain {
    pub spec: ChainSpec,
    pub node: Node,
    pub producer: Prod,
    pub relayer: SimRelayer,
    pub gen_state: GenState,
    pub ext: ExtState,
    pub knobs: ChainKnobs,
    /// block time in seconds (TAI64 offset is applied by `Tai64`)
    pub time: u64,
    pub da_tip: u64,
    /// relayer databases of other nodes that see the same DA layer
    pub da_mirrors: Vec<RelayerDb>,
    /// live subscription to the importer's broadcast (what the services of a node would see)
    pub rx: tokio::sync::broadcast::Receiver<fuel_core_importer::ImporterResult>,
}

pub struct Committed {
    pub height: u32,
    pub sealed: SealedBlock,
    /// what the importer broadcast for this block
    pub result: SharedImportResult,
}

pub const START_TIME: u64 = 1_700_000_000;

impl Chain {
    /// Executes the generated genesis through the real genesis path into `db` and builds the node.
    pub async fn genesis(spec: &ChainSpec, db: CombinedDatabase, knobs: ChainKnobs) -> Chain {
        let config = Config::local_node_with_configs(spec.chain_config.clone(), spec.state.clone());
        execute_and_commit_genesis_block(&config, &db)
            .await
            .unwrap_or_else(|e| panic!("harness: genesis failed: {e:?}"));
        let node = Node::from_db(spec, "P", Strategy::Native, db);
        let relayer = SimRelayer {
            db: node.db.relayer().clone(),
            finalized: Arc::new(Mutex::new(0)),
        };
        let producer = make_producer(&node, spec, relayer.clone());
        let rx = node.importer.subscribe();
        Chain {
            spec: spec.clone(),
            node,
            producer,
            relayer,
            gen_state: GenState::default(),
            ext: ExtState::default(),
            knobs,
            time: START_TIME,
            da_tip: 0,
            da_mirrors: Vec::new(),
            rx,
        }
    }

    pub fn height(&self) -> u32 {
        self.node.height()
    }

    /// Process restart of the node: all in-memory components are rebuilt over the databases.
    pub fn restart_node(&mut self) {
        let db = self.node.db.clone();
        let node = Node::from_db(&self.spec, "P", Strategy::Native, db);
        self.producer = make_producer(&node, &self.spec, self.relayer.clone());
        self.rx = node.importer.subscribe();
        self.node = node;
    }

    /// The DA layer finalizes up to two more heights with messages (retryable and not) and forced
    /// transactions; the events are written into the relayer database.
    fn da_step(&mut self, ctx: &mut Ctx) {
        use fuel_core_relayer::ports::RelayerDb as _;
        if !ctx.tape.chance(self.knobs.da_rate, 8) {
            return;
        }
        let advance = 1 + ctx.tape.choose(2);
        for _ in 0..advance {
            let h = self.da_tip + 1;
            let mut events: Vec<DaEvent> = Vec::new();
            let n = ctx.tape.small(3);
            for i in 0..n {
                let mut nonce = [0u8; 32];
                nonce[..8].copy_from_slice(&h.to_be_bytes());
                nonce[8] = i as u8;
                nonce[31] = 0xDA;
                if ctx.tape.chance(5, 6) {
                    let recipient = txgen_ext::pick_recipient(ctx, &self.spec, &mut self.ext);
                    let amount = match ctx.tape.choose(3) {
                        0 => 1 + ctx.tape.choose(100),
                        1 => 1_000_000 + ctx.tape.choose(1000),
                        _ => 50_000_000 + ctx.tape.choose(1_000_000),
                    };
                    events.push(DaEvent::Message(Message::V1(MessageV1 {
                        sender: Address::from([0x77; 32]),
                        recipient,
                        nonce: Nonce::from(nonce),
                        amount,
                        data: if ctx.tape.coin() { vec![] } else { vec![9, 9, i as u8] },
                        da_height: DaBlockHeight(h),
                    })));
                } else {
                    // forced transaction that cannot be executed
                    events.push(DaEvent::Transaction(RelayedTransaction::V1(RelayedTransactionV1 {
                        nonce: Nonce::from(nonce),
                        max_gas: ctx.tape.choose(1000),
                        serialized_transaction: vec![0xFF; 5 + ctx.tape.below(20)],
                        da_height: DaBlockHeight(h),
                    })));
                }
            }
            let mut db = self.node.db.relayer().clone();
            db.insert_events(&DaBlockHeight(h), &events).expect("harness: relayer insert");
            for m in &self.da_mirrors {
                let mut m = m.clone();
                m.insert_events(&DaBlockHeight(h), &events).expect("harness: relayer insert (mirror)");
            }
            self.da_tip = h;
            ctx.ev(format!("  da height {h}: {} events", events.len()));
        }
        *self.relayer.finalized.lock().unwrap() = self.da_tip;
    }

    /// Produce the next block with the real producer from generated candidates and commit it
    /// through the real importer. `dt` is the block time increment in seconds.
    pub async fn next_block(&mut self, ctx: &mut Ctx, dt: u64) -> Option<Committed> {
        let height = self.height() + 1;
        let tables = ledger::scan(self.node.db.on_chain());
        self.gen_state.reserved_coins.clear();
        self.gen_state.reserved_msgs.clear();
        let ncand = ctx.tape.small(self.knobs.max_cands) as usize;
        let mut cands: Vec<(String, Transaction)> = Vec::new();
        for _ in 0..ncand {
            if ctx.tape.chance(self.knobs.ext_weight, 10) {
                if let Some((desc, tx)) =
                    txgen_ext::gen_tx(ctx, &self.spec, &tables, &mut self.gen_state, &mut self.ext)
                {
                    cands.push((desc, tx));
                }
            } else if let Some(g) = txgen::gen_tx(ctx, &self.spec, &tables, &mut self.gen_state, height) {
                cands.push((g.desc, g.tx));
            }
        }
        let chain_id = self.spec.params.chain_id();
        for (i, (desc, tx)) in cands.iter().enumerate() {
            ctx.ev(format!("  cand#{i} {desc} id={}", tx.id(&chain_id)));
        }
        let nbatches = 1 + ctx.tape.below(2);
        let mut batches: Vec<Vec<Transaction>> = vec![Vec::new(); nbatches];
        for (_, tx) in &cands {
            let b = ctx.tape.below(nbatches);
            batches[b].push(tx.clone());
        }
        self.producer.txpool.set(SimSource::new(batches));
        self.time += dt;
        self.da_step(ctx);

        ctx.op(format!("produce height={height} time=+{} cands={}", self.time - START_TIME, cands.len()));
        let res = self
            .producer
            .produce_and_execute_block_txpool(height.into(), Tai64::from_unix(self.time as i64), ())
            .await;
        let uncommitted = match res {
            Ok(r) => r,
            Err(e) => {
                ctx.ev(format!("  production failed: {e:#}"));
                return None;
            }
        };
        let (result, changes) = uncommitted.into();
        ctx.ev(format!(
            "  block id={} txs={} skipped={} events={} da={}",
            result.block.id(),
            result.block.transactions().len(),
            result.skipped_transactions.len(),
            result.events.len(),
            result.block.header().da_height().0,
        ));
        let before = tables;
        let sealed = seal(&self.spec.poa.secret, &result.block);
        let import = UncommittedImportResult::new(
            ImportResult::new_from_local(sealed.clone(), result.tx_status.clone(), result.events.clone()),
            changes,
        );
        if let Err(e) = self.node.importer.commit_result(import).await {
            panic!("harness: importer refused the produced block {height}: {e}");
        }
        // the importer broadcasts before it acknowledges the commit
        let broadcast = match self.rx.try_recv() {
            Ok(r) => r.shared_result,
            Err(e) => panic!("harness: no import result broadcast for block {height}: {e:?}"),
        };
        for tx in result.block.transactions() {
            if !tx.is_mint() {
                self.gen_state.executed.push(tx.clone());
            }
        }
        let after = ledger::scan(self.node.db.on_chain());
        for (id, c) in before.coins.iter() {
            if !after.coins.contains_key(id)
                && let Some(wi) = self.spec.wallets.iter().position(|w| w.address == c.owner)
            {
                self.gen_state.spent_coins.push((*id, c.clone(), wi));
            }
        }
        Some(Committed {
            height,
            sealed,
            result: broadcast,
        })
    }
}
