//! W1 monitors — real fuel-core components that *observe* a chain, checked against the on-chain
//! state of that chain. The chain comes from the shared chain kit: generated chain spec and
//! genesis through the real genesis path, blocks produced by the real `Producer` + upgradable
//! `Executor`, sealed and committed through the real `Importer` (see `chain.rs`).
//!
//! * C36 / C37 (`offchain.rs`): the real GraphQL off-chain worker with balances and
//!   coins-to-spend indexation, the real `ReadView` and coins-to-spend queries.
//! * C33 / C14 (`compress.rs`, `smt.rs`): the real DA compression service and temporal registry
//!   over `Database<CompressionDatabase>`, decompression on a second node; the sparse Merkle roots
//!   of the merkleized registry tables, also driven directly.

use simkit::{
    Ctx,
    Tier,
    World,
};

struct Monitors;

impl World for Monitors {
    fn name(&self) -> &'static str {
        "w1_monitors"
    }
    fn properties(&self) -> Vec<&'static str> {
        vec!["C36", "C37", "C33", "C14"]
    }
    fn real_components(&self) -> Vec<&'static str> {
        vec![
            "fuel_core graphql_api::worker_service (InitializeTask::into_task, sync_databases, Task::run/process_block, process_executor_events) under fuel_core_services::ServiceRunner",
            "fuel_core graphql_api::indexation::{balances, coins_to_spend}::update, off-chain storage tables (CoinBalances, MessageBalances, OwnedCoins, OwnedMessageIds, CoinsToSpendIndex), off-chain genesis import",
            "fuel_core graphql_api::database::{ReadDatabase, ReadView}, ReadView::{balance, owned_coins, owned_messages, coins_to_spend}, coins_query::{select_coins_to_spend, random_improve, largest_first}, query::asset_query",
            "fuel_core_compression_service::service (UninitializedCompressionService::into_task / sync_previously_produced_blocks, CompressionService::run, compress_block), temporal_registry (CompressionContext, DecompressionContext, CompressionStorageWrapper), storage tables",
            "fuel_core_compression::{compress, decompress, eviction_policy::CacheEvictor, registry}, fuel-tx Compressible/Decompressible derives",
            "fuel_core::service::adapters::compression_adapters::CompressionBlockDBAdapter + BlockImporterAdapter (block source of the compression service)",
            "fuel_core_storage blueprint::sparse::Sparse (insert_into_tree / remove_from_tree / SupportsBatching init, insert, remove), merkle::sparse::Merkleized, StorageTransaction, fuel-merkle sparse MerkleTree",
            "fuel_core::database::Database<OnChain | OffChain | CompressionDatabase> (commit_changes_with_height_update, metadata), MemoryStore, RocksDB + HistoricalRocksDB (RewindFullRange) for the on-chain state of crash runs",
            "chain under observation: fuel_core_producer::Producer, fuel_core_upgradable_executor::Executor (native), fuel_core_importer::Importer (real thread) + PoA verifier, real genesis (execute_and_commit_genesis_block)",
        ]
    }
    fn stubs(&self) -> Vec<&'static str> {
        vec![
            "worker::BlockImporter port: live import results forwarded from the real importer's broadcast at tape-chosen times; catch-up results recomputed from the on-chain database with the real executor (as fuel-core's ImportResultProvider does), can fail on demand",
            "worker::TxStatusCompletion port (recorder)",
            "the disk below Database<OffChain> / Database<CompressionDatabase>: FaultyStore over the real MemoryStore (read error, commit error before apply, commit applied with lost acknowledgement)",
            "supervisor that stops / crashes / restarts the worker, the compression service and the node",
            "transaction pool, DA layer (relayer database written by the harness), gas price and chain-state providers, block clock",
            "wallet clients (coins-to-spend requests), the decompressing node's driver, genesis-coin UTXO id lookup, seeded registry pre-history",
            "GraphQL/HTTP layer (queries enter at ReadView)",
        ]
    }
    fn default_runs(&self, prop: &str, tier: Tier) -> u64 {
        match (prop, tier) {
            // measured on 16 processes of an otherwise idle machine: C36/C37 ~15 runs/s,
            // C33 ~7 runs/s, C14 ~18 runs/s (thorough runs are about twice as long)
            // (quick ~ 20 s, thorough ~ 8 min there; several times slower while other builds run)
            ("C14", Tier::Quick) => 1_000,
            ("C14", Tier::Thorough) => 36_000,
            ("C33", Tier::Quick) => 500,
            ("C33", Tier::Thorough) => 20_000,
            (_, Tier::Quick) => 600,
            (_, Tier::Thorough) => 20_000,
        }
    }
    fn nontrivial_min_ops(&self, _prop: &str) -> u64 {
        4
    }
    fn assumptions(&self, prop: &str) -> Vec<String> {
        let mut v = vec![
            "blocks come from a fixed menu of generated transactions (transfers, fan-outs, asset transfers, scripts calling pre-deployed contracts with revert/panic, contract creation, message spends, predicate spends) plus invalid variants that the producer skips; no upgrade / upload / blob transactions".to_string(),
            "the importer's worker thread is driven synchronously: each import is one atomic step of the simulation".to_string(),
        ];
        match prop {
            "C36" => {
                v.push("agreement is evaluated at quiescent points (worker up, every broadcast import result delivered, off-chain height == on-chain height); between them the worker may lag or be down".into());
                v.push("the catch-up port recomputes import results like fuel-core's ImportResultProvider (re-validation against the historical on-chain view); runs with crash faults keep the on-chain state in RocksDB with full rewind range".into());
                v.push("ReadView::balance is compared with coins + non-retryable messages (its documented meaning); the retryable/non-retryable split is compared on the MessageBalances table".into());
            }
            "C37" => {
                v.push("coins_query draws from thread_rng (shuffle, dust count): the oracle holds for every outcome, the trace records only the verdict; a violation that needs a particular draw may not replay on the first attempt".into());
                v.push("the error clause is evaluated only at quiescent points (index height == chain height); admissible resources = unspent coins of the owner and asset plus, for the base asset, unspent messages without data (what both algorithms select from)".into());
                v.push("the exhaustive reference enumerates subsets when the owner has at most 12 admissible resources, otherwise it uses the largest-first bound (exact for existence)".into());
            }
            "C33" => {
                v.push("key-space exhaustion (2^24 registrations) cannot be reached in a run; overwriting, eviction order and wrap-around of registry keys are reached by seeding a registry pre-history (identical on both nodes, written through the real registry API) with the evictor positioned just before the seeded keys".into());
                v.push("'the same transaction' = equal transaction id and equality of all fields except those that block execution fills in and compression skips by design (fuel-tx compress(skip): input tx pointers, contract input/output roots and utxo id, change/variable output amounts, receipts root)".into());
                v.push("UTXO ids of genesis coins are resolved by the harness (fuel-core's DecompressionContext looks the creating transaction up in the block at the coin's tx pointer, and the genesis block has no transactions); genesis coins are given distinct (tx index, output index) pairs; the genesis block itself (no Mint) is compressed but not decompressed; blocks never spend an output created in the same block".into());
                v.push("the decompressing node reads history from its own on-chain database one block behind, as fuel-core's da_compression test does".into());
            }
            "C14" => {
                v.push("the from-scratch root is computed by an independent implementation and cross-checked against fuel-merkle's in-memory tree on every evaluation".into());
                v.push("direct mode: each operation (or pair of operations on two tables) runs in its own storage transaction which is dropped on error; primary key = table (the merkleized registry tables have one root per table)".into());
            }
            _ => {}
        }
        v
    }
    fn run(&self, ctx: &mut Ctx) {
        w1_monitors::run(ctx)
    }
}

fn main() {
    simkit::cli::main_world(&Monitors)
}
