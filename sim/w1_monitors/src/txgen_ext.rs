//! Extra workload on top of `chainkit::txgen`: what the monitor properties quantify over and the
//! shared generator does not produce — many coins per owner (dust and big), several assets,
//! fresh addresses, predicate-owned coins and predicate spends, fresh script byte code.
//!
//! Also `extend_spec`: post-processing of a generated `ChainSpec` (our own copy) before genesis.

use chainkit::{
    ledger::{
        CoinInfo,
        Tables,
    },
    spec::ChainSpec,
    txgen::GenState,
};
use fuel_core_chain_config::CoinConfig;
use fuel_core_types::{
    fuel_asm::{
        Instruction,
        RegId,
        op,
    },
    fuel_tx::{
        Address,
        AssetId,
        Bytes32,
        Finalizable,
        Input,
        Output,
        Transaction,
        TransactionBuilder,
        UtxoId,
    },
    fuel_vm::{
        checked_transaction::EstimatePredicates,
        interpreter::MemoryInstance,
        predicate::EmptyStorage,
    },
};
use simkit::Ctx;

pub const N_PREDICATES: usize = 3;
pub const EXTRA_ASSETS: [[u8; 32]; 2] = [[0xB6; 32], [0xC7; 32]];

/// Predicate `i`: `i` no-ops, then `ret 1` (distinct byte code, distinct owner address).
pub fn predicate_code(i: usize) -> Vec<u8> {
    let mut v: Vec<Instruction> = (0..i).map(|_| op::noop()).collect();
    v.push(op::ret(RegId::ONE));
    v.into_iter().collect()
}

pub fn predicate_owner(i: usize) -> Address {
    Input::predicate_owner(predicate_code(i))
}

#[derive(Default)]
pub struct ExtState {
    /// addresses invented during the run (nobody holds their keys)
    pub fresh: Vec<Address>,
    pub script_counter: u64,
}

/// A recipient: a wallet, a predicate address, an address seen before, or a brand-new one.
pub fn pick_recipient(ctx: &mut Ctx, spec: &ChainSpec, ext: &mut ExtState) -> Address {
    match ctx.tape.weighted(&[6, 2, 1, 1]) {
        0 => spec.wallets[ctx.tape.below(spec.wallets.len())].address,
        1 => predicate_owner(ctx.tape.below(N_PREDICATES)),
        2 if !ext.fresh.is_empty() => ext.fresh[ctx.tape.below(ext.fresh.len())],
        _ => {
            let mut a = [0u8; 32];
            a[0] = 0xF5;
            a[1] = ext.fresh.len() as u8;
            a[2] = ctx.tape.choose(256) as u8;
            let a = Address::from(a);
            ext.fresh.push(a);
            a
        }
    }
}

/// More genesis coins: extra assets, dust, predicate-owned coins; and a unique
/// `(tx_pointer_tx_idx, output_index)` per genesis coin (a compressed UTXO id is
/// `(tx pointer, output index)`, so two genesis coins must not share it).
pub fn extend_spec(ctx: &mut Ctx, spec: &mut ChainSpec) {
    // the monitors want full blocks more often than blocks that hit the limits
    if ctx.tape.chance(3, 4) {
        let per_tx = spec.params.tx_params().max_gas_per_tx();
        spec.params.set_block_gas_limit(per_tx.saturating_mul(12));
        let _ = spec.params.set_block_transaction_size_limit(260_096);
        spec.chain_config.consensus_parameters = spec.params.clone();
    }
    let base = *spec.params.base_asset_id();
    let mut n = 0x40u8;
    let mut push = |coins: &mut Vec<CoinConfig>, owner: Address, amount: u64, asset: AssetId| {
        n = n.wrapping_add(1);
        coins.push(CoinConfig {
            tx_id: Bytes32::from([n; 32]),
            output_index: 0,
            tx_pointer_block_height: 0u32.into(),
            tx_pointer_tx_idx: 0,
            owner: owner.into(),
            amount,
            asset_id: asset,
        });
    };
    let wallets: Vec<Address> = spec.wallets.iter().map(|w| w.address).collect();
    let mut coins = std::mem::take(&mut spec.state.coins);
    // every wallet can always pay fees
    for w in &wallets {
        push(&mut coins, *w, 500_000_000 + ctx.tape.choose(1000), base);
    }
    // extra assets
    for (k, a) in EXTRA_ASSETS.iter().enumerate() {
        let cnt = ctx.tape.choose(4);
        for _ in 0..cnt {
            let w = wallets[ctx.tape.below(wallets.len())];
            push(&mut coins, w, 1 + ctx.tape.choose(10_000) * (k as u64 + 1), AssetId::from(*a));
        }
    }
    // dust
    let dust = ctx.tape.choose(8);
    for _ in 0..dust {
        let w = wallets[ctx.tape.below(wallets.len())];
        push(&mut coins, w, 1 + ctx.tape.choose(20), base);
    }
    // predicate-owned coins
    let pc = ctx.tape.choose(4);
    for _ in 0..pc {
        let p = predicate_owner(ctx.tape.below(N_PREDICATES));
        push(&mut coins, p, 2_000_000 + ctx.tape.choose(50_000_000), base);
    }
    for (i, c) in coins.iter_mut().enumerate() {
        c.tx_pointer_tx_idx = i as u16;
    }
    spec.state.coins = coins;
}

fn wallet_index(spec: &ChainSpec, a: &Address) -> Option<usize> {
    spec.wallets.iter().position(|w| &w.address == a)
}

fn pick_wallet_coin(
    ctx: &mut Ctx,
    spec: &ChainSpec,
    tables: &Tables,
    st: &GenState,
    asset: Option<AssetId>,
    min_amount: u64,
) -> Option<(usize, UtxoId, CoinInfo)> {
    let cands: Vec<_> = tables
        .coins
        .iter()
        .filter(|(id, c)| {
            !st.reserved_coins.contains(id)
                && asset.map(|a| c.asset == a).unwrap_or(true)
                && c.amount >= min_amount
                && wallet_index(spec, &c.owner).is_some()
        })
        .collect();
    if cands.is_empty() {
        return None;
    }
    let (id, c) = cands[ctx.tape.below(cands.len())];
    Some((wallet_index(spec, &c.owner).unwrap(), *id, c.clone()))
}

fn fresh_script(ctx: &mut Ctx, ext: &mut ExtState) -> Vec<u8> {
    // a small family of scripts: `k` no-ops and `ret`; k repeats often, sometimes it is new
    let k = if ctx.tape.chance(1, 4) {
        ext.script_counter += 1;
        4 + ext.script_counter
    } else {
        1 + ctx.tape.choose(3)
    };
    let mut v: Vec<Instruction> = (0..k).map(|_| op::noop()).collect();
    v.push(op::ret(RegId::ONE));
    v.into_iter().collect()
}

/// One extra candidate transaction.
pub fn gen_tx(
    ctx: &mut Ctx,
    spec: &ChainSpec,
    tables: &Tables,
    st: &mut GenState,
    ext: &mut ExtState,
) -> Option<(String, Transaction)> {
    let base = *spec.params.base_asset_id();
    let kind = ctx.tape.weighted(&[5, 3, 3, 2, 3]);
    match kind {
        // fan-out: one big coin into several outputs (dust, medium) for various recipients
        0 => {
            let (wi, utxo, coin) = pick_wallet_coin(ctx, spec, tables, st, Some(base), 1_000_000)?;
            let script = if ctx.tape.coin() { vec![] } else { fresh_script(ctx, ext) };
            let mut b = TransactionBuilder::script(script, vec![]);
            b.with_params(spec.params.clone());
            b.script_gas_limit(20_000);
            b.max_fee_limit(coin.amount / 2);
            b.add_unsigned_coin_input(spec.wallets[wi].secret, utxo, coin.amount, coin.asset, coin.tx_pointer);
            let n = 1 + ctx.tape.choose(7);
            let mut budget = coin.amount / 4;
            for _ in 0..n {
                let amount = match ctx.tape.choose(3) {
                    0 => 1 + ctx.tape.choose(30),
                    1 => 100 + ctx.tape.choose(5_000),
                    _ => 1 + budget / 3,
                };
                if amount > budget {
                    break;
                }
                budget -= amount;
                let to = if ctx.tape.chance(2, 3) {
                    // concentrate on one wallet so that it collects many coins
                    spec.wallets[0].address
                } else {
                    pick_recipient(ctx, spec, ext)
                };
                b.add_output(Output::coin(to, amount, base));
            }
            b.add_output(Output::change(spec.wallets[wi].address, 0, base));
            st.reserved_coins.insert(utxo);
            Some((format!("fan-out w{wi} outputs={n}"), b.finalize_as_transaction()))
        }
        // transfer of a non-base asset (fee paid by a base coin)
        1 => {
            let (wi, utxo, coin) = {
                let cands: Vec<_> = tables
                    .coins
                    .iter()
                    .filter(|(id, c)| {
                        !st.reserved_coins.contains(id) && c.asset != base && wallet_index(spec, &c.owner).is_some()
                    })
                    .collect();
                if cands.is_empty() {
                    return None;
                }
                let (id, c) = cands[ctx.tape.below(cands.len())];
                (wallet_index(spec, &c.owner).unwrap(), *id, c.clone())
            };
            let (wj, u2, c2) = pick_wallet_coin(ctx, spec, tables, st, Some(base), 1_000_000)?;
            let mut b = TransactionBuilder::script(vec![], vec![]);
            b.with_params(spec.params.clone());
            b.script_gas_limit(10_000);
            b.max_fee_limit(c2.amount / 2);
            b.add_unsigned_coin_input(spec.wallets[wi].secret, utxo, coin.amount, coin.asset, coin.tx_pointer);
            b.add_unsigned_coin_input(spec.wallets[wj].secret, u2, c2.amount, c2.asset, c2.tx_pointer);
            let to = pick_recipient(ctx, spec, ext);
            let send = 1 + ctx.tape.choose(coin.amount);
            b.add_output(Output::coin(to, send.min(coin.amount), coin.asset));
            b.add_output(Output::change(spec.wallets[wi].address, 0, coin.asset));
            b.add_output(Output::change(spec.wallets[wj].address, 0, base));
            st.reserved_coins.insert(utxo);
            st.reserved_coins.insert(u2);
            Some((format!("asset-transfer w{wi} {send} of {}", coin.amount), b.finalize_as_transaction()))
        }
        // spend a predicate-owned coin
        2 => {
            let owners: Vec<Address> = (0..N_PREDICATES).map(predicate_owner).collect();
            let cands: Vec<_> = tables
                .coins
                .iter()
                .filter(|(id, c)| {
                    !st.reserved_coins.contains(id) && c.asset == base && c.amount >= 1_000_000 && owners.contains(&c.owner)
                })
                .collect();
            if cands.is_empty() {
                return None;
            }
            let (utxo, coin) = cands[ctx.tape.below(cands.len())];
            let pi = owners.iter().position(|o| *o == coin.owner).unwrap();
            let code = predicate_code(pi);
            let data = if ctx.tape.coin() { vec![] } else { vec![ctx.tape.choose(4) as u8; 8] };
            let mut b = TransactionBuilder::script(vec![], vec![]);
            b.with_params(spec.params.clone());
            b.script_gas_limit(10_000);
            b.max_fee_limit(coin.amount / 2);
            b.add_input(Input::coin_predicate(
                *utxo,
                coin.owner,
                coin.amount,
                coin.asset,
                coin.tx_pointer,
                0,
                code,
                data,
            ));
            let to = pick_recipient(ctx, spec, ext);
            b.add_output(Output::coin(to, coin.amount / 3, base));
            b.add_output(Output::change(coin.owner, 0, base));
            let mut tx = b.finalize();
            if tx
                .estimate_predicates(&(&spec.params).into(), MemoryInstance::new(), &EmptyStorage)
                .is_err()
            {
                return None;
            }
            st.reserved_coins.insert(*utxo);
            Some((format!("predicate-spend p{pi}"), tx.into()))
        }
        // a script with data receipts and a variable output: LOGD, TRO (transfer out), RETD
        4 => {
            let (wi, utxo, coin) = pick_wallet_coin(ctx, spec, tables, st, Some(base), 10_000_000)?;
            let amount = 1 + ctx.tape.choose(5_000) as u32;
            let to = pick_recipient(ctx, spec, ext);
            let with_tro = ctx.tape.chance(3, 4);
            let n_instr: usize = if with_tro { 9 } else { 4 };
            let padded = (n_instr * 4).div_ceil(8) * 8;
            let mut v: Vec<Instruction> = vec![
                op::movi(0x10, 8 + ctx.tape.choose(3) as u32 * 8),
                op::logd(RegId::ZERO, RegId::ONE, RegId::IS, 0x10),
            ];
            if with_tro {
                v.extend([
                    op::addi(0x11, RegId::IS, padded as u16),
                    op::addi(0x12, 0x11, 32),
                    op::movi(0x13, amount),
                    op::movi(0x14, 0),
                    op::tro(0x12, 0x14, 0x13, 0x11),
                ]);
            }
            v.push(op::movi(0x10, 16));
            v.push(op::retd(RegId::IS, 0x10));
            assert_eq!(v.len(), n_instr);
            let script: Vec<u8> = v.into_iter().collect();
            let mut data = Vec::new();
            data.extend_from_slice(base.as_ref());
            data.extend_from_slice(to.as_ref());
            let mut b = TransactionBuilder::script(script, data);
            b.with_params(spec.params.clone());
            b.script_gas_limit(100_000);
            b.max_fee_limit(coin.amount / 2);
            b.add_unsigned_coin_input(spec.wallets[wi].secret, utxo, coin.amount, coin.asset, coin.tx_pointer);
            if with_tro {
                b.add_output(Output::variable(Address::zeroed(), 0, AssetId::zeroed()));
            }
            b.add_output(Output::change(spec.wallets[wi].address, 0, base));
            st.reserved_coins.insert(utxo);
            Some((format!("data-receipts w{wi} tro={with_tro}"), b.finalize_as_transaction()))
        }
        // pay to a predicate / fresh address with a fresh script
        _ => {
            let (wi, utxo, coin) = pick_wallet_coin(ctx, spec, tables, st, Some(base), 10_000_000)?;
            let mut b = TransactionBuilder::script(fresh_script(ctx, ext), vec![ctx.tape.choose(256) as u8]);
            b.with_params(spec.params.clone());
            b.script_gas_limit(20_000);
            b.max_fee_limit(coin.amount / 2);
            b.add_unsigned_coin_input(spec.wallets[wi].secret, utxo, coin.amount, coin.asset, coin.tx_pointer);
            let to = if ctx.tape.coin() {
                predicate_owner(ctx.tape.below(N_PREDICATES))
            } else {
                pick_recipient(ctx, spec, ext)
            };
            b.add_output(Output::coin(to, coin.amount / 3, base));
            b.add_output(Output::change(spec.wallets[wi].address, 0, base));
            st.reserved_coins.insert(utxo);
            Some((format!("pay-to w{wi}"), b.finalize_as_transaction()))
        }
    }
}
