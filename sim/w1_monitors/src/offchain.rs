//! Off-chain world (C36, C37): the REAL GraphQL off-chain worker (`worker_service`: `InitializeTask`
//! -> `sync_databases` catch-up -> `Task::run` -> `process_block` with balances and coins-to-spend
//! indexation) under its `ServiceRunner` on the paused runtime, fed with the import results of a
//! chain built by the real producer / executor / importer; wallet clients that ask the real
//! `ReadView` for coins to spend.
//!
//! Simulated parties: the `worker::BlockImporter` port (live results are forwarded from the real
//! importer's broadcast when the tape says so; the catch-up answer is recomputed from the on-chain
//! database with the real executor, like fuel-core's `ImportResultProvider`), the
//! `TxStatusCompletion` port (recorder), the off-chain "disk" (`FaultyStore`), a supervisor that
//! restarts the worker, the wallet clients.

use crate::{
    chain::{
        Chain,
        ChainKnobs,
    },
    faulty::{
        FaultyStore,
        HistoryStore,
        Plan,
    },
    txgen_ext,
};
use chainkit::{
    ledger::{
        self,
        Tables,
    },
    node::{
        ExecPort,
        OnChainDb,
    },
    spec::ChainSpec,
};
use fuel_core::{
    coins_query::CoinsQueryError,
    combined_database::CombinedDatabase,
    database::{
        Database,
        database_description::{
            IndexationKind,
            off_chain::OffChain,
        },
    },
    fuel_core_graphql_api::{
        database::{
            ReadDatabase,
            ReadView,
        },
        ports::worker::{
            self,
            BlockAt,
        },
        storage::{
            balances::{
                CoinBalances,
                MessageBalances,
            },
            coins::{
                CoinsToSpendIndex,
                CoinsToSpendIndexKey,
                OwnedCoins,
                owner_coin_id_key,
            },
            messages::OwnedMessageIds,
        },
        verif_api,
    },
    query::asset_query::Exclude,
    state::{
        historical_rocksdb::StateRewindPolicy,
        rocks_db::{
            ColumnsPolicy,
            DatabaseConfig,
        },
    },
};
use fuel_core_importer::ports::Validator;
use fuel_core_services::{
    Service,
    ServiceRunner,
    State,
    stream::{
        BoxStream,
        IntoBoxStream,
    },
};
use fuel_core_storage::{
    iter::IteratorOverTable,
    not_found,
    transactional::{
        AtomicView,
        HistoricalView,
    },
};
use fuel_core_types::{
    entities::coins::{
        CoinId,
        CoinType,
    },
    fuel_tx::{
        Address,
        AssetId,
        Bytes32,
        UtxoId,
    },
    fuel_types::{
        BlockHeight,
        Nonce,
    },
    services::{
        block_importer::{
            ImportResult,
            SharedImportResult,
        },
        transaction_status::TransactionStatus,
    },
};
use simkit::{
    Ctx,
    Tier,
};
use std::{
    collections::{
        BTreeMap,
        BTreeSet,
        VecDeque,
    },
    sync::{
        Arc,
        Mutex,
        atomic::{
            AtomicU64,
            Ordering,
        },
    },
    time::Duration,
};
use tokio::sync::mpsc;

// ---------------------------------------------------------------------------------------------
// simulated ports of the worker
// ---------------------------------------------------------------------------------------------

#[derive(Clone, Default)]
pub struct SimTxStatus {
    pub completed: Arc<AtomicU64>,
}

impl worker::TxStatusCompletion for SimTxStatus {
    fn send_complete(&self, _id: Bytes32, _block_height: &BlockHeight, _status: TransactionStatus) {
        self.completed.fetch_add(1, Ordering::SeqCst);
    }
}

/// The importer as the worker sees it.
pub struct SimImporterPort {
    /// live results (taken once by `block_events`)
    rx: Mutex<Option<mpsc::UnboundedReceiver<SharedImportResult>>>,
    on_chain: OnChainDb,
    exec: ExecPort,
    /// number of upcoming `block_event_at_height` calls that fail
    fail_catch_up: Arc<AtomicU64>,
    pub catch_up_calls: Arc<AtomicU64>,
}

impl worker::BlockImporter for SimImporterPort {
    fn block_events(&self) -> BoxStream<SharedImportResult> {
        let rx = self
            .rx
            .lock()
            .unwrap()
            .take()
            .expect("harness: block_events is subscribed once per worker");
        tokio_stream::wrappers::UnboundedReceiverStream::new(rx).into_boxed()
    }

    /// Same derivation as fuel-core's `ImportResultProvider::result_at_height`: the sealed block
    /// from the on-chain database, statuses and events from re-validating it with the executor.
    fn block_event_at_height(&self, height: BlockAt) -> anyhow::Result<SharedImportResult> {
        self.catch_up_calls.fetch_add(1, Ordering::SeqCst);
        let f = self.fail_catch_up.load(Ordering::SeqCst);
        if f > 0 {
            self.fail_catch_up.store(f - 1, Ordering::SeqCst);
            return Err(anyhow::anyhow!("injected: import result provider failed"));
        }
        let view = self.on_chain.latest_view()?;
        match height {
            BlockAt::Specific(h) => {
                let sealed = view.get_sealed_block_by_height(&h)?.ok_or(not_found!("SealedBlock"))?;
                let r = self.exec.validate(&sealed.entity)?.into_result();
                Ok(Arc::new(ImportResult::new_from_local(sealed, r.tx_status, r.events).wrap()))
            }
            BlockAt::Genesis => {
                let h = view.genesis_height()?.ok_or(not_found!("Genesis height"))?;
                let sealed = view.get_sealed_block_by_height(&h)?.ok_or(not_found!("SealedBlock"))?;
                Ok(Arc::new(ImportResult::new_from_local(sealed, vec![], vec![]).wrap()))
            }
        }
    }
}

type WorkerRunner = ServiceRunner<verif_api::InitializeTask<SimTxStatus, SimImporterPort, OnChainDb, Database<OffChain>>>;

struct Worker {
    runner: WorkerRunner,
    tx: mpsc::UnboundedSender<SharedImportResult>,
    started: bool,
}

// ---------------------------------------------------------------------------------------------
// the world
// ---------------------------------------------------------------------------------------------

#[derive(Debug, Clone)]
struct Knobs {
    rocks: bool,
    fault_free: bool,
    lag: bool,
    crash: bool,
    commit_fail: bool,
    lost_ack: bool,
    read_err: bool,
    port_err: bool,
    node_restart: bool,
    continue_on_error: bool,
    blocks_before_start: bool,
    blocks: usize,
    queries_per_block: u64,
}

struct Sim {
    spec: ChainSpec,
    chain: Chain,
    /// the off-chain "disk"
    store: Arc<FaultyStore<OffChain>>,
    plan: Plan,
    off: Database<OffChain>,
    worker: Option<Worker>,
    /// import results that the importer broadcast and the worker has not been handed yet
    pending: VecDeque<SharedImportResult>,
    fail_catch_up: Arc<AtomicU64>,
    status: SimTxStatus,
    k: Knobs,
    quiescent_points: u64,
}

fn open_off_chain(store: &Arc<FaultyStore<OffChain>>) -> Database<OffChain> {
    // opening reads the metadata: the harness's own reads are not subject to injected faults
    let armed = std::mem::take(&mut *store.plan.lock().unwrap());
    let db = <Database<OffChain>>::new(store.clone());
    *store.plan.lock().unwrap() = armed;
    db
}

pub async fn world(ctx: &mut Ctx) {
    // ---- knobs ----
    let fault_free = ctx.tape.choose(8) == 7;
    let mut k = Knobs {
        rocks: true,
        fault_free,
        lag: false,
        crash: false,
        commit_fail: false,
        lost_ack: false,
        read_err: false,
        port_err: false,
        node_restart: false,
        continue_on_error: ctx.tape.coin(),
        blocks_before_start: ctx.tape.coin(),
        blocks: 3 + ctx.tape.below(if ctx.tier == Tier::Thorough { 14 } else { 7 }),
        queries_per_block: 1 + ctx.tape.choose(if ctx.prop == "C37" { 6 } else { 2 }),
    };
    if !fault_free {
        k.lag = ctx.tape.coin();
        k.crash = ctx.tape.coin();
        k.commit_fail = ctx.tape.chance(1, 3);
        k.lost_ack = ctx.tape.chance(1, 4);
        k.read_err = ctx.tape.chance(1, 3);
        k.port_err = ctx.tape.chance(1, 4);
        k.node_restart = ctx.tape.chance(1, 3);
    }
    // the catch-up path needs historical views of the on-chain state: now and then the real
    // RocksDB with full rewind range (slow to open), otherwise per-height snapshots of the
    // real MemoryStore
    k.rocks = ctx.tape.chance(1, 12);
    let chain_knobs = ChainKnobs {
        max_cands: 2 + ctx.tape.choose(6),
        ext_weight: 2 + ctx.tape.choose(5),
        da_rate: 1 + ctx.tape.choose(5),
    };
    ctx.ev(format!("knobs {k:?} {chain_knobs:?}"));

    let mut spec = ChainSpec::generate(ctx);
    txgen_ext::extend_spec(ctx, &mut spec);
    ctx.ev(format!("spec {}", spec.describe()));

    // ---- databases ----
    let on_chain = if k.rocks {
        Database::rocksdb_temp(
            StateRewindPolicy::RewindFullRange,
            DatabaseConfig {
                cache_capacity: None,
                max_fds: 64,
                columns_policy: ColumnsPolicy::Lazy,
            },
        )
        .expect("harness: rocksdb temp")
    } else {
        <Database<fuel_core::database::database_description::on_chain::OnChain>>::new(HistoryStore::new())
    };
    let (store, plan) = FaultyStore::<OffChain>::new();
    let off = open_off_chain(&store);
    let db = CombinedDatabase::new(
        on_chain,
        off.clone(),
        Database::in_memory(),
        Database::in_memory(),
        Database::in_memory(),
    );
    let chain = Chain::genesis(&spec, db, chain_knobs).await;
    let mut sim = Sim {
        spec: spec.clone(),
        chain,
        store,
        plan,
        off,
        worker: None,
        pending: VecDeque::new(),
        fail_catch_up: Default::default(),
        status: Default::default(),
        k,
        quiescent_points: 0,
    };

    // the node starts: the worker catches up with the genesis block
    sim.start_worker(ctx).await;
    sim.settle(ctx).await;
    sim.observe(ctx).await;

    for _ in 0..sim.k.blocks {
        if ctx.failed() {
            break;
        }
        sim.faults_between_blocks(ctx).await;
        let dt = ctx.tape.choose(20);
        let Some(c) = sim.chain.next_block(ctx, dt).await else {
            continue;
        };
        ctx.sim_ms += dt * 1000;
        if sim.worker_up() {
            sim.pending.push_back(c.result);
        } else {
            // nobody is subscribed to the importer: the result is only in the on-chain database
            ctx.probe("block_committed_while_worker_down");
        }
        sim.deliver(ctx).await;
        sim.settle(ctx).await;
        sim.supervise(ctx).await;
        sim.observe(ctx).await;
    }
    if ctx.failed() {
        sim.shutdown().await;
        return;
    }
    // ---- faults stop: the node comes to rest ----
    ctx.ev("faults stop");
    sim.k.lag = false;
    sim.k.commit_fail = false;
    sim.k.lost_ack = false;
    sim.k.read_err = false;
    sim.k.port_err = false;
    *sim.plan.lock().unwrap() = Default::default();
    sim.fail_catch_up.store(0, Ordering::SeqCst);
    for _ in 0..3 {
        sim.deliver(ctx).await;
        sim.settle(ctx).await;
        if sim.is_quiescent() {
            break;
        }
        sim.restart_worker(ctx, "final").await;
        sim.settle(ctx).await;
    }
    let (on, offh) = (sim.chain.height(), sim.off_height());
    ctx.check("C36", "no-catch-up-after-faults-stop", sim.is_quiescent(), || {
        format!("after the faults stopped and the worker was restarted the off-chain database stays at {offh:?} while the chain is at {on}")
    });
    sim.observe(ctx).await;
    ctx.probe_n("quiescent_points", sim.quiescent_points);
    sim.shutdown().await;
}

impl Sim {
    fn off_height(&self) -> Option<u32> {
        // the height as a freshly opened database reports it (the durable one)
        HistoricalView::latest_height(&open_off_chain(&self.store)).map(|h| *h)
    }

    fn worker_up(&self) -> bool {
        match &self.worker {
            Some(w) => w.started && matches!(w.runner.state(), State::Started),
            None => false,
        }
    }

    fn is_quiescent(&self) -> bool {
        self.worker_up() && self.pending.is_empty() && self.off_height() == Some(self.chain.height())
    }

    async fn settle(&mut self, ctx: &mut Ctx) {
        // with the paused clock this returns when every task of the runtime is idle
        tokio::time::sleep(Duration::from_millis(1)).await;
        ctx.sim_ms += 1;
    }

    async fn start_worker(&mut self, ctx: &mut Ctx) {
        assert!(self.worker.is_none());
        // results broadcast before this worker subscribed are not for it
        self.pending.clear();
        // a process start opens the database again (re-reads the durable height)
        self.off = open_off_chain(&self.store);
        let (tx, rx) = mpsc::unbounded_channel();
        let port = SimImporterPort {
            rx: Mutex::new(Some(rx)),
            on_chain: self.chain.node.db.on_chain().clone(),
            exec: self.chain.node.exec.clone(),
            fail_catch_up: self.fail_catch_up.clone(),
            catch_up_calls: Default::default(),
        };
        let calls = port.catch_up_calls.clone();
        ctx.scope("C36");
        ctx.op(format!(
            "worker start off={:?} on={}",
            self.off_height(),
            self.chain.height()
        ));
        let runner = verif_api::new_worker_service(
            self.status.clone(),
            port,
            self.chain.node.db.on_chain().clone(),
            self.off.clone(),
            self.k.continue_on_error,
            16,
            &self.spec.params,
        );
        let runner = match runner {
            Ok(r) => r,
            Err(e) => {
                ctx.ev(format!("  worker construction failed: {e:#}"));
                return;
            }
        };
        // a block may be committed between the subscription (service construction) and the
        // start of the service: its result waits in the stream while the catch-up already covers it
        if self.k.blocks_before_start && ctx.tape.chance(1, 4) {
            if let Some(c) = self.chain.next_block(ctx, 1).await {
                ctx.probe("result_in_stream_at_startup");
                let _ = tx.send(c.result);
            }
        }
        let state = runner.start_and_await().await;
        let started = matches!(state, Ok(State::Started));
        ctx.ev(format!(
            "  worker state={} catch_up_calls={}",
            state_name(&runner.state()),
            calls.load(Ordering::SeqCst)
        ));
        if calls.load(Ordering::SeqCst) > 0 {
            ctx.probe("catch_up_through_sync_databases");
        }
        if calls.load(Ordering::SeqCst) > 1 {
            ctx.probe("catch_up_more_than_one_block");
        }
        self.worker = Some(Worker { runner, tx, started });
    }

    async fn stop_worker(&mut self, ctx: &mut Ctx, why: &str) {
        if let Some(w) = self.worker.take() {
            ctx.ev(format!("  worker stop ({why}) state={}", state_name(&w.runner.state())));
            let _ = w.runner.stop_and_await().await;
            // results that were never handed to the worker die with the process
        }
    }

    async fn restart_worker(&mut self, ctx: &mut Ctx, why: &str) {
        self.stop_worker(ctx, why).await;
        self.pending.clear();
        self.start_worker(ctx).await;
    }

    async fn shutdown(&mut self) {
        if let Some(w) = self.worker.take() {
            let _ = w.runner.stop_and_await().await;
        }
    }

    /// Crash / restart faults that happen between two blocks.
    async fn faults_between_blocks(&mut self, ctx: &mut Ctx) {
        if self.k.crash && ctx.tape.chance(1, 5) {
            // the process dies: what the importer broadcast and the worker did not process is gone
            ctx.fault("worker_crash");
            if !self.pending.is_empty() {
                ctx.probe("crash_between_on_chain_and_off_chain_commit");
            }
            self.stop_worker(ctx, "crash").await;
            self.pending.clear();
            if ctx.tape.coin() {
                self.start_worker(ctx).await;
            } else {
                ctx.ev("  worker stays down for now");
            }
        }
        if self.k.node_restart && ctx.tape.chance(1, 8) {
            ctx.fault("node_restart");
            ctx.ev("  node restart");
            if !self.pending.is_empty() {
                ctx.probe("crash_between_on_chain_and_off_chain_commit");
            }
            self.stop_worker(ctx, "node restart").await;
            self.pending.clear();
            self.chain.restart_node();
            self.start_worker(ctx).await;
        }
        if self.k.port_err && ctx.tape.chance(1, 6) {
            self.fail_catch_up.store(1 + ctx.tape.choose(2), Ordering::SeqCst);
        }
    }

    /// Hand pending import results to the worker (all of them unless the worker lags).
    async fn deliver(&mut self, ctx: &mut Ctx) {
        let Some(w) = &self.worker else { return };
        if !w.started {
            return;
        }
        let n = if self.k.lag && ctx.tape.chance(1, 2) {
            ctx.fault("worker_lag");
            ctx.tape.below(self.pending.len() + 1)
        } else {
            self.pending.len()
        };
        for _ in 0..n {
            // storage faults land inside the processing of this block
            if self.k.commit_fail && ctx.tape.chance(1, 8) {
                self.plan.lock().unwrap().fail_next_commit = true;
            }
            if self.k.lost_ack && ctx.tape.chance(1, 10) {
                self.plan.lock().unwrap().lost_ack_next_commit = true;
            }
            if self.k.read_err && ctx.tape.chance(1, 6) {
                self.plan.lock().unwrap().fail_read_in = Some(1 + ctx.tape.choose(40) as u32);
            }
            let r = self.pending.pop_front().unwrap();
            let h = **r.sealed_block.entity.header().height();
            ctx.scope("C36");
            ctx.ev(format!("  deliver import result {h}"));
            if w.tx.send(r).is_err() {
                ctx.ev("  worker stream closed");
                *self.plan.lock().unwrap() = Default::default();
                break;
            }
            // let the worker process it before the next fault is armed
            tokio::time::sleep(Duration::from_millis(1)).await;
            let mut p = self.plan.lock().unwrap();
            if p.fired_commit + p.fired_lost_ack + p.fired_read > 0 {
                if p.fired_commit > 0 {
                    ctx.fault("off_chain_commit_error");
                }
                if p.fired_lost_ack > 0 {
                    ctx.fault("off_chain_commit_lost_ack");
                }
                if p.fired_read > 0 {
                    ctx.fault("off_chain_read_error");
                }
            }
            *p = Default::default();
        }
    }

    /// The supervisor: a worker that stopped (error with `continue_on_error = false`, failed
    /// start) or that can no longer advance is restarted, now or a few blocks later.
    async fn supervise(&mut self, ctx: &mut Ctx) {
        let state = self.worker.as_ref().map(|w| w.runner.state());
        match state {
            None => {
                if ctx.tape.chance(1, 2) {
                    self.start_worker(ctx).await;
                    self.settle(ctx).await;
                }
            }
            Some(State::Started) => {
                // stuck: everything was delivered, yet the database is behind
                if self.pending.is_empty() && self.off_height() != Some(self.chain.height()) {
                    ctx.probe("worker_stuck_behind");
                    if ctx.tape.chance(1, 2) {
                        self.restart_worker(ctx, "stuck behind").await;
                        self.settle(ctx).await;
                    }
                }
            }
            Some(s) => {
                if let State::StoppedWithError(e) = &s {
                    // a failed start is reported by the runner as a panic of the service task
                    let expected = e.contains("initialization of");
                    ctx.check("C36", "worker-task-panicked", expected, || format!("the worker task panicked: {e}"));
                    ctx.probe("worker_start_failed");
                } else {
                    ctx.probe("worker_stopped_on_error");
                }
                if ctx.tape.chance(1, 2) {
                    self.restart_worker(ctx, "stopped").await;
                    self.settle(ctx).await;
                }
            }
        }
    }

    /// Oracles. C36 at quiescent points; C37 soundness always, its error clause at quiescent points.
    async fn observe(&mut self, ctx: &mut Ctx) {
        if ctx.failed() {
            return;
        }
        let tables = ledger::scan(self.chain.node.db.on_chain());
        let quiescent = self.is_quiescent();
        if quiescent {
            self.quiescent_points += 1;
            let off = open_off_chain(&self.store);
            check_c36_tables(ctx, &self.spec, &tables, &off);
        } else {
            ctx.ev(format!(
                "  not quiescent: worker_up={} pending={} off={:?} on={}",
                self.worker_up(),
                self.pending.len(),
                self.off_height(),
                self.chain.height()
            ));
        }
        // ---- clients of the read view ----
        let off = open_off_chain(&self.store);
        let read_db = match ReadDatabase::new(7, BlockHeight::from(0u32), self.chain.node.db.on_chain().clone(), off) {
            Ok(r) => r,
            Err(e) => panic!("harness: ReadDatabase: {e:?}"),
        };
        let view = read_db.view().expect("harness: read view");
        if quiescent {
            check_c36_read_view(ctx, &self.spec, &tables, &view, &self.chain.ext.fresh).await;
        }
        for _ in 0..self.k.queries_per_block {
            if ctx.failed() {
                return;
            }
            c37_query(ctx, &self.spec, &tables, &view, &self.chain.ext.fresh, quiescent).await;
        }
        // what follows (block production, importer) belongs to the property under check
        ctx.scope("");
    }
}

fn state_name(s: &State) -> &'static str {
    match s {
        State::NotStarted => "NotStarted",
        State::Starting => "Starting",
        State::Started => "Started",
        State::Stopping => "Stopping",
        State::Stopped => "Stopped",
        State::StoppedWithError(_) => "StoppedWithError",
    }
}

// ---------------------------------------------------------------------------------------------
// C36
// ---------------------------------------------------------------------------------------------

pub struct Expected {
    pub coin_bal: BTreeMap<(Address, AssetId), u128>,
    /// recipient -> (retryable, non-retryable)
    pub msg_bal: BTreeMap<Address, (u128, u128)>,
    pub owned_coins: BTreeSet<Vec<u8>>,
    pub owned_msgs: BTreeSet<(Address, Nonce)>,
    pub to_spend: BTreeSet<CoinsToSpendIndexKey>,
}

/// What the on-chain tables (unspent coins, unspent messages) imply for the off-chain indexes.
pub fn expected_from_chain(tables: &Tables, base: &AssetId) -> Expected {
    let mut e = Expected {
        coin_bal: BTreeMap::new(),
        msg_bal: BTreeMap::new(),
        owned_coins: BTreeSet::new(),
        owned_msgs: BTreeSet::new(),
        to_spend: BTreeSet::new(),
    };
    for (id, c) in &tables.coins {
        *e.coin_bal.entry((c.owner, c.asset)).or_default() += c.amount as u128;
        e.owned_coins.insert(owner_coin_id_key(&c.owner, id).to_vec());
        e.to_spend.insert(CoinsToSpendIndexKey::Coin {
            owner: c.owner,
            asset_id: c.asset,
            amount: c.amount,
            utxo_id: *id,
        });
    }
    for (nonce, m) in &tables.messages {
        let retryable = !m.data.is_empty();
        let b = e.msg_bal.entry(m.recipient).or_default();
        if retryable {
            b.0 += m.amount as u128;
        } else {
            b.1 += m.amount as u128;
        }
        e.owned_msgs.insert((m.recipient, *nonce));
        e.to_spend.insert(CoinsToSpendIndexKey::Message {
            retryable_flag: if retryable { 0 } else { 1 },
            owner: m.recipient,
            asset_id: *base,
            amount: m.amount,
            nonce: *nonce,
        });
    }
    e
}

fn short(a: &[u8]) -> String {
    a.iter().take(4).map(|b| format!("{b:02x}")).collect()
}

fn check_c36_tables(ctx: &mut Ctx, spec: &ChainSpec, tables: &Tables, off: &Database<OffChain>) {
    let base = *spec.params.base_asset_id();
    let e = expected_from_chain(tables, &base);
    // ---- coin balances ----
    let mut got_coin_bal: BTreeMap<(Address, AssetId), u128> = BTreeMap::new();
    for item in off.iter_all::<CoinBalances>(None) {
        let (k, v) = item.expect("harness: CoinBalances iteration");
        got_coin_bal.insert((*k.address(), *k.asset_id()), v);
    }
    let keys: BTreeSet<_> = got_coin_bal.keys().chain(e.coin_bal.keys()).cloned().collect();
    for key in keys {
        let got = got_coin_bal.get(&key).copied().unwrap_or(0);
        let want = e.coin_bal.get(&key).copied().unwrap_or(0);
        if !ctx.check("C36", "coin-balance", got == want, || {
            format!(
                "indexed coin balance of owner {} asset {} is {got}, the unspent coins sum up to {want}",
                short(key.0.as_ref()),
                short(key.1.as_ref())
            )
        }) {
            return;
        }
    }
    // ---- message balances ----
    let mut got_msg_bal: BTreeMap<Address, (u128, u128)> = BTreeMap::new();
    for item in off.iter_all::<MessageBalances>(None) {
        let (k, v) = item.expect("harness: MessageBalances iteration");
        got_msg_bal.insert(k, (v.retryable, v.non_retryable));
    }
    let keys: BTreeSet<_> = got_msg_bal.keys().chain(e.msg_bal.keys()).cloned().collect();
    for key in keys {
        let got = got_msg_bal.get(&key).copied().unwrap_or((0, 0));
        let want = e.msg_bal.get(&key).copied().unwrap_or((0, 0));
        if !ctx.check("C36", "message-balance", got == want, || {
            format!(
                "indexed message balance (retryable, non-retryable) of {} is {got:?}, the unspent messages sum up to {want:?}",
                short(key.as_ref())
            )
        }) {
            return;
        }
        if want.0 > 0 {
            ctx.probe("retryable_message_balance_checked");
        }
    }
    // ---- owned coins / messages ----
    let got_owned: BTreeSet<Vec<u8>> = off
        .iter_all_keys::<OwnedCoins>(None)
        .map(|r| r.expect("harness: OwnedCoins iteration").to_vec())
        .collect();
    if !ctx.check("C36", "owned-coins", got_owned == e.owned_coins, || {
        format!(
            "OwnedCoins lists {} entries, the chain has {} unspent coins; missing {} stale {}",
            got_owned.len(),
            e.owned_coins.len(),
            e.owned_coins.difference(&got_owned).count(),
            got_owned.difference(&e.owned_coins).count()
        )
    }) {
        return;
    }
    let got_msgs: BTreeSet<(Address, Nonce)> = off
        .iter_all_keys::<OwnedMessageIds>(None)
        .map(|r| {
            let k = r.expect("harness: OwnedMessageIds iteration");
            (*k.address(), *k.nonce())
        })
        .collect();
    if !ctx.check("C36", "owned-messages", got_msgs == e.owned_msgs, || {
        format!(
            "OwnedMessageIds lists {} entries, the chain has {} unspent messages; missing {} stale {}",
            got_msgs.len(),
            e.owned_msgs.len(),
            e.owned_msgs.difference(&got_msgs).count(),
            got_msgs.difference(&e.owned_msgs).count()
        )
    }) {
        return;
    }
    // ---- coins to spend ----
    let got_cts: BTreeSet<CoinsToSpendIndexKey> = off
        .iter_all_keys::<CoinsToSpendIndex>(None)
        .map(|r| r.expect("harness: CoinsToSpendIndex iteration"))
        .collect();
    ctx.check("C36", "coins-to-spend-index", got_cts == e.to_spend, || {
        let missing: Vec<String> = e.to_spend.difference(&got_cts).take(3).map(|k| k.to_string()).collect();
        let stale: Vec<String> = got_cts.difference(&e.to_spend).take(3).map(|k| k.to_string()).collect();
        format!(
            "CoinsToSpendIndex has {} entries, expected {}; missing {missing:?} stale {stale:?}",
            got_cts.len(),
            e.to_spend.len()
        )
    });
    ctx.probe_n("coins_checked", tables.coins.len() as u64);
    ctx.probe_n("messages_checked", tables.messages.len() as u64);
}

fn owners_of_interest(spec: &ChainSpec, fresh: &[Address]) -> Vec<Address> {
    let mut v: Vec<Address> = spec.wallets.iter().map(|w| w.address).collect();
    for i in 0..txgen_ext::N_PREDICATES {
        v.push(txgen_ext::predicate_owner(i));
    }
    v.extend(fresh.iter().cloned());
    v
}

fn assets_of_interest(spec: &ChainSpec) -> Vec<AssetId> {
    let mut v = vec![*spec.params.base_asset_id(), spec.alt_asset];
    v.extend(txgen_ext::EXTRA_ASSETS.iter().map(|a| AssetId::from(*a)));
    v
}

/// The same facts seen through the query layer (`ReadView`): balance, owned coins, owned messages.
async fn check_c36_read_view(ctx: &mut Ctx, spec: &ChainSpec, tables: &Tables, view: &ReadView, fresh: &[Address]) {
    use futures::StreamExt;
    let base = *spec.params.base_asset_id();
    let e = expected_from_chain(tables, &base);
    for owner in owners_of_interest(spec, fresh) {
        for asset in assets_of_interest(spec) {
            let coins = e.coin_bal.get(&(owner, asset)).copied().unwrap_or(0);
            let msgs = if asset == base { e.msg_bal.get(&owner).map(|m| m.1).unwrap_or(0) } else { 0 };
            ctx.scope("C36");
            let got = view.balance(owner, asset, base).await;
            let ok = matches!(&got, Ok(b) if b.amount == coins + msgs);
            if !ctx.check("C36", "read-view-balance", ok, || {
                format!(
                    "ReadView::balance of {} asset {} is {:?}, unspent coins {coins} + non-retryable messages {msgs}",
                    short(owner.as_ref()),
                    short(asset.as_ref()),
                    got.as_ref().map(|b| b.amount)
                )
            }) {
                return;
            }
        }
        let want_coins: BTreeSet<UtxoId> = tables.coins.iter().filter(|(_, c)| c.owner == owner).map(|(id, _)| *id).collect();
        let got: Vec<_> = view
            .owned_coins(&owner, None, fuel_core_storage::iter::IterDirection::Forward)
            .collect()
            .await;
        let got_ids: Result<BTreeSet<UtxoId>, _> = got.into_iter().map(|r| r.map(|c| c.utxo_id)).collect();
        let ok = matches!(&got_ids, Ok(s) if *s == want_coins);
        if !ctx.check("C36", "read-view-owned-coins", ok, || {
            format!(
                "ReadView::owned_coins of {} gives {:?} coins, the chain has {}",
                short(owner.as_ref()),
                got_ids.as_ref().map(|s| s.len()).map_err(|e| format!("{e:?}")),
                want_coins.len()
            )
        }) {
            return;
        }
        let want_msgs: BTreeSet<Nonce> = tables.messages.iter().filter(|(_, m)| m.recipient == owner).map(|(n, _)| *n).collect();
        let got: Vec<_> = view
            .owned_messages(&owner, None, fuel_core_storage::iter::IterDirection::Forward)
            .collect()
            .await;
        let got_ids: Result<BTreeSet<Nonce>, _> = got.into_iter().map(|r| r.map(|m| *m.nonce())).collect();
        let ok = matches!(&got_ids, Ok(s) if *s == want_msgs);
        if !ctx.check("C36", "read-view-owned-messages", ok, || {
            format!(
                "ReadView::owned_messages of {} gives {:?} messages, the chain has {}",
                short(owner.as_ref()),
                got_ids.as_ref().map(|s| s.len()).map_err(|e| format!("{e:?}")),
                want_msgs.len()
            )
        }) {
            return;
        }
    }
}

// ---------------------------------------------------------------------------------------------
// C37
// ---------------------------------------------------------------------------------------------

#[derive(Clone, Debug)]
struct Resource {
    id: CoinId,
    amount: u64,
}

/// What both selection algorithms may pick from: the owner's unspent coins of the asset and,
/// for the base asset, its unspent messages without data.
fn admissible(tables: &Tables, owner: &Address, asset: &AssetId, base: &AssetId) -> Vec<Resource> {
    let mut v: Vec<Resource> = tables
        .coins
        .iter()
        .filter(|(_, c)| c.owner == *owner && c.asset == *asset)
        .map(|(id, c)| Resource {
            id: CoinId::Utxo(*id),
            amount: c.amount,
        })
        .collect();
    if asset == base {
        v.extend(
            tables
                .messages
                .iter()
                .filter(|(_, m)| m.recipient == *owner && m.data.is_empty())
                .map(|(n, m)| Resource {
                    id: CoinId::Message(*n),
                    amount: m.amount,
                }),
        );
    }
    v
}

/// Exhaustive reference (the resources are few): is there a set of at most `max` non-excluded
/// resources whose total reaches `target`? With `partial`: is there any non-empty set at all?
fn reference_has_selection(res: &[Resource], exclude: &Exclude, target: u128, max: u16, partial: bool) -> bool {
    let usable: Vec<u64> = res.iter().filter(|r| !exclude.coin_ids.contains(&r.id)).map(|r| r.amount).collect();
    if target == 0 {
        return true;
    }
    if max == 0 {
        return false;
    }
    if partial {
        return usable.iter().any(|a| *a > 0);
    }
    if usable.len() <= 12 {
        // enumerate every subset
        let n = usable.len();
        for mask in 1u32..(1u32 << n) {
            if mask.count_ones() as usize > max as usize {
                continue;
            }
            let total: u128 = (0..n).filter(|i| mask & (1 << i) != 0).map(|i| usable[i] as u128).sum();
            if total >= target {
                return true;
            }
        }
        false
    } else {
        // the largest `max` resources are the best any selection can do
        let mut s = usable.clone();
        s.sort_unstable_by(|a, b| b.cmp(a));
        s.iter().take(max as usize).map(|a| *a as u128).sum::<u128>() >= target
    }
}

async fn c37_query(ctx: &mut Ctx, spec: &ChainSpec, tables: &Tables, view: &ReadView, fresh: &[Address], quiescent: bool) {
    let base = *spec.params.base_asset_id();
    let max_inputs = spec.params.tx_params().max_inputs();
    // ---- the request ----
    let owners = owners_of_interest(spec, fresh);
    let owner = match ctx.tape.weighted(&[12, 3, 1]) {
        0 => owners[ctx.tape.below(spec.wallets.len())],
        1 => owners[ctx.tape.below(owners.len())],
        _ => Address::from([0x0E; 32]),
    };
    let mut assets = assets_of_interest(spec);
    assets.push(AssetId::from([0x0D; 32]));
    let n_assets = 1 + ctx.tape.weighted(&[4, 1]);
    let mut chosen: Vec<AssetId> = Vec::new();
    for _ in 0..n_assets {
        let a = if ctx.tape.chance(3, 5) { base } else { assets[ctx.tape.below(assets.len())] };
        if !chosen.contains(&a) {
            chosen.push(a);
        }
    }
    let indexed = ctx.tape.coin();
    let mut exclude = Exclude::default();
    let mut n_excl = 0;
    let mut queries: Vec<verif_api::SpendQueryElement> = Vec::new();
    for asset in &chosen {
        let res = admissible(tables, &owner, asset, &base);
        let total: u128 = res.iter().map(|r| r.amount as u128).sum();
        let mut sorted: Vec<u64> = res.iter().map(|r| r.amount).collect();
        sorted.sort_unstable();
        let target: u128 = match ctx.tape.weighted(&[3, 2, 3, 2, 2, 1, 1, 1]) {
            0 => 1 + ctx.tape.choose(60) as u128,
            1 => sorted.first().copied().unwrap_or(1) as u128,
            2 => {
                // the total of a few of the owner's resources, give or take one
                let k = ctx.tape.below(sorted.len() + 1);
                let s: u128 = sorted.iter().rev().take(k).map(|a| *a as u128).sum();
                (s + ctx.tape.choose(3) as u128).saturating_sub(1)
            }
            3 => total,
            4 => total + 1,
            5 => total / 2 + 1,
            6 => 0,
            _ => u64::MAX as u128 + ctx.tape.choose(5) as u128,
        };
        let max: Option<u16> = match ctx.tape.weighted(&[4, 3, 2, 1, 1]) {
            0 => None,
            1 => Some(1 + ctx.tape.choose(4) as u16),
            2 => Some(res.len() as u16 + ctx.tape.choose(2) as u16),
            3 => Some(0),
            _ => Some(300),
        };
        let partial: Option<bool> = match ctx.tape.weighted(&[3, 1, 2]) {
            0 => None,
            1 => Some(false),
            _ => Some(true),
        };
        // exclusions: some of the owner's own resources (dust first / big first / any)
        if ctx.tape.chance(1, 2) && !res.is_empty() {
            let mut r = res.clone();
            r.sort_by_key(|x| x.amount);
            let k = ctx.tape.below(r.len().min(6) + 1);
            match ctx.tape.choose(3) {
                0 => r.truncate(k),
                1 => {
                    r.reverse();
                    r.truncate(k)
                }
                _ => {
                    ctx.tape.shuffle(&mut r);
                    r.truncate(k)
                }
            }
            for x in r {
                exclude.exclude(x.id);
                n_excl += 1;
            }
        }
        queries.push((*asset, target, max, partial));
    }
    if ctx.tape.chance(1, 6) {
        exclude.exclude(CoinId::Utxo(UtxoId::new(Bytes32::from([0xEE; 32]), 1)));
        exclude.exclude(CoinId::Message(Nonce::from([0xEF; 32])));
    }
    let desc: Vec<String> = queries
        .iter()
        .map(|(a, t, m, p)| format!("asset={} target={t} max={m:?} partial={p:?}", short(a.as_ref())))
        .collect();
    ctx.scope("C37");
    ctx.op(format!(
        "coins_to_spend owner={} indexed={indexed} excluded={n_excl} [{}] quiescent={quiescent}",
        short(owner.as_ref()),
        desc.join("; ")
    ));
    let the_view = if indexed {
        view.clone()
    } else {
        verif_api::read_view_without_indexation(view, IndexationKind::CoinsToSpend)
    };
    let algo = if indexed { "indexed" } else { "non-indexed" };
    // the selection draws from thread_rng (shuffle, dust count): the same request is issued a few
    // times, every answer has to pass; the verdict (answer / which error) is the same each time and
    // is logged once
    let reps = if ctx.prop == "C37" { 4 } else { 1 };
    for rep in 0..reps {
    let answer = verif_api::coins_to_spend(&the_view, owner, &queries, &exclude, &spec.params, max_inputs).await;
    match answer {
        Ok(lists) => {
            // while the index lags, which resources the random part of the selection touches
            // decides between an answer and a not-found error: the outcome is not recorded then
            if rep == 0 {
                ctx.ev(if quiescent { "  -> ok" } else { "  -> (index lags behind the chain: outcome not recorded)" });
            }
            if !ctx.check("C37", "answer-shape", lists.len() == queries.len(), || {
                format!("{} lists for {} requested assets", lists.len(), queries.len())
            }) {
                return;
            }
            for ((asset, target, max, partial), list) in queries.iter().zip(lists.iter()) {
                let max_eff = max.unwrap_or(max_inputs).min(max_inputs);
                let res = admissible(tables, &owner, asset, &base);
                let mut seen: BTreeSet<String> = BTreeSet::new();
                let mut total: u128 = 0;
                for c in list {
                    let id = c.coin_id();
                    // unspent, of this owner and asset, with the amount the chain records
                    let known = match c {
                        CoinType::Coin(coin) => tables.coins.get(&coin.utxo_id).map(|t| {
                            t.owner == owner && t.asset == *asset && t.amount == coin.amount && coin.owner == owner && coin.asset_id == *asset
                        }),
                        CoinType::MessageCoin(m) => tables
                            .messages
                            .get(&m.nonce)
                            .map(|t| t.recipient == owner && *asset == base && t.amount == m.amount && m.recipient == owner),
                    };
                    if !ctx.check("C37", "foreign-or-spent-resource", known == Some(true), || {
                        format!("{algo}: the answer for owner {} asset {} contains {id:?}, which is {} on chain", short(owner.as_ref()), short(asset.as_ref()), if known.is_none() { "not an unspent resource" } else { "of another owner/asset/amount" })
                    }) {
                        return;
                    }
                    if !ctx.check("C37", "excluded-resource", !exclude.coin_ids.contains(&id), || {
                        format!("{algo}: the answer contains the excluded resource {id:?}")
                    }) {
                        return;
                    }
                    if !ctx.check("C37", "duplicate-resource", seen.insert(format!("{id:?}")), || {
                        format!("{algo}: the answer contains {id:?} twice")
                    }) {
                        return;
                    }
                    total += c.amount() as u128;
                }
                if !ctx.check("C37", "more-than-max", list.len() <= max_eff as usize, || {
                    format!("{algo}: {} resources returned, the maximum was {max_eff}", list.len())
                }) {
                    return;
                }
                let covers = total >= *target || *partial == Some(true);
                // an empty answer for `max = 0` is the one way to be short without `partial`
                let class = if max_eff == 0 { "target-not-covered-max-zero" } else { "target-not-covered" };
                if !ctx.check("C37", class, covers, || {
                    format!("{algo}: total {total} < target {target} (partial={partial:?}, max={max_eff}, {} resources of {} admissible)", list.len(), res.len())
                }) {
                    return;
                }
                if list.len() > 1 {
                    ctx.probe("answer_with_several_resources");
                }
                if res.len() > list.len() + n_excl && !list.is_empty() {
                    ctx.probe("answer_is_a_strict_subset");
                }
            }
        }
        Err(e) => {
            let kind = match &e {
                CoinsQueryError::InsufficientCoins { .. } => "insufficient",
                CoinsQueryError::MaxCoinsReached { .. } => "max-coins",
                CoinsQueryError::StorageError(_) => "storage",
                _ => "other",
            };
            if rep == 0 {
                if quiescent {
                    ctx.ev(format!("  -> error {kind}"));
                } else {
                    ctx.ev("  -> (index lags behind the chain: outcome not recorded)");
                }
            }
            match &e {
                CoinsQueryError::InsufficientCoins { asset_id, .. } | CoinsQueryError::MaxCoinsReached { asset_id, .. } => {
                    if !quiescent {
                        // the index and the chain are not at the same height: no verdict
                        ctx.probe("error_while_lagging");
                        return;
                    }
                    let Some((asset, target, max, partial)) = queries.iter().find(|q| q.0 == *asset_id) else {
                        ctx.violate("C37", "error-for-unrequested-asset", format!("{algo}: {e}"));
                        return;
                    };
                    let max_eff = max.unwrap_or(max_inputs).min(max_inputs);
                    let res = admissible(tables, &owner, asset, &base);
                    let exists = reference_has_selection(&res, &exclude, *target, max_eff, *partial == Some(true));
                    ctx.check("C37", "error-although-selection-exists", !exists, || {
                        format!(
                            "{algo}: `{e}` although an admissible selection exists: target {target} max {max_eff} partial {partial:?}, admissible amounts {:?}, excluded {}",
                            res.iter().filter(|r| !exclude.coin_ids.contains(&r.id)).map(|r| r.amount).collect::<Vec<_>>(),
                            n_excl
                        )
                    });
                    ctx.probe(if kind == "insufficient" { "insufficient_error_checked" } else { "max_coins_error_checked" });
                }
                _ => {
                    ctx.probe("other_error");
                    if quiescent {
                        ctx.probe("other_error_at_quiescent_point");
                    }
                }
            }
        }
    }
    }
}
