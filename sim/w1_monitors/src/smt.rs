//! C14: sparse Merkle roots of the merkleized compression-registry tables.
//!
//! * `own_root`: an independent from-scratch implementation of the sparse Merkle root (compact
//!   SMT as in `fuel-merkle`: zero placeholder for empty subtrees, a subtree with one leaf is that
//!   leaf, leaf = H(0x00 ‖ H(key) ‖ H(value)), node = H(0x01 ‖ left ‖ right)).
//! * `check_tables`: the monitor — for every merkleized table of a compression database the
//!   stored root (`MerkleRootStorage::root`) must equal the root from scratch over the entries the
//!   table column holds right now.
//! * `direct_world`: drives single and batched operations over several tables (primary keys)
//!   directly, with storage faults in the middle of an operation.

use crate::faulty::{
    FaultyStore,
    Plan,
};
use fuel_core::database::{
    Database,
    database_description::compression::CompressionDatabase,
};
use fuel_core_compression_service::storage::{
    self,
    column::CompressionColumn,
    evictor_cache::MetadataKey,
    registry_index::ReverseKey,
    timestamps::{
        TimestampKey,
        TimestampKeyspace,
    },
};
use fuel_core_storage::{
    MerkleRootStorage,
    StorageAsMut,
    StorageAsRef,
    StorageBatchMutate,
    iter::{
        IterDirection,
        IterableStore,
    },
    kv_store::StorageColumn,
    merkle::column::MerkleizedColumn,
    transactional::{
        ReadTransaction,
        WriteTransaction,
    },
};
use fuel_core_types::{
    fuel_compression::RegistryKey,
    fuel_merkle::sparse::{
        MerkleTreeKey,
        in_memory,
    },
    fuel_tx::{
        Address,
        AssetId,
        ContractId,
        ScriptCode,
        input::PredicateCode,
    },
    tai64::Tai64,
};
use sha2::{
    Digest,
    Sha256,
};
use simkit::{
    Ctx,
    Tier,
};
use std::collections::BTreeMap;

pub type CompDb = Database<CompressionDatabase>;
pub type Root = [u8; 32];

fn h(parts: &[&[u8]]) -> Root {
    let mut s = Sha256::new();
    for p in parts {
        s.update(p);
    }
    s.finalize().into()
}

fn bit(path: &Root, depth: usize) -> bool {
    (path[depth / 8] >> (7 - depth % 8)) & 1 == 1
}

fn sub_root(leaves: &[(Root, Root)], depth: usize) -> Root {
    match leaves.len() {
        0 => [0u8; 32],
        1 => leaves[0].1,
        _ => {
            // leaves are sorted by path: those with a 0 bit at `depth` come first
            let split = leaves.partition_point(|(p, _)| !bit(p, depth));
            let l = sub_root(&leaves[..split], depth + 1);
            let r = sub_root(&leaves[split..], depth + 1);
            // (a subtree of two or more leaves keeps its whole path: an empty side is the
            // zero placeholder; only a single leaf is lifted, see the arm above)
            h(&[&[1u8], &l, &r])
        }
    }
}

/// Sparse Merkle root from scratch over raw (key bytes, value bytes) entries.
pub fn own_root(entries: &[(Vec<u8>, Vec<u8>)]) -> Root {
    let mut leaves: Vec<(Root, Root)> = entries
        .iter()
        .map(|(k, v)| {
            let path = h(&[k]);
            let leaf = h(&[&[0u8], &path, &h(&[v])]);
            (path, leaf)
        })
        .collect();
    leaves.sort();
    sub_root(&leaves, 0)
}

/// The same with `fuel-merkle`'s in-memory tree (second reference).
pub fn fuel_root(entries: &[(Vec<u8>, Vec<u8>)]) -> Root {
    in_memory::MerkleTree::root_from_set(entries.iter().map(|(k, v)| (MerkleTreeKey::new(k), v)))
}

pub const TABLES: [(&str, CompressionColumn); 8] = [
    ("Address", CompressionColumn::Address),
    ("AssetId", CompressionColumn::AssetId),
    ("ContractId", CompressionColumn::ContractId),
    ("ScriptCode", CompressionColumn::ScriptCode),
    ("PredicateCode", CompressionColumn::PredicateCode),
    ("RegistryIndex", CompressionColumn::RegistryIndex),
    ("EvictorCache", CompressionColumn::EvictorCache),
    ("Timestamps", CompressionColumn::Timestamps),
];

pub fn raw_entries(db: &CompDb, col: CompressionColumn) -> Vec<(Vec<u8>, Vec<u8>)> {
    db.iter_store(MerkleizedColumn::TableColumn(col), None, None, IterDirection::Forward)
        .map(|r| {
            let (k, v) = r.expect("harness: table iteration");
            (k, v.to_vec())
        })
        .collect()
}

macro_rules! stored_root_of {
    ($db:expr, $table:ty) => {{
        let tx = $db.read_transaction();
        let col = <$table as fuel_core_storage::structured_storage::TableWithBlueprint>::column().id();
        <_ as MerkleRootStorage<u32, $table>>::root(&tx, &col)
    }};
}

/// `MerkleRootStorage::root` of table number `i` of `TABLES`.
pub fn stored_root(db: &CompDb, i: usize) -> Result<Root, String> {
    let r = match i {
        0 => stored_root_of!(db, storage::Address),
        1 => stored_root_of!(db, storage::AssetId),
        2 => stored_root_of!(db, storage::ContractId),
        3 => stored_root_of!(db, storage::ScriptCode),
        4 => stored_root_of!(db, storage::PredicateCode),
        5 => stored_root_of!(db, storage::RegistryIndex),
        6 => stored_root_of!(db, storage::EvictorCache),
        _ => stored_root_of!(db, storage::Timestamps),
    };
    r.map_err(|e| format!("{e:?}"))
}

fn hex4(r: &Root) -> String {
    r.iter().take(6).map(|b| format!("{b:02x}")).collect()
}

/// The monitor: every table's stored root equals the root from scratch over its entries.
/// Returns the roots (for "untouched key kept its root" checks of the caller).
pub fn check_tables(ctx: &mut Ctx, db: &CompDb, who: &str) -> Vec<Root> {
    let mut roots = Vec::new();
    for (i, (name, col)) in TABLES.iter().enumerate() {
        let entries = raw_entries(db, *col);
        let want = own_root(&entries);
        let second = fuel_root(&entries);
        if want != second {
            panic!(
                "harness: own SMT root {} and fuel-merkle in-memory root {} differ over {} entries",
                hex4(&want),
                hex4(&second),
                entries.len()
            );
        }
        let got = stored_root(db, i);
        let ok = matches!(&got, Ok(r) if *r == want);
        ctx.check("C14", "root-mismatch", ok, || {
            format!(
                "{who}: table {name}: stored root {:?}, root from scratch over its {} entries {}",
                got.as_ref().map(hex4),
                entries.len(),
                hex4(&want)
            )
        });
        if !entries.is_empty() {
            ctx.probe_n("nonempty_table_roots_checked", 1);
        }
        roots.push(got.unwrap_or([0xFF; 32]));
    }
    roots
}

// ---------------------------------------------------------------------------------------------
// direct mode
// ---------------------------------------------------------------------------------------------

const KEY_UNIVERSE: u64 = 7;
const VAL_UNIVERSE: u64 = 5;

fn reg_key(i: u64) -> RegistryKey {
    // small keys and the two largest writable ones
    let raw = match i {
        5 => (1u32 << 24) - 2,
        6 => (1u32 << 24) - 3,
        _ => i as u32,
    };
    RegistryKey::try_from(raw).unwrap()
}

fn code(v: u64) -> Vec<u8> {
    // v = 0: empty code (empty value bytes)
    vec![0x40 + v as u8; (v * 3) as usize]
}

fn keyspace(i: u64) -> TimestampKeyspace {
    match i % 5 {
        0 => TimestampKeyspace::Address,
        1 => TimestampKeyspace::AssetId,
        2 => TimestampKeyspace::ContractId,
        3 => TimestampKeyspace::ScriptCode,
        _ => TimestampKeyspace::PredicateCode,
    }
}

fn metadata_key(i: u64) -> MetadataKey {
    match i % 5 {
        0 => MetadataKey::Address,
        1 => MetadataKey::AssetId,
        2 => MetadataKey::ContractId,
        3 => MetadataKey::ScriptCode,
        _ => MetadataKey::PredicateCode,
    }
}

fn reverse_key(i: u64) -> ReverseKey {
    match i % 3 {
        0 => ReverseKey::Address(Address::from([i as u8; 32])),
        1 => ReverseKey::AssetId(AssetId::from([i as u8; 32])),
        _ => ReverseKey::ContractId(ContractId::from([i as u8; 32])),
    }
}

/// Expands `$body` once per table with `$T` = table type, `$mk` = key from index, `$mv` = value
/// from index.
macro_rules! with_table {
    ($tab:expr, |$T:ident, $mk:ident, $mv:ident| $body:block) => {
        match $tab {
            0 => {
                type $T = storage::Address;
                let $mk = |i: u64| reg_key(i);
                let $mv = |v: u64| Address::from([v as u8; 32]);
                $body
            }
            1 => {
                type $T = storage::AssetId;
                let $mk = |i: u64| reg_key(i);
                let $mv = |v: u64| AssetId::from([v as u8; 32]);
                $body
            }
            2 => {
                type $T = storage::ContractId;
                let $mk = |i: u64| reg_key(i);
                let $mv = |v: u64| ContractId::from([v as u8; 32]);
                $body
            }
            3 => {
                type $T = storage::ScriptCode;
                let $mk = |i: u64| reg_key(i);
                let $mv = |v: u64| ScriptCode::from(code(v));
                $body
            }
            4 => {
                type $T = storage::PredicateCode;
                let $mk = |i: u64| reg_key(i);
                let $mv = |v: u64| PredicateCode::from(code(v));
                $body
            }
            5 => {
                type $T = storage::RegistryIndex;
                let $mk = |i: u64| reverse_key(i);
                let $mv = |v: u64| reg_key(v);
                $body
            }
            6 => {
                type $T = storage::EvictorCache;
                // only five keys exist
                let $mk = |i: u64| metadata_key(i);
                let $mv = |v: u64| reg_key(v);
                $body
            }
            _ => {
                type $T = storage::Timestamps;
                let $mk = |i: u64| TimestampKey {
                    keyspace: keyspace(i),
                    key: reg_key(i / 2),
                };
                let $mv = |v: u64| Tai64(1_000 + v);
                $body
            }
        }
    };
}

fn key_universe(tab: usize) -> u64 {
    if tab == 6 { 5 } else { KEY_UNIVERSE }
}

#[derive(Clone, Debug)]
enum Op {
    Insert(u64, u64),
    Replace(u64, u64),
    Remove(u64),
    Take(u64),
    Init(Vec<(u64, u64)>),
    InsertBatch(Vec<(u64, u64)>),
    RemoveBatch(Vec<u64>),
}

type Model = BTreeMap<u64, u64>;

fn apply_model(m: &mut Model, op: &Op) {
    match op {
        Op::Insert(k, v) | Op::Replace(k, v) => {
            m.insert(*k, *v);
        }
        Op::Remove(k) | Op::Take(k) => {
            m.remove(k);
        }
        Op::Init(set) | Op::InsertBatch(set) => {
            for (k, v) in set {
                m.insert(*k, *v);
            }
        }
        Op::RemoveBatch(set) => {
            for k in set {
                m.remove(k);
            }
        }
    }
}

fn gen_op(ctx: &mut Ctx, tab: usize, model: &Model) -> Op {
    let ku = key_universe(tab);
    let k = ctx.tape.choose(ku);
    let v = ctx.tape.choose(VAL_UNIVERSE);
    let set = |ctx: &mut Ctx, dups: bool| -> Vec<(u64, u64)> {
        let n = 1 + ctx.tape.choose(5);
        let mut out: Vec<(u64, u64)> = Vec::new();
        for _ in 0..n {
            let k = ctx.tape.choose(ku);
            let v = ctx.tape.choose(VAL_UNIVERSE);
            if dups || !out.iter().any(|(kk, _)| *kk == k) {
                out.push((k, v));
            }
        }
        out
    };
    match ctx.tape.weighted(&[5, 4, 4, 3, 3, 4, 3]) {
        0 => Op::Insert(k, v),
        1 => Op::Replace(k, v),
        2 => Op::Remove(k),
        3 => Op::Take(k),
        4 => {
            // `init` is meant for an empty table; on a non-empty one it must fail cleanly
            let _ = model;
            Op::Init(set(ctx, false))
        }
        5 => {
            let dups = ctx.tape.chance(1, 4);
            Op::InsertBatch(set(ctx, dups))
        }
        _ => {
            let n = 1 + ctx.tape.choose(4);
            Op::RemoveBatch((0..n).map(|_| ctx.tape.choose(ku)).collect())
        }
    }
}

/// Executes `op` on table `tab` inside the given storage transaction.
macro_rules! exec_op {
    ($tx:expr, $tab:expr, $op:expr) => {
        with_table!($tab, |T, mk, mv| {
            match $op {
                Op::Insert(k, v) => $tx.storage_as_mut::<T>().insert(&mk(*k), &mv(*v)).map_err(|e| format!("{e:?}")),
                Op::Replace(k, v) => $tx
                    .storage_as_mut::<T>()
                    .replace(&mk(*k), &mv(*v))
                    .map(|_| ())
                    .map_err(|e| format!("{e:?}")),
                Op::Remove(k) => $tx.storage_as_mut::<T>().remove(&mk(*k)).map_err(|e| format!("{e:?}")),
                Op::Take(k) => $tx.storage_as_mut::<T>().take(&mk(*k)).map(|_| ()).map_err(|e| format!("{e:?}")),
                Op::Init(set) => {
                    let typed: Vec<_> = set.iter().map(|(k, v)| (mk(*k), mv(*v))).collect();
                    StorageBatchMutate::<T>::init_storage(&mut $tx, typed.iter().map(|(k, v)| (k, v))).map_err(|e| format!("{e:?}"))
                }
                Op::InsertBatch(set) => {
                    let typed: Vec<_> = set.iter().map(|(k, v)| (mk(*k), mv(*v))).collect();
                    StorageBatchMutate::<T>::insert_batch(&mut $tx, typed.iter().map(|(k, v)| (k, v))).map_err(|e| format!("{e:?}"))
                }
                Op::RemoveBatch(set) => {
                    let typed: Vec<_> = set.iter().map(|k| mk(*k)).collect();
                    StorageBatchMutate::<T>::remove_batch(&mut $tx, typed.iter()).map_err(|e| format!("{e:?}"))
                }
            }
        })
    };
}

/// Typed content of table `tab` as (key index -> value index), read through the table API.
fn read_table(db: &CompDb, tab: usize) -> Result<Model, String> {
    let mut out = Model::new();
    with_table!(tab, |T, mk, mv| {
        for k in 0..key_universe(tab) {
            let got = db.storage_as_ref::<T>().get(&mk(k)).map_err(|e| format!("{e:?}"))?;
            if let Some(val) = got {
                let val = val.into_owned();
                let idx = (0..VAL_UNIVERSE).find(|v| mv(*v) == val);
                match idx {
                    Some(v) => {
                        out.insert(k, v);
                    }
                    None => return Err(format!("table {tab}: key {k} holds a value nobody wrote")),
                }
            }
        }
    });
    Ok(out)
}

pub fn direct_world(ctx: &mut Ctx) {
    let (store, plan): (_, Plan) = FaultyStore::<CompressionDatabase>::new();
    let mut db: CompDb = <CompDb>::new(store.clone());
    let fault_free = ctx.tape.choose(8) == 7;
    let read_faults = !fault_free && ctx.tape.coin();
    let commit_faults = !fault_free && ctx.tape.coin();
    // several primary keys (tables); some runs concentrate on two
    let n_tabs = 2 + ctx.tape.below(7);
    let mut tabs: Vec<usize> = (0..8).collect();
    ctx.tape.shuffle(&mut tabs);
    tabs.truncate(n_tabs);
    tabs.sort();
    let steps = 8 + ctx.tape.below(if ctx.tier == Tier::Thorough { 60 } else { 30 });
    ctx.ev(format!("direct tabs={tabs:?} steps={steps} read_faults={read_faults} commit_faults={commit_faults}"));
    let mut models: BTreeMap<usize, Model> = tabs.iter().map(|t| (*t, Model::new())).collect();
    let mut roots = check_tables(ctx, &db, "direct/start");

    for step in 0..steps {
        if ctx.failed() {
            return;
        }
        // one storage transaction: usually one operation, sometimes operations on two tables
        let n_ops = 1 + ctx.tape.weighted(&[5, 1]);
        let mut ops: Vec<(usize, Op)> = Vec::new();
        for _ in 0..n_ops {
            let tab = tabs[ctx.tape.below(tabs.len())];
            let mut m = models[&tab].clone();
            for (t, o) in &ops {
                if *t == tab {
                    apply_model(&mut m, o);
                }
            }
            let op = gen_op(ctx, tab, &m);
            ops.push((tab, op));
        }
        // faults
        if read_faults && ctx.tape.chance(1, 4) {
            plan.lock().unwrap().fail_read_in = Some(1 + ctx.tape.choose(12) as u32);
        }
        let mut lost_ack = false;
        if commit_faults {
            match ctx.tape.weighted(&[8, 1, 1]) {
                1 => plan.lock().unwrap().fail_next_commit = true,
                2 => {
                    plan.lock().unwrap().lost_ack_next_commit = true;
                    lost_ack = true;
                }
                _ => {}
            }
        }
        ctx.scope("C14");
        ctx.op(format!("step {step}: {ops:?}"));
        let mut expected = models.clone();
        let mut result: Result<(), String> = Ok(());
        let mut init_on_nonempty = false;
        {
            let mut tx = db.write_transaction();
            for (tab, op) in &ops {
                if let Op::Init(set) = op
                    && !set.is_empty()
                    && !expected[tab].is_empty()
                {
                    init_on_nonempty = true;
                }
                let r: Result<(), String> = exec_op!(tx, *tab, op);
                if let Err(e) = r {
                    result = Err(e);
                    break;
                }
                apply_model(expected.get_mut(tab).unwrap(), op);
            }
            if result.is_ok() {
                result = tx.commit().map(|_| ()).map_err(|e| format!("commit: {e:?}"));
            }
            // on error the transaction is dropped
        }
        let fired = {
            let mut p = plan.lock().unwrap();
            let f = (p.fired_read, p.fired_commit, p.fired_lost_ack);
            *p = Default::default();
            f
        };
        if fired.0 > 0 {
            ctx.fault("read_error_mid_operation");
        }
        if fired.1 > 0 {
            ctx.fault("commit_error");
        }
        if fired.2 > 0 {
            ctx.fault("commit_lost_ack");
        }
        let injected = fired.0 + fired.1 + fired.2 > 0;
        ctx.ev(format!("  -> {}", if result.is_ok() { "ok" } else { "err" }));
        let applied = match &result {
            Ok(()) => true,
            Err(_) => lost_ack && fired.2 > 0,
        };
        if let Err(e) = &result
            && !injected
        {
            // without a fault only `init` of an initialised table may fail
            ctx.check("C14", "operation-failed-without-fault", init_on_nonempty, || {
                format!("step {step} {ops:?} failed without an injected fault: {e}")
            });
            if init_on_nonempty {
                ctx.probe("init_on_initialised_table_refused");
            }
        }
        if result.is_ok() && init_on_nonempty {
            // an `init` over existing entries went through: contents and roots are checked below
            ctx.probe("init_on_nonempty_table_accepted");
        }
        if applied {
            models = expected;
        }
        // ---- oracle ----
        let new_roots = check_tables(ctx, &db, &format!("direct/step {step}"));
        if ctx.failed() {
            return;
        }
        let touched: Vec<usize> = if applied { ops.iter().map(|(t, _)| *t).collect() } else { vec![] };
        for (i, (name, _)) in TABLES.iter().enumerate() {
            if !touched.contains(&i) {
                let class = if applied { "other-key-root-changed" } else { "failed-operation-changed-root" };
                ctx.check("C14", class, new_roots[i] == roots[i], || {
                    format!(
                        "step {step} {ops:?} (applied={applied}) changed the root of untouched table {name}: {} -> {}",
                        hex4(&roots[i]),
                        hex4(&new_roots[i])
                    )
                });
            }
        }
        for tab in &tabs {
            let got = read_table(&db, *tab);
            let ok = matches!(&got, Ok(m) if *m == models[tab]);
            ctx.check("C14", "table-content", ok, || {
                format!(
                    "step {step} {ops:?} (applied={applied}): table {} holds {got:?}, the model {:?}",
                    TABLES[*tab].0, models[tab]
                )
            });
            let n_raw = raw_entries(&db, TABLES[*tab].1).len();
            ctx.check("C14", "table-content", n_raw == models[tab].len(), || {
                format!("table {} has {n_raw} raw entries, the model {}", TABLES[*tab].0, models[tab].len())
            });
        }
        roots = new_roots;
        // a restart now and then: the database is re-opened over the same store
        if ctx.tape.chance(1, 12) {
            ctx.ev("  reopen");
            db = <CompDb>::new(store.clone());
            let r2 = check_tables(ctx, &db, "direct/reopen");
            ctx.check("C14", "root-changed-by-restart", r2 == roots, || "roots differ after re-opening the database".to_string());
        }
    }
}

#[cfg(test)]
mod tests {
    use super::*;

    #[test]
    fn own_root_matches_fuel_merkle() {
        let mut rng = simkit::Rng::new(7);
        for n in 0..40usize {
            let entries: Vec<(Vec<u8>, Vec<u8>)> = (0..n)
                .map(|i| {
                    let k = (rng.next() % 50).to_be_bytes().to_vec();
                    let mut k2 = k.clone();
                    k2.push(i as u8);
                    (k2, vec![(rng.next() % 256) as u8; (rng.next() % 4) as usize])
                })
                .collect();
            assert_eq!(own_root(&entries), fuel_root(&entries), "n={n}");
        }
    }
}
