//! C28: reference model of the sync status and the oracle that compares the real
//! `fuel_core_sync::state::State` with it, plus the direct stepping mode.
//!
//! Model = (highest committed height, target). `target` is the highest height observed since
//! the last failure that cut it, i.e. the end of what is still to be processed:
//!   * observe(h): target := max(target, h) when h is above the committed height;
//!   * commit(h):  committed := max(committed, h); target := none once committed >= target;
//!   * failed(r):  if r intersects the processing range, everything from r.start on is given up:
//!                 target := r.start - 1, or none when r reaches down to the start of the range.
//! Status: none/none -> Uninitialized; no target -> Committed(committed);
//! else Processing(committed+1 (or 0) ..= target).

use fuel_core_sync::state::{
    State,
    Status,
    verif_api::StateEvent,
};
use simkit::Ctx;
use std::ops::RangeInclusive;

#[derive(Clone, Debug, PartialEq, Eq)]
pub enum MStatus {
    Uninitialized,
    Committed(u64),
    Processing(u64, u64),
}

#[derive(Clone, Debug)]
pub struct Model {
    pub committed: Option<u64>,
    pub target: Option<u64>,
    /// committed height implied by the last real status (for the monotonicity clause)
    last_real_committed: Option<u64>,
}

impl Model {
    pub fn new(committed: Option<u32>, observed: Option<u32>) -> Self {
        let committed = committed.map(u64::from);
        let mut m = Model {
            committed,
            target: None,
            last_real_committed: committed,
        };
        if let Some(o) = observed {
            m.observe(u64::from(o));
        }
        m
    }

    pub fn start(&self) -> u64 {
        self.committed.map(|c| c + 1).unwrap_or(0)
    }

    pub fn observe(&mut self, h: u64) {
        if h >= self.start() && h <= u64::from(u32::MAX) {
            self.target = Some(self.target.map_or(h, |t| t.max(h)));
        }
    }

    pub fn commit(&mut self, h: u64) {
        self.committed = Some(self.committed.map_or(h, |c| c.max(h)));
        if let (Some(c), Some(t)) = (self.committed, self.target) {
            if c >= t {
                self.target = None;
            }
        }
    }

    pub fn failed(&mut self, lo: u64, hi: u64) {
        if lo > hi {
            return;
        }
        let Some(t) = self.target else { return };
        let s = self.start();
        // intersection with s..=t ?
        if hi < s || lo > t {
            return;
        }
        if lo <= s {
            self.target = None;
        } else {
            self.target = Some(lo - 1);
        }
    }

    pub fn apply(&mut self, ev: &StateEvent) {
        match ev {
            StateEvent::Observe(h) => self.observe(u64::from(*h)),
            StateEvent::Commit(h) => self.commit(u64::from(*h)),
            StateEvent::FailedToProcess(r) => {
                self.failed(u64::from(*r.start()), u64::from(*r.end()))
            }
        }
    }

    pub fn status(&self) -> MStatus {
        match (self.committed, self.target) {
            (None, None) => MStatus::Uninitialized,
            (Some(c), None) => MStatus::Committed(c),
            (_, Some(t)) => MStatus::Processing(self.start(), t),
        }
    }
}

pub fn real_status(s: &Status) -> MStatus {
    match s {
        Status::Uninitialized => MStatus::Uninitialized,
        Status::Committed(c) => MStatus::Committed(u64::from(*c)),
        Status::Processing(r) => {
            MStatus::Processing(u64::from(*r.start()), u64::from(*r.end()))
        }
    }
}

pub fn fmt_event(ev: &StateEvent) -> String {
    match ev {
        StateEvent::Observe(h) => format!("observe({h})"),
        StateEvent::Commit(h) => format!("commit({h})"),
        StateEvent::FailedToProcess(r) => format!("failed({}..={})", r.start(), r.end()),
    }
}

/// The oracle of C28 for one event: `model` has NOT yet seen `ev`; `real` is the status of the
/// real state after the event. `origin` tells where the event came from (for the detail text).
pub fn check_event(
    ctx: &mut Ctx,
    model: &mut Model,
    ev: &StateEvent,
    real: &Status,
    origin: &str,
) {
    let before = model.status();
    model.apply(ev);
    let want = model.status();
    let got = real_status(real);
    ctx.ev(format!("state[{origin}] {} -> {:?}", fmt_event(ev), got));

    // shape: one of the three forms, a processing range is never empty
    let shape_ok = match &got {
        MStatus::Processing(a, b) => a <= b,
        _ => true,
    };
    ctx.check("C28", "status-shape", shape_ok, || {
        format!("{origin}: after {} (from {before:?}) the status is an empty processing range {got:?}", fmt_event(ev))
    });

    // the committed height never decreases
    let implied = match &got {
        MStatus::Uninitialized => None,
        MStatus::Committed(c) => Some(*c),
        MStatus::Processing(a, _) => a.checked_sub(1),
    };
    let mono_ok = match (model.last_real_committed, implied) {
        (Some(prev), Some(now)) => now >= prev,
        (Some(_), None) => false,
        _ => true,
    };
    ctx.check("C28", "committed-decreased", mono_ok, || {
        format!(
            "{origin}: after {} (from {before:?}) the committed height went from {:?} to {implied:?} (status {got:?})",
            fmt_event(ev),
            model.last_real_committed
        )
    });
    if let Some(now) = implied {
        model.last_real_committed = Some(model.last_real_committed.map_or(now, |p| p.max(now)));
    }

    // the three clauses of the statement, against the reference model
    match (&got, &want) {
        (MStatus::Uninitialized, MStatus::Uninitialized) => {
            ctx.check("C28", "status-vs-model", true, String::new);
        }
        (MStatus::Committed(c), _) => {
            let ok_height = Some(*c) == model.committed;
            ctx.check("C28", "committed-not-highest", ok_height, || {
                format!(
                    "{origin}: after {} (from {before:?}) status is Committed({c}) but the highest committed height is {:?}",
                    fmt_event(ev),
                    model.committed
                )
            });
            ctx.check("C28", "committed-with-work-left", model.target.is_none(), || {
                format!(
                    "{origin}: after {} (from {before:?}) status is Committed({c}) although heights up to {:?} were observed and not failed (expected {want:?})",
                    fmt_event(ev),
                    model.target
                )
            });
        }
        (MStatus::Processing(a, b), _) => {
            let start_ok = *a == model.start();
            ctx.check("C28", "processing-start", start_ok, || {
                format!(
                    "{origin}: after {} (from {before:?}) processing starts at {a}, expected right after committed {:?} (expected {want:?})",
                    fmt_event(ev),
                    model.committed
                )
            });
            ctx.check("C28", "processing-end", Some(*b) == model.target, || {
                format!(
                    "{origin}: after {} (from {before:?}) processing ends at {b}, expected the highest observed (not failed) height {:?} (expected {want:?})",
                    fmt_event(ev),
                    model.target
                )
            });
        }
        (MStatus::Uninitialized, _) => {
            ctx.check("C28", "status-vs-model", false, || {
                format!(
                    "{origin}: after {} (from {before:?}) status is Uninitialized, expected {want:?}",
                    fmt_event(ev)
                )
            });
        }
    }
}

fn universe_height(ctx: &mut Ctx, base: u32, span: u32) -> u32 {
    base.saturating_add(ctx.tape.choose(u64::from(span) + 1) as u32)
}

/// A height for the next event: uniform over the universe, or close to one of the heights
/// that matter for the current status (committed, start of the range, target), so that the
/// history keeps visiting the boundaries instead of collapsing into `Committed(top)`.
fn event_height(ctx: &mut Ctx, model: &Model, base: u32, span: u32) -> u32 {
    if ctx.tape.choose(3) == 0 {
        return universe_height(ctx, base, span);
    }
    let mut anchors: Vec<u64> = Vec::new();
    if let Some(c) = model.committed {
        anchors.push(c);
    }
    anchors.push(model.start());
    if let Some(t) = model.target {
        anchors.push(t);
    }
    let anchor = anchors[ctx.tape.below(anchors.len())] as i64;
    let delta = match ctx.tape.choose(5) {
        0 => 0,
        1 => 1,
        2 => -1,
        3 => 2,
        _ => -2,
    };
    (anchor + delta).clamp(i64::from(base), i64::from(base) + i64::from(span)) as u32
}

/// Direct stepping mode: tape-generated observe/commit/failure histories on the real `State`.
pub fn run_direct(ctx: &mut Ctx) {
    ctx.scope("C28");
    let span = *ctx.tape.pick(&[8u32, 3, 24, 1]);
    // 1 in 8 runs works at the top of the u32 range (saturating arithmetic in the state)
    let base = if ctx.tape.chance(1, 8) {
        ctx.probe("c28.high-universe");
        u32::MAX - span
    } else {
        0
    };
    let init_c = match ctx.tape.choose(3) {
        0 => None,
        _ => Some(universe_height(ctx, base, span)),
    };
    let init_o = match ctx.tape.choose(3) {
        0 => None,
        _ => Some(universe_height(ctx, base, span)),
    };
    ctx.op(format!("State::new({init_c:?}, {init_o:?}) universe {base}+{span}"));
    let mut real = State::new(init_c, init_o);
    let mut model = Model::new(init_c, init_o);
    {
        let got = real_status(real.verif_status());
        let want = model.status();
        ctx.check("C28", "initial-status", got == want, || {
            format!("State::new({init_c:?}, {init_o:?}) gives {got:?}, expected {want:?}")
        });
        // initial committed for the monotonicity clause
        model_reset_last(&mut model, &got);
    }
    let steps = 4 + ctx.tape.choose(if ctx.tier == simkit::Tier::Quick { 40 } else { 120 });
    let weights = match ctx.tape.choose(4) {
        0 => [4u64, 4, 2],
        1 => [6, 2, 2],
        2 => [2, 6, 2],
        _ => [3, 3, 6],
    };
    for _ in 0..steps {
        if ctx.failed() {
            return;
        }
        let ev = match ctx.tape.weighted(&weights) {
            0 => StateEvent::Observe(event_height(ctx, &model, base, span)),
            1 => StateEvent::Commit(event_height(ctx, &model, base, span)),
            _ => {
                let a = event_height(ctx, &model, base, span);
                let b = event_height(ctx, &model, base, span);
                // mostly well-formed ranges, sometimes empty ones
                let r: RangeInclusive<u32> = if a <= b || ctx.tape.chance(1, 4) {
                    a..=b
                } else {
                    b..=a
                };
                if r.is_empty() {
                    ctx.probe("c28.empty-failed-range");
                }
                StateEvent::FailedToProcess(r)
            }
        };
        ctx.op(format!("apply {}", fmt_event(&ev)));
        let before_changed = real.clone();
        let mut observe_ret = None;
        match &ev {
            StateEvent::Observe(h) => observe_ret = Some(real.observe(*h)),
            StateEvent::Commit(h) => real.commit(*h),
            StateEvent::FailedToProcess(r) => real.failed_to_process(r.clone()),
        }
        let status = real.verif_status().clone();
        check_event(ctx, &mut model, &ev, &status, "direct");
        // the public read side: process_range() is the range iff processing
        let pr = real.process_range();
        let want_pr = match &status {
            Status::Processing(r) => Some(r.clone()),
            _ => None,
        };
        ctx.check("C28", "process-range-vs-status", pr == want_pr, || {
            format!("process_range() = {pr:?} but status is {status:?}")
        });
        if let Some(ret) = observe_ret {
            if ret != (before_changed != real) {
                ctx.probe("c28.observe-return-differs-from-change");
            }
        }
        match &status {
            Status::Uninitialized => ctx.probe("c28.uninitialized"),
            Status::Committed(_) => ctx.probe("c28.committed"),
            Status::Processing(_) => ctx.probe("c28.processing"),
        }
    }
}

fn model_reset_last(model: &mut Model, got: &MStatus) {
    model.last_real_committed = match got {
        MStatus::Uninitialized => None,
        MStatus::Committed(c) => Some(*c),
        MStatus::Processing(a, _) => a.checked_sub(1),
    };
}
