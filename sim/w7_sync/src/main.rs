//! W7 sync — the real block sync service of fuel-core (`fuel_core_sync`) under deterministic
//! simulation with fault injection. Properties:
//!   C26 ordered import after header checks, peers with bad data are reported;
//!   C27 the import cache partitions every requested range exactly;
//!   C28 the sync status describes the gap to the best known height.
//!
//! Three kinds of runs (the first tape entry picks one, weighted by the property under check):
//!   S   the whole service (`new_service`) with simulated p2p / consensus / importer ports;
//!       evaluates C26 and, through the guarded observers, C27 and C28 on what the running
//!       service does;
//!   D27 the import cache driven directly: tape-generated insert/remove histories over heights
//!       0..=24 with batch sizes 1..=8, then an exhaustive sweep of all layouts of a window;
//!   D28 the `State` driven directly with tape-generated observe/commit/failure histories.

mod chain;
mod chunks;
mod service_world;
mod state_model;

use simkit::{
    Ctx,
    Tier,
    World,
};

struct SyncWorld;

impl World for SyncWorld {
    fn name(&self) -> &'static str {
        "w7_sync"
    }
    fn properties(&self) -> Vec<&'static str> {
        vec!["C26", "C27", "C28"]
    }
    fn real_components(&self) -> Vec<&'static str> {
        vec![
            "fuel_core_sync::service::new_service (SyncTask + ImportTask under fuel_core_services::ServiceRunner)",
            "fuel_core_sync::import::Import (get_block_stream, check_sealed_header, get_blocks, launch_stream, execute_and_commit, scan_err/scan_none)",
            "fuel_core_sync::import::cache::Cache (get_chunks, push_missing_chunks, handle_current_chunk, insert_headers/insert_blocks/remove_element)",
            "fuel_core_sync::state::State (observe, commit, failed_to_process, process_range)",
            "fuel_core_sync::sync::SyncHeights",
            "fuel_core_consensus_module::block_verifier::Verifier::verify_consensus + fuel_core_poa::verifier::verify_consensus (PoA v2 config, real secp256k1 seals)",
            "fuel_core_types Block::try_from_executed / BlockHeader::validate_transactions / generate_txns_root",
            "tokio current-thread runtime with paused clock (discrete-event scheduling)",
        ]
    }
    fn stubs(&self) -> Vec<&'static str> {
        vec![
            "PeerToPeerPort: SimNet of 1-4 scripted peers (height announcements, header and transaction replies with tape-chosen faults and latencies)",
            "BlockImporterPort: recording importer that accepts only the next canonical block, can fail a height, emits the committed-height stream (echo of sync commits, optional external commits)",
            "ConsensusPort::await_da_height: latency/error only; check_sealed_header = real verifier + injected port errors",
            "the chain itself: a fixed universe of 72 small blocks (0-3 script transactions) that are never executed by a VM",
        ]
    }
    fn default_runs(&self, prop: &str, tier: Tier) -> u64 {
        match (prop, tier) {
            ("C26", Tier::Quick) => 7000,
            ("C26", Tier::Thorough) => 400_000,
            ("C27", Tier::Quick) => 8000,
            ("C27", Tier::Thorough) => 50_000,
            (_, Tier::Quick) => 20_000,
            (_, Tier::Thorough) => 1_000_000,
        }
    }
    fn nontrivial_min_ops(&self, _prop: &str) -> u64 {
        5
    }
    fn assumptions(&self, prop: &str) -> Vec<String> {
        let mut v = vec![
            "single-threaded simulation: the service's tasks are interleaved by a paused current-thread tokio runtime; orders are varied through tape-chosen virtual latencies of every port call".to_string(),
        ];
        match prop {
            "C26" => {
                v.push("a reply is 'bad' when the headers at the requested heights are incomplete, a header fails the real consensus verifier, the reply is None, or a transaction list reproduces the root/count of no approvable header of its height; extra items beyond the request and request errors (no reply) create no obligation to report".into());
                v.push("report matching is per peer and per category (header reasons / transaction reasons), counted at quiescence; the exact reason is recorded as a statistic only".into());
                v.push("with external commits enabled, an execute_and_commit at or below the committed height is tolerated only for heights that were committed from elsewhere (race); the simulated importer rejects it like the real one".into());
                v.push("liveness is asserted only after faults stop, with every peer re-announcing the best height once per simulated second (the p2p heartbeat), bound 240 simulated seconds".into());
            }
            "C27" => {
                v.push("the quantifier asks for exhaustive enumeration: every run ends with an exhaustive sweep of all 3^n cache layouts x all sub-ranges of a window of n heights (n<=5 quick, n<=8 thorough) for one batch size; the universe 0..=24 as a whole is sampled by tape-generated histories".into());
            }
            "C28" => {
                v.push("reference model: (highest committed, target) where a failed range that intersects the processing range cuts the target back to just before it (or drops it); 'highest observed height' is read as the highest height observed and not given up by a failure".into());
            }
            _ => {}
        }
        v
    }

    fn run(&self, ctx: &mut Ctx) {
        // the first tape entry picks the kind of run; 0 = the service world
        let weights: [u64; 3] = match ctx.prop.as_str() {
            "C26" => [1, 0, 0],
            "C27" => [5, 5, 0],
            _ => [3, 0, 7],
        };
        match ctx.tape.weighted(&weights) {
            0 => service_world::run_service(ctx),
            1 => chunks::run_direct(ctx),
            _ => state_model::run_direct(ctx),
        }
    }
}

fn main() {
    simkit::cli::main_world(&SyncWorld)
}
