//! C27: the oracle for one `Cache::get_chunks` result and the direct cache modes
//! (tape-generated insert/remove histories; exhaustive sweep of a small height window).

use crate::chain::{
    Universe,
    Variant,
};
use fuel_core_sync::import::verif_api::{
    ChunksObservation,
    VerifCache,
    VerifCached,
    VerifChunk,
    set_chunks_observer,
};
use simkit::{
    Ctx,
    Tier,
};
use std::{
    cell::RefCell,
    collections::{
        BTreeMap,
        BTreeSet,
    },
    num::NonZeroU32,
    ops::Range,
    rc::Rc,
};

/// Known-finding class (F6): a "missing" chunk was clamped to the end of the whole range
/// instead of the next cached height, so it runs past that cached height and the following
/// cached chunk overlaps it.
pub const CLASS_F6: &str = "overlap:missing-chunk-runs-past-cached-height";

fn chunk_range(c: &VerifChunk) -> Range<u32> {
    match c {
        VerifChunk::Missing(r) => r.clone(),
        VerifChunk::Headers { range, .. } => range.clone(),
        VerifChunk::Blocks { range, .. } => range.clone(),
    }
}

fn chunk_kind(c: &VerifChunk) -> &'static str {
    match c {
        VerifChunk::Missing(_) => "none",
        VerifChunk::Headers { .. } => "headers",
        VerifChunk::Blocks { .. } => "blocks",
    }
}

pub fn fmt_chunks(chunks: &[VerifChunk]) -> String {
    chunks
        .iter()
        .map(|c| {
            let r = chunk_range(c);
            format!("{}({}..{})", chunk_kind(c), r.start, r.end)
        })
        .collect::<Vec<_>>()
        .join(" ")
}

pub fn fmt_cached(cached: &[(u32, VerifCached)]) -> String {
    cached
        .iter()
        .map(|(h, d)| match d {
            VerifCached::Header(_) => format!("{h}h"),
            VerifCached::Block(_) => format!("{h}b"),
        })
        .collect::<Vec<_>>()
        .join(",")
}

pub struct ChunkVerdict {
    /// heights that are covered by more than one chunk
    pub overlapped: BTreeSet<u32>,
    pub ok: bool,
}

/// Evaluate the clauses of C27 on one observation.
pub fn check_observation(ctx: &mut Ctx, obs: &ChunksObservation, origin: &str) -> ChunkVerdict {
    let size = u64::from(obs.max_chunk_size);
    let start = u64::from(*obs.range.start());
    let end_excl = u64::from(*obs.range.end()) + 1;
    let cached: BTreeMap<u32, &VerifCached> = obs.cached.iter().map(|(h, d)| (*h, d)).collect();
    let describe = |obs: &ChunksObservation| {
        format!(
            "{origin}: get_chunks({}..={}, batch {}) with cache [{}] returned [{}]",
            obs.range.start(),
            obs.range.end(),
            obs.max_chunk_size,
            fmt_cached(&obs.cached),
            fmt_chunks(&obs.chunks)
        )
    };
    let mut ok = true;
    let mut overlapped = BTreeSet::new();
    let mut covered: BTreeSet<u32> = BTreeSet::new();

    // probe: the input shape behind F6 (a gap before a cached height that the batch size does
    // not divide evenly)
    {
        let mut boundary = start;
        for (h, _) in obs.cached.iter() {
            let h = u64::from(*h);
            if h < start || h >= end_excl {
                continue;
            }
            if h > boundary && (h - boundary) % size != 0 {
                ctx.probe("c27.gap-not-multiple-of-batch-before-cached");
            }
            boundary = h + 1;
        }
    }

    if start >= end_excl {
        // empty request: nothing to cover
        let cond = obs.chunks.iter().all(|c| chunk_range(c).is_empty());
        ok &= ctx.check("C27", "chunks-for-empty-range", cond, || describe(obs));
        return ChunkVerdict { overlapped, ok };
    }

    let mut cursor = start;
    let mut prev: Option<&VerifChunk> = None;
    for (i, chunk) in obs.chunks.iter().enumerate() {
        let r = chunk_range(chunk);
        let (rs, re) = (u64::from(r.start), u64::from(r.end));
        // consecutive, non-overlapping, in order
        if rs != cursor {
            let class = if rs < cursor {
                let f6 = matches!(prev, Some(VerifChunk::Missing(p))
                    if p.start < r.start && r.start < p.end)
                    && !matches!(chunk, VerifChunk::Missing(_))
                    && cached.contains_key(&r.start);
                if f6 { CLASS_F6 } else { "overlap" }
            } else {
                "gap"
            };
            ok &= ctx.check("C27", class, false, || {
                format!(
                    "{}: chunk #{i} starts at {rs}, expected {cursor} (consecutive, non-overlapping batches)",
                    describe(obs)
                )
            });
        } else {
            ctx.check("C27", "consecutive", true, String::new);
        }
        for h in r.clone() {
            if !covered.insert(h) {
                overlapped.insert(h);
            }
        }
        // size
        let len = re.saturating_sub(rs);
        ok &= ctx.check("C27", "chunk-too-large", len <= size, || {
            format!("{}: chunk #{i} has {len} heights", describe(obs))
        });
        ok &= ctx.check("C27", "chunk-reversed", rs <= re, || {
            format!("{}: chunk #{i} has start > end", describe(obs))
        });
        // cached chunks carry exactly the cached items of their heights
        match chunk {
            VerifChunk::Missing(_) => {}
            VerifChunk::Headers { items, .. } => {
                let good = items.len() as u64 == len
                    && r.clone().zip(items.iter()).all(|(h, it)| {
                        matches!(cached.get(&h), Some(VerifCached::Header(c)) if c == it)
                    });
                ok &= ctx.check("C27", "cached-items-mismatch", good, || {
                    format!(
                        "{}: header chunk #{i} does not carry exactly the cached headers of its heights (carries {} items)",
                        describe(obs),
                        items.len()
                    )
                });
            }
            VerifChunk::Blocks { items, .. } => {
                let good = items.len() as u64 == len
                    && r.clone().zip(items.iter()).all(|(h, it)| {
                        matches!(cached.get(&h), Some(VerifCached::Block(c)) if c == it)
                    });
                ok &= ctx.check("C27", "cached-items-mismatch", good, || {
                    format!(
                        "{}: block chunk #{i} does not carry exactly the cached blocks of its heights (carries {} items)",
                        describe(obs),
                        items.len()
                    )
                });
            }
        }
        cursor = re.max(rs);
        prev = Some(chunk);
    }
    // covers the range exactly
    ok &= ctx.check("C27", "range-not-covered", cursor == end_excl, || {
        format!("{}: chunks end at {cursor}, the range ends at {end_excl}", describe(obs))
    });
    if !overlapped.is_empty() {
        ctx.probe("c27.overlapping-chunks-seen");
    }
    ChunkVerdict { overlapped, ok }
}

fn item_variant(ctx: &mut Ctx) -> Variant {
    match ctx.tape.choose(4) {
        0 | 1 => Variant::Canonical,
        2 => Variant::WrongKeySeal,
        _ => Variant::ForgedGenesisSeal,
    }
}

/// Direct mode: a tape-generated insert/remove history over heights 0..=24, batch sizes 1..=8,
/// followed by an exhaustive sweep of all cache layouts of a small window.
pub fn run_direct(ctx: &mut Ctx) {
    ctx.scope("C27");
    let uni = Universe::get();
    let seen: Rc<RefCell<Vec<ChunksObservation>>> = Rc::new(RefCell::new(Vec::new()));
    {
        let seen = seen.clone();
        set_chunks_observer(Some(Box::new(move |obs| seen.borrow_mut().push(obs))));
    }
    struct Unset;
    impl Drop for Unset {
        fn drop(&mut self) {
            set_chunks_observer(None);
        }
    }
    let _unset = Unset;

    const TOP: u32 = 24;
    let mut cache = VerifCache::new();
    let steps = 6 + ctx.tape.choose(if ctx.tier == Tier::Quick { 30 } else { 80 });
    for _ in 0..steps {
        if ctx.failed() {
            return;
        }
        match ctx.tape.weighted(&[4, 3, 3, 2]) {
            0 => {
                // get_chunks
                let a = ctx.tape.choose(u64::from(TOP) + 1) as u32;
                let b = ctx.tape.choose(u64::from(TOP) + 1) as u32;
                // requested ranges are never empty (`State::process_range` guarantees it;
                // an inverted range makes `BTreeMap::range` panic and is outside the property)
                let (a, b) = if a <= b { (a, b) } else { (b, a) };
                let size = 1 + ctx.tape.choose(8) as u32;
                ctx.op(format!("get_chunks {a}..={b} batch {size}"));
                seen.borrow_mut().clear();
                let chunks = cache.get_chunks(a..=b, NonZeroU32::new(size).unwrap());
                let obs = ChunksObservation {
                    range: a..=b,
                    max_chunk_size: size,
                    cached: cache.snapshot(),
                    chunks,
                };
                ctx.ev(format!(
                    "  cache [{}] -> [{}]",
                    fmt_cached(&obs.cached),
                    fmt_chunks(&obs.chunks)
                ));
                check_observation(ctx, &obs, "direct");
                // the observer hook (the one the service mode relies on) saw the same thing
                let s = seen.borrow();
                let same = s.len() == 1
                    && s[0].chunks == obs.chunks
                    && s[0].cached == obs.cached
                    && s[0].range == obs.range
                    && s[0].max_chunk_size == size;
                assert!(same, "harness: get_chunks observer disagrees with the direct call");
            }
            1 => {
                let a = ctx.tape.choose(u64::from(TOP) + 1) as u32;
                let len = 1 + ctx.tape.choose(8) as u32;
                let b = (a + len).min(TOP + 1);
                let v = item_variant(ctx);
                ctx.op(format!("insert_headers {a}..{b} {v:?}"));
                let items = (a..b).map(|h| uni.header(h, v)).collect();
                cache.insert_headers(None, a..b, items);
            }
            2 => {
                let a = ctx.tape.choose(u64::from(TOP) + 1) as u32;
                let len = 1 + ctx.tape.choose(8) as u32;
                let b = (a + len).min(TOP + 1);
                let v = item_variant(ctx);
                ctx.op(format!("insert_blocks {a}..{b} {v:?}"));
                let items = (a..b).map(|h| uni.block(h, v)).collect();
                cache.insert_blocks(None, a..b, items);
            }
            _ => {
                let n = 1 + ctx.tape.choose(4);
                let a = ctx.tape.choose(u64::from(TOP) + 1) as u32;
                ctx.op(format!("remove {a}..{}", a + n as u32));
                for h in a..a + n as u32 {
                    cache.remove_element(h);
                }
            }
        }
    }
    if ctx.failed() {
        return;
    }
    // the sweep does not need the observer (it would double the cost)
    set_chunks_observer(None);
    exhaustive_window(ctx);
}

/// All 3^n layouts (nothing / header / block per height) of a window of n heights, every
/// sub-range of the window plus one height of margin on each side, one batch size.
fn exhaustive_window(ctx: &mut Ctx) {
    let uni = Universe::get();
    let n: u32 = match ctx.tier {
        Tier::Quick => 3 + ctx.tape.choose(3) as u32,
        Tier::Thorough => {
            if ctx.tape.chance(1, 40) {
                8
            } else if ctx.tape.chance(1, 8) {
                7
            } else {
                3 + ctx.tape.choose(4) as u32
            }
        }
    };
    let size = 1 + ctx.tape.choose(8) as u32;
    let base = 1 + ctx.tape.choose(u64::from(24 - n)) as u32;
    ctx.op(format!("exhaustive window {base}..{} batch {size}", base + n));
    // which (window size, batch size) pairs were enumerated completely
    ctx.probe(&format!("c27.sweep.n{n}.batch{size}"));
    let headers: Vec<_> = (base..base + n)
        .map(|h| uni.header(h, Variant::Canonical))
        .collect();
    let blocks: Vec<_> = (base..base + n)
        .map(|h| uni.block(h, Variant::Canonical))
        .collect();
    let mut cache = VerifCache::new();
    let mut digits = vec![0u8; n as usize];
    let total = 3u64.pow(n);
    let nz = NonZeroU32::new(size).unwrap();
    let mut calls = 0u64;
    for layout in 0..total {
        if layout > 0 {
            // increment the base-3 counter, applying only the changed digits
            let mut i = 0usize;
            loop {
                digits[i] = (digits[i] + 1) % 3;
                let h = base + i as u32;
                match digits[i] {
                    0 => cache.remove_element(h),
                    1 => cache.insert_headers(None, h..h + 1, vec![headers[i].clone()]),
                    _ => cache.insert_blocks(None, h..h + 1, vec![blocks[i].clone()]),
                }
                if digits[i] != 0 {
                    break;
                }
                i += 1;
            }
        }
        let mut obs = ChunksObservation {
            range: 0..=0,
            max_chunk_size: size,
            cached: cache.snapshot(),
            chunks: Vec::new(),
        };
        let mut acc = simkit::Fnv::default();
        for a in base - 1..=base + n {
            for b in a..=base + n {
                obs.range = a..=b;
                obs.chunks = cache.get_chunks(a..=b, nz);
                calls += 1;
                acc.write(fmt_chunks(&obs.chunks).as_bytes());
                let verdict = check_observation(ctx, &obs, "exhaustive");
                if !verdict.ok && ctx.failed() {
                    return;
                }
            }
        }
        let snapshot = &obs.cached;
        if layout % 27 == 0 || layout + 1 == total {
            ctx.ev(format!(
                "layout {} [{}] chunks-hash {:016x}",
                layout,
                fmt_cached(snapshot),
                acc.0
            ));
        } else {
            ctx.trace.write(&acc.0.to_le_bytes());
        }
    }
    ctx.probe_n("c27.exhaustive-get-chunks-calls", calls);
    ctx.probe_n("c27.exhaustive-layouts", total);
    ctx.ops += total.min(50);
}
