//! The canonical chain the honest peers hold, and forged variants of its headers/blocks.
//!
//! The chain is a fixed universe (a pure function of the height), built once per process and
//! memoised: what varies per run is *which* replies the peers give, not the chain content.
//! Headers are sealed with real secp256k1 signatures and checked by the real
//! `fuel_core_consensus_module::block_verifier::Verifier` (PoA v2 config with one key rotation).

use fuel_core_chain_config::{
    ConsensusConfig,
    PoAV2,
};
use fuel_core_types::{
    blockchain::{
        SealedBlock,
        SealedBlockHeader,
        block::Block,
        consensus::{
            Consensus,
            Genesis,
            poa::PoAConsensus,
        },
        header::{
            ApplicationHeader,
            ConsensusHeader,
            PartialBlockHeader,
        },
        primitives::{
            DaBlockHeight,
            Empty,
        },
    },
    fuel_crypto::{
        SecretKey,
        Signature,
    },
    fuel_tx::{
        Bytes32,
        Input,
        Transaction,
        policies::Policies,
    },
    fuel_types::BlockHeight,
    tai64::Tai64,
};
use std::{
    collections::BTreeMap,
    sync::{
        Mutex,
        OnceLock,
    },
};

/// Highest height of the memoised universe.
pub const UNIVERSE_TOP: u32 = 71;
/// Heights `>= ROTATE_AT` are signed by the second authority key (PoA v2 override).
pub const ROTATE_AT: u32 = 17;

#[derive(Clone, Copy, Debug, PartialEq, Eq, PartialOrd, Ord)]
pub enum Variant {
    /// The canonical block.
    Canonical,
    /// Canonical header, seal made by a key that is not the authority.
    WrongKeySeal,
    /// Canonical header with an all-zero signature (no public key can be recovered).
    ZeroSignature,
    /// Header with another timestamp (other id) carrying the canonical seal.
    TamperedHeader,
    /// Self-consistent forged block (other transactions, matching root) sealed by a wrong key.
    ForgedWrongKey,
    /// Self-consistent forged block carrying a `Consensus::Genesis` seal (which the real
    /// verifier accepts at any height): passes the consensus check, is not canonical.
    ForgedGenesisSeal,
}

pub struct Universe {
    pub config: ConsensusConfig,
    canonical: Vec<SealedBlock>,
    variants: Mutex<BTreeMap<(u32, Variant), SealedBlock>>,
    key_a: SecretKey,
    key_b: SecretKey,
    key_evil: SecretKey,
}

fn secret(byte: u8) -> SecretKey {
    let mut b = [0u8; 32];
    b[31] = byte;
    b[0] = 1;
    SecretKey::try_from(Bytes32::from(b)).expect("valid secret key")
}

pub fn script_tx(tag: u32, k: u32) -> Transaction {
    let mut script = tag.to_be_bytes().to_vec();
    script.extend_from_slice(&k.to_be_bytes());
    Transaction::script(0, script, vec![], Policies::new(), vec![], vec![], vec![]).into()
}

/// Transactions of the canonical block at `height`: 0..=3 small distinct scripts.
pub fn canonical_txs(height: u32) -> Vec<Transaction> {
    let n = match height % 5 {
        0 => 1,
        1 => 0,
        2 => 2,
        3 => 1,
        _ => 3,
    };
    (0..n).map(|k| script_tx(height, k)).collect()
}

fn partial_header(height: u32, time_shift: u64) -> PartialBlockHeader {
    PartialBlockHeader {
        application: ApplicationHeader {
            da_height: DaBlockHeight(u64::from(height / 4)),
            consensus_parameters_version: 0,
            state_transition_bytecode_version: 0,
            generated: Empty,
        },
        consensus: ConsensusHeader {
            prev_root: Bytes32::from([(height % 251) as u8; 32]),
            height: BlockHeight::from(height),
            time: Tai64::from_unix(1_700_000_000 + i64::from(height) * 3 + time_shift as i64),
            generated: Empty,
        },
    }
}

fn build_block(height: u32, time_shift: u64, txs: Vec<Transaction>) -> Block {
    Block::new(partial_header(height, time_shift), txs, &[], Bytes32::zeroed())
        .expect("block generation")
}

fn seal(block: Block, key: &SecretKey) -> SealedBlock {
    let id = block.header().id();
    let signature = Signature::sign(key, id.as_message());
    SealedBlock {
        entity: block,
        consensus: Consensus::PoA(PoAConsensus::new(signature)),
    }
}

impl Universe {
    fn new() -> Self {
        let key_a = secret(7);
        let key_b = secret(11);
        let key_evil = secret(13);
        let addr_a = Input::owner(&key_a.public_key());
        let addr_b = Input::owner(&key_b.public_key());
        let mut overrides = BTreeMap::new();
        overrides.insert(BlockHeight::from(ROTATE_AT), addr_b);
        let config = ConsensusConfig::PoAV2(PoAV2::new(addr_a, overrides));
        let canonical = (0..=UNIVERSE_TOP)
            .map(|h| {
                let key = if h >= ROTATE_AT { &key_b } else { &key_a };
                seal(build_block(h, 0, canonical_txs(h)), key)
            })
            .collect();
        Universe {
            config,
            canonical,
            variants: Mutex::new(BTreeMap::new()),
            key_a,
            key_b,
            key_evil,
        }
    }

    pub fn get() -> &'static Universe {
        static U: OnceLock<Universe> = OnceLock::new();
        U.get_or_init(Universe::new)
    }

    pub fn canonical(&self, height: u32) -> &SealedBlock {
        &self.canonical[height as usize]
    }

    pub fn block(&self, height: u32, variant: Variant) -> SealedBlock {
        if variant == Variant::Canonical {
            return self.canonical(height).clone();
        }
        let mut memo = self.variants.lock().unwrap();
        memo.entry((height, variant))
            .or_insert_with(|| self.make_variant(height, variant))
            .clone()
    }

    fn make_variant(&self, height: u32, variant: Variant) -> SealedBlock {
        let canon = self.canonical(height);
        match variant {
            Variant::Canonical => canon.clone(),
            Variant::WrongKeySeal => seal(canon.entity.clone(), &self.key_evil),
            Variant::ZeroSignature => SealedBlock {
                entity: canon.entity.clone(),
                consensus: Consensus::PoA(PoAConsensus::default()),
            },
            Variant::TamperedHeader => {
                // another header id: the canonical seal recovers to some unrelated key
                let block = build_block(height, 1, canonical_txs(height));
                SealedBlock {
                    entity: block,
                    consensus: canon.consensus.clone(),
                }
            }
            Variant::ForgedWrongKey => {
                let mut txs = canonical_txs(height);
                txs.push(script_tx(height, 1000));
                // sealed by the authority key of the *other* epoch (rotated out / not yet valid)
                let wrong = if height >= ROTATE_AT {
                    &self.key_a
                } else {
                    &self.key_b
                };
                seal(build_block(height, 2, txs), wrong)
            }
            Variant::ForgedGenesisSeal => {
                let mut txs = canonical_txs(height);
                txs.push(script_tx(height, 2000));
                SealedBlock {
                    entity: build_block(height, 3, txs),
                    consensus: Consensus::Genesis(Genesis::default()),
                }
            }
        }
    }

    pub fn header(&self, height: u32, variant: Variant) -> SealedBlockHeader {
        let b = self.block(height, variant);
        SealedBlockHeader {
            entity: b.entity.header().clone(),
            consensus: b.consensus,
        }
    }

    pub fn txs(&self, height: u32, variant: Variant) -> Vec<Transaction> {
        self.block(height, variant).entity.transactions().to_vec()
    }
}

/// Stable short identity of a sealed header: block id + a digest of the seal.
#[derive(Clone, Debug, PartialEq, Eq, PartialOrd, Ord)]
pub struct HeaderKey(pub [u8; 32], pub Vec<u8>);

pub fn header_key(h: &SealedBlockHeader) -> HeaderKey {
    let id = h.entity.id();
    let mut idb = [0u8; 32];
    idb.copy_from_slice(id.as_slice());
    let seal = match &h.consensus {
        Consensus::Genesis(_) => b"genesis".to_vec(),
        Consensus::PoA(p) => p.signature.as_ref().to_vec(),
        #[allow(unreachable_patterns)]
        _ => b"other".to_vec(),
    };
    HeaderKey(idb, seal)
}

pub fn short_id(h: &SealedBlockHeader) -> String {
    let k = header_key(h);
    format!(
        "{:02x}{:02x}{:02x}/{:02x}{:02x}",
        k.0[0],
        k.0[1],
        k.0[2],
        k.1.first().copied().unwrap_or(0),
        k.1.get(1).copied().unwrap_or(0)
    )
}
