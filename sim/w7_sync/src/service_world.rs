//! Mode S: the real sync service (`fuel_core_sync::service::new_service`: SyncTask + ImportTask,
//! with its real `State` and import `Cache`) on a paused current-thread tokio runtime, wired to
//! simulated ports:
//!   * `PeerToPeerPort`  = SimNet of scripted peers (header/transaction replies that are complete,
//!     short, empty, `None`, errors, out-of-range, wrong heights, badly sealed, forged, not
//!     matching the header; tape-chosen virtual latencies; peers that vanish);
//!   * `ConsensusPort`   = the real `Verifier::verify_consensus` (PoA v2, real signatures) plus
//!     injected port errors; `await_da_height` with latency/errors;
//!   * `BlockImporterPort` = records/enforces order, fails heights, emits the committed stream
//!     (echo of sync's own commits, delayed; optional external commits).
//! Oracles: C26 on the importer/report side, C27 on every `Cache::get_chunks` the import task
//! makes (hook observer), C28 on every state event of the running service (hook observer).

use crate::{
    chain::{
        HeaderKey,
        Universe,
        Variant,
        header_key,
        script_tx,
        short_id,
    },
    chunks,
    state_model,
};
use fuel_core_consensus_module::block_verifier::{
    Verifier,
    config::Config as VerifierConfig,
};
use fuel_core_poa::ports::Database as PoaDatabase;
use fuel_core_services::{
    Service,
    stream::{
        BoxStream,
        IntoBoxStream,
    },
};
use fuel_core_storage::{
    Result as StorageResult,
    transactional::AtomicView,
};
use fuel_core_sync::{
    import::{
        Config as ImportConfig,
        verif_api::{
            ChunksObservation,
            VerifCached,
            set_chunks_observer,
        },
    },
    ports::{
        BlockImporterPort,
        ConsensusPort,
        PeerReportReason,
        PeerToPeerPort,
    },
    service::new_service,
    state::verif_api::set_state_observer,
};
use fuel_core_types::{
    blockchain::{
        SealedBlock,
        SealedBlockHeader,
        header::{
            BlockHeader,
            generate_txns_root,
        },
        primitives::DaBlockHeight,
    },
    fuel_tx::{
        Bytes32,
        Transaction,
    },
    fuel_types::BlockHeight,
    services::p2p::{
        PeerId,
        SourcePeer,
        Transactions,
    },
};
use simkit::{
    Ctx,
    Tier,
};
use std::{
    collections::{
        BTreeMap,
        BTreeSet,
        VecDeque,
    },
    ops::Range,
    sync::{
        Arc,
        Mutex,
        atomic::{
            AtomicBool,
            Ordering,
        },
    },
    time::Duration,
};
use tokio::sync::mpsc;
use tokio_stream::wrappers::UnboundedReceiverStream;

pub const CLASS_EXEC_REPEAT_F6: &str = "exec-repeat:overlapping-chunks";
pub const CLASS_NO_REPORT_SHORT_TXS: &str = "no-report:short-transactions";
pub const CLASS_LIVENESS_POISONED: &str = "liveness:cached-approved-header-without-matching-transactions";

// ---------------------------------------------------------------------------------------------
// access to the run context from the simulated ports

/// `run()` hands its `&mut Ctx` over to this cell for the duration of the run; every access goes
/// through `Sim::with`, on the one thread the run lives on.
struct CtxCell {
    ptr: *mut Ctx,
    busy: AtomicBool,
}
unsafe impl Send for CtxCell {}
unsafe impl Sync for CtxCell {}

pub struct Sim {
    cell: CtxCell,
    st: Mutex<SimState>,
}

impl Sim {
    fn with<R>(&self, f: impl FnOnce(&mut SimState, &mut Ctx) -> R) -> R {
        assert!(
            !self.cell.busy.swap(true, Ordering::SeqCst),
            "harness: re-entrant access to the run context"
        );
        let mut st = self.st.lock().unwrap_or_else(|e| e.into_inner());
        // SAFETY: the pointer is valid for the whole run (the Sim is dropped before `run`
        // returns), the run is single-threaded and `busy` excludes re-entrancy.
        let ctx = unsafe { &mut *self.cell.ptr };
        let r = f(&mut st, ctx);
        drop(st);
        self.cell.busy.store(false, Ordering::SeqCst);
        r
    }
}

// ---------------------------------------------------------------------------------------------
// configuration (swarm)

#[derive(Clone, Debug)]
struct Cfg {
    batch: usize,
    buffer: usize,
    c0: u32,
    top: u32,
    n_peers: usize,
    max_lat: u64,
    /// fault rates in percent, 0 = kind disabled
    f_hdr: u64,
    f_tx: u64,
    f_p2p_err: u64,
    f_cons_err: u64,
    f_exec: u64,
    f_report_err: u64,
    f_da_err: u64,
    f_forge: u64,
    external_commits: bool,
    lying: bool,
    churn: bool,
    fault_free: bool,
    /// per peer: how many correct following items the peer appends to every answer (headers and
    /// the matching transaction lists) - a consistent over-answer, 0 = exact answers
    over_answer: Vec<u32>,
}

fn rate(ctx: &mut Ctx, enabled: bool) -> u64 {
    if !enabled {
        return 0;
    }
    match ctx.tape.choose(3) {
        0 => 0,
        1 => 6,
        _ => 25,
    }
}

fn draw_cfg(ctx: &mut Ctx) -> Cfg {
    let profile = ctx.tape.choose(8);
    let fault_free = profile == 0;
    let faulty = !fault_free;
    let batch = 1 + ctx.tape.choose(8) as usize;
    let buffer = 1 + ctx.tape.choose(4) as usize;
    let c0 = ctx.tape.choose(7) as u32;
    let span_max = if ctx.tier == Tier::Quick { 24 } else { 40 };
    let top = c0 + 1 + ctx.tape.choose(span_max) as u32;
    let n_peers = 1 + ctx.tape.choose(4) as usize;
    let max_lat = *ctx.tape.pick(&[0u64, 3, 20, 200]);
    // C27 runs want the cache to be filled by partial failures: execution failures, external
    // commits and transaction faults are what leaves completed batches behind
    let bias27 = ctx.prop == "C27";
    let mut cfg = Cfg {
        batch,
        buffer,
        c0,
        top,
        n_peers,
        max_lat,
        f_hdr: rate(ctx, faulty),
        f_tx: rate(ctx, faulty),
        f_p2p_err: rate(ctx, faulty),
        f_cons_err: rate(ctx, faulty),
        f_exec: rate(ctx, faulty),
        f_report_err: rate(ctx, faulty),
        f_da_err: rate(ctx, faulty),
        f_forge: rate(ctx, faulty),
        external_commits: faulty && ctx.tape.choose(3) == 1,
        lying: faulty && ctx.tape.choose(3) == 1,
        churn: faulty && ctx.tape.choose(3) == 1,
        fault_free,
        over_answer: Vec::new(),
    };
    // in about 2 of 5 faulty runs some peers answer every request with more than was asked
    // for: k correct following headers, and k matching transaction lists
    let over = faulty && ctx.tape.choose(5) >= 3;
    for i in 0..n_peers {
        let k = if over && (i == 0 || ctx.tape.coin()) {
            1 + ctx.tape.choose(3) as u32
        } else {
            0
        };
        cfg.over_answer.push(k);
    }
    if bias27 && faulty {
        if cfg.f_exec == 0 && ctx.tape.coin() {
            cfg.f_exec = 25;
        }
        if !cfg.external_commits && ctx.tape.coin() {
            cfg.external_commits = true;
        }
    }
    cfg
}

// ---------------------------------------------------------------------------------------------
// simulated parties

struct Peer {
    id: PeerId,
    alive: bool,
    /// highest height the peer announced
    announced: Option<u32>,
    /// highest height the peer can really serve
    real_top: u32,
    /// heights for which the peer handed out a self-consistent forged block
    forged: BTreeMap<u32, Variant>,
    /// appends this many correct following items to every answer
    over_answer: u32,
}

#[derive(Clone, Copy, Debug, PartialEq, Eq, PartialOrd, Ord)]
enum Cat {
    Headers,
    Txs,
}

fn reason_cat(r: PeerReportReason) -> Option<Cat> {
    match r {
        PeerReportReason::SuccessfulBlockImport => None,
        PeerReportReason::MissingBlockHeaders | PeerReportReason::BadBlockHeader => {
            Some(Cat::Headers)
        }
        PeerReportReason::MissingTransactions | PeerReportReason::InvalidTransactions => {
            Some(Cat::Txs)
        }
    }
}

#[derive(Clone, Debug)]
enum HdrMutation {
    None,
    ReplyNone,
    Empty,
    Short(usize),
    Long,
    WrongHeightAt(usize, u32),
    SwapAt(usize),
    Shifted(i64),
    BadSealAt(usize, Variant),
    GenesisForgeAt(usize),
}

#[derive(Clone, Debug)]
enum TxMutation {
    None,
    Err,
    ReplyNone,
    Empty,
    Short(usize),
    Long,
    MismatchAt(usize, u64),
}

struct HdrReq {
    id: u64,
    range: Range<u32>,
    peer: Option<usize>,
    p2p_err: bool,
    mutation: HdrMutation,
    mutation2: HdrMutation,
    inject_cons_err_at: Option<usize>,
}

struct TxReq {
    id: u64,
    range: Range<u32>,
    peer: Option<usize>,
    from_peer: bool,
    mutation: TxMutation,
}

struct ExecReq {
    height: u32,
    canonical: bool,
    inject_fail: bool,
    doomed: bool,
}

/// What the import task holds after a header reply: how many headers survived the height and
/// consensus checks (exact, because the checks run synchronously right after the reply). The
/// transaction request of the same pipeline stage follows after `await_da_height`; if two
/// stages for the same (peer, range) are in that window at once the pairing is ambiguous and
/// only the first transaction list is assumed to be looked at.
struct HeaderOutcome {
    kept: usize,
    ambiguous: bool,
}

pub struct SimState {
    cfg: Cfg,
    uni: &'static Universe,
    verifier: Verifier<NoView>,
    peers: Vec<Peer>,
    faults_on: bool,
    next_req: u64,
    inflight: u64,
    t0: tokio::time::Instant,
    // importer
    chain: u32,
    sync_ok: BTreeSet<u32>,
    external: BTreeSet<u32>,
    execs: u64,
    heights_tx: mpsc::UnboundedSender<BlockHeight>,
    commits_tx: mpsc::UnboundedSender<BlockHeight>,
    heights_rx: Option<mpsc::UnboundedReceiver<BlockHeight>>,
    commits_rx: Option<mpsc::UnboundedReceiver<BlockHeight>>,
    // consensus
    /// headers for which `check_sealed_header` returned Ok(true) / Ok(false) at least once
    approved: BTreeSet<HeaderKey>,
    rejected: BTreeSet<HeaderKey>,
    pending_checks: VecDeque<(HeaderKey, bool)>,
    // reports
    obligations: BTreeMap<(usize, Cat), u64>,
    obligations_short_tx: BTreeMap<usize, u64>,
    obligation_log: Vec<String>,
    reports: BTreeMap<(usize, Cat), u64>,
    header_outcomes: BTreeMap<(usize, u32, u32), VecDeque<HeaderOutcome>>,
    // observers
    model: state_model::Model,
    last_obs: Option<ChunksObservation>,
    overlapped: BTreeSet<u32>,
    best_announced: Option<u32>,
}

fn peer_index(peers: &[Peer], id: &PeerId) -> Option<usize> {
    peers.iter().position(|p| &p.id == id)
}

impl SimState {
    fn now_ms(&self) -> u128 {
        self.t0.elapsed().as_millis()
    }

    fn roll(&self, ctx: &mut Ctx, pct: u64) -> bool {
        if !self.faults_on || pct == 0 {
            return false;
        }
        ctx.tape.chance(pct, 100)
    }

    fn latency(&self, ctx: &mut Ctx) -> u64 {
        if self.cfg.max_lat == 0 {
            return 0;
        }
        match ctx.tape.choose(4) {
            0 | 1 => 0,
            2 => 1 + ctx.tape.choose(self.cfg.max_lat.min(4)),
            _ => 1 + ctx.tape.choose(self.cfg.max_lat),
        }
    }

    fn txs_match(header: &BlockHeader, txs: &[Transaction]) -> bool {
        generate_txns_root(txs) == header.transactions_root()
            && txs.len() == usize::from(header.transactions_count())
    }

    /// Peers the real p2p layer could pick for a request ending at `last`: connected peers
    /// whose announced height covers it.
    fn candidates(&self, last: u32) -> Vec<usize> {
        self.peers
            .iter()
            .enumerate()
            .filter(|(_, p)| p.alive && p.announced.map_or(false, |a| a >= last))
            .map(|(i, _)| i)
            .collect()
    }

    // ----- headers -----

    fn begin_headers(&mut self, ctx: &mut Ctx, range: Range<u32>) -> (HdrReq, u64) {
        self.next_req += 1;
        self.inflight += 1;
        let id = self.next_req;
        let n = range.len();
        let cands = self.candidates(range.end.saturating_sub(1));
        let peer = if cands.is_empty() {
            None
        } else {
            Some(cands[ctx.tape.below(cands.len())])
        };
        let p2p_err = peer.is_some() && self.roll(ctx, self.cfg.f_p2p_err);
        let mut mutation = HdrMutation::None;
        let mut mutation2 = HdrMutation::None;
        let mut inject = None;
        if peer.is_some() && !p2p_err {
            if self.roll(ctx, self.cfg.f_hdr) {
                mutation = self.draw_hdr_mutation(ctx, n);
                if ctx.tape.chance(1, 5) {
                    mutation2 = self.draw_hdr_mutation(ctx, n);
                }
            } else if self.roll(ctx, self.cfg.f_forge) {
                mutation = if ctx.tape.coin() {
                    HdrMutation::GenesisForgeAt(ctx.tape.below(n.max(1)))
                } else {
                    HdrMutation::BadSealAt(
                        ctx.tape.below(n.max(1)),
                        *ctx.tape.pick(&[
                            Variant::WrongKeySeal,
                            Variant::ZeroSignature,
                            Variant::TamperedHeader,
                            Variant::ForgedWrongKey,
                        ]),
                    )
                };
            }
            if self.roll(ctx, self.cfg.f_cons_err) {
                inject = Some(ctx.tape.below(n.max(1)));
            }
        }
        let lat = self.latency(ctx);
        ctx.ev(format!(
            "t={} p2p.headers #{id} {}..{} peer={:?} err={p2p_err} mut={:?}/{:?} cons_err_at={inject:?} lat={lat}",
            self.now_ms(),
            range.start,
            range.end,
            peer,
            mutation,
            mutation2
        ));
        (
            HdrReq {
                id,
                range,
                peer,
                p2p_err,
                mutation,
                mutation2,
                inject_cons_err_at: inject,
            },
            lat,
        )
    }

    fn draw_hdr_mutation(&self, ctx: &mut Ctx, n: usize) -> HdrMutation {
        let n1 = n.max(1);
        match ctx.tape.choose(9) {
            0 => HdrMutation::Short(ctx.tape.below(n1)),
            1 => HdrMutation::ReplyNone,
            2 => HdrMutation::Empty,
            3 => HdrMutation::Long,
            4 => HdrMutation::WrongHeightAt(ctx.tape.below(n1), ctx.tape.choose(6) as u32),
            5 => HdrMutation::SwapAt(ctx.tape.below(n1)),
            6 => HdrMutation::Shifted(ctx.tape.choose(5) as i64 - 2),
            7 => HdrMutation::BadSealAt(
                ctx.tape.below(n1),
                *ctx.tape.pick(&[
                    Variant::WrongKeySeal,
                    Variant::ZeroSignature,
                    Variant::TamperedHeader,
                    Variant::ForgedWrongKey,
                ]),
            ),
            _ => HdrMutation::GenesisForgeAt(ctx.tape.below(n1)),
        }
    }

    fn apply_hdr_mutation(
        &mut self,
        ctx: &mut Ctx,
        peer: usize,
        range: &Range<u32>,
        list: &mut Option<Vec<SealedBlockHeader>>,
        m: &HdrMutation,
    ) {
        let uni = self.uni;
        let top = crate::chain::UNIVERSE_TOP;
        match m {
            HdrMutation::None => {}
            HdrMutation::ReplyNone => {
                ctx.fault("hdr.none");
                *list = None;
            }
            HdrMutation::Empty => {
                ctx.fault("hdr.empty");
                *list = Some(vec![]);
            }
            HdrMutation::Short(k) => {
                if let Some(l) = list {
                    if *k < l.len() {
                        ctx.fault("hdr.short");
                        l.truncate(*k);
                    }
                }
            }
            HdrMutation::Long => {
                if let Some(l) = list {
                    ctx.fault("hdr.long");
                    let next = range.end;
                    for h in next..(next + 2).min(top + 1) {
                        l.push(uni.header(h, Variant::Canonical));
                    }
                }
            }
            HdrMutation::WrongHeightAt(j, how) => {
                if let Some(l) = list {
                    if *j < l.len() {
                        ctx.fault("hdr.wrong-height");
                        let at = range.start + *j as u32;
                        let other = match how {
                            0 => at + 1,
                            1 => at.saturating_sub(1),
                            2 => at + 7,
                            3 => 0,
                            4 => top,
                            _ => at + 2,
                        }
                        .min(top);
                        let other = if other == at { (at + 1).min(top) } else { other };
                        l[*j] = uni.header(other, Variant::Canonical);
                    }
                }
            }
            HdrMutation::SwapAt(j) => {
                if let Some(l) = list {
                    if *j + 1 < l.len() {
                        ctx.fault("hdr.swapped");
                        l.swap(*j, *j + 1);
                    }
                }
            }
            HdrMutation::Shifted(d) => {
                if let Some(l) = list {
                    let n = range.len() as i64;
                    let s = (i64::from(range.start) + d * n).clamp(0, i64::from(top)) as u32;
                    if s != range.start {
                        ctx.fault("hdr.out-of-range");
                        *l = (s..(s + range.len() as u32).min(top + 1))
                            .map(|h| uni.header(h, Variant::Canonical))
                            .collect();
                    }
                }
            }
            HdrMutation::BadSealAt(j, v) => {
                if let Some(l) = list {
                    if *j < l.len() {
                        ctx.fault("hdr.bad-seal");
                        let h: u32 = **l[*j].entity.height();
                        l[*j] = uni.header(h, *v);
                        if *v == Variant::ForgedWrongKey {
                            self.peers[peer].forged.insert(h, *v);
                        }
                    }
                }
            }
            HdrMutation::GenesisForgeAt(j) => {
                if let Some(l) = list {
                    if *j < l.len() {
                        ctx.fault("hdr.genesis-sealed-forgery");
                        let h: u32 = **l[*j].entity.height();
                        l[*j] = uni.header(h, Variant::ForgedGenesisSeal);
                        self.peers[peer].forged.insert(h, Variant::ForgedGenesisSeal);
                    }
                }
            }
        }
    }

    fn finish_headers(
        &mut self,
        ctx: &mut Ctx,
        req: HdrReq,
    ) -> anyhow::Result<SourcePeer<Option<Vec<SealedBlockHeader>>>> {
        self.inflight -= 1;
        let Some(peer) = req.peer else {
            ctx.fault("p2p.no-peer");
            ctx.ev(format!("t={} p2p.headers #{} -> Err(no peer)", self.now_ms(), req.id));
            return Err(anyhow::anyhow!("no peer found"));
        };
        if req.p2p_err {
            ctx.fault("p2p.headers-error");
            ctx.ev(format!("t={} p2p.headers #{} -> Err(injected)", self.now_ms(), req.id));
            return Err(anyhow::anyhow!("injected p2p error"));
        }
        if !self.peers[peer].alive {
            ctx.fault("p2p.peer-vanished-midflight");
            ctx.ev(format!("t={} p2p.headers #{} -> Err(peer vanished)", self.now_ms(), req.id));
            return Err(anyhow::anyhow!("peer vanished"));
        }
        let n = req.range.len();
        // the honest answer: what the peer really has
        let real_top = self.peers[peer].real_top;
        let forged = self.peers[peer].forged.clone();
        let mut list: Option<Vec<SealedBlockHeader>> = {
            let v: Vec<SealedBlockHeader> = req
                .range
                .clone()
                .filter(|h| *h <= real_top)
                .map(|h| {
                    // a peer that forged a block keeps serving its own version
                    let v = if self.faults_on {
                        forged.get(&h).copied().unwrap_or(Variant::Canonical)
                    } else {
                        Variant::Canonical
                    };
                    self.uni.header(h, v)
                })
                .collect();
            if v.is_empty() { None } else { Some(v) }
        };
        if list.as_ref().map_or(0, |l| l.len()) < n {
            ctx.fault("hdr.peer-lacks-heights");
        } else if self.faults_on && self.peers[peer].over_answer > 0 {
            // consistent over-answer: the correct headers that follow the requested range
            let k = self.peers[peer].over_answer;
            let extra: Vec<SealedBlockHeader> = (req.range.end..req.range.end + k)
                .filter(|h| *h <= real_top)
                .map(|h| {
                    self.uni
                        .header(h, forged.get(&h).copied().unwrap_or(Variant::Canonical))
                })
                .collect();
            if !extra.is_empty() {
                ctx.fault("hdr.over-answer");
                if let Some(l) = &mut list {
                    l.extend(extra);
                }
            }
        }
        let (m1, m2) = (req.mutation.clone(), req.mutation2.clone());
        self.apply_hdr_mutation(ctx, peer, &req.range, &mut list, &m1);
        self.apply_hdr_mutation(ctx, peer, &req.range, &mut list, &m2);

        // --- what the import task will do with it (exact: it happens before the next await)
        let got: &[SealedBlockHeader] = list.as_deref().unwrap_or(&[]);
        let m = got
            .iter()
            .zip(req.range.clone())
            .take_while(|(h, want)| **h.entity.height() == *want)
            .count();
        let mut notes = Vec::new();
        if m != n {
            *self.obligations.entry((peer, Cat::Headers)).or_default() += 1;
            notes.push(format!("missing({m}/{n})"));
            self.obligation_log.push(format!(
                "headers #{} {}..{} from peer {peer}: only {m} of {n} headers at the requested heights",
                req.id, req.range.start, req.range.end
            ));
        }
        self.pending_checks.clear();
        let mut kept = Vec::new();
        for (i, h) in got.iter().take(m).enumerate() {
            let inject = req.inject_cons_err_at == Some(i);
            self.pending_checks.push_back((header_key(h), inject));
            if inject {
                notes.push(format!("cons-err@{i}"));
                break;
            }
            if !self.verifier.verify_consensus(h) {
                *self.obligations.entry((peer, Cat::Headers)).or_default() += 1;
                notes.push(format!("bad-seal@{i}"));
                self.obligation_log.push(format!(
                    "headers #{} {}..{} from peer {peer}: header #{i} (height {}) fails the consensus check",
                    req.id,
                    req.range.start,
                    req.range.end,
                    **h.entity.height()
                ));
                break;
            }
            kept.push(h.clone());
        }
        if kept.len() == n {
            ctx.probe("s.header-batch-complete");
        } else if !kept.is_empty() {
            ctx.probe("s.header-batch-partial");
        }
        if !kept.is_empty() {
            // a transaction request for this (peer, range) follows
            let q = self
                .header_outcomes
                .entry((peer, req.range.start, req.range.end))
                .or_default();
            let ambiguous = !q.is_empty();
            if ambiguous {
                ctx.probe("s.ambiguous-header-transaction-pairing");
                for o in q.iter_mut() {
                    o.ambiguous = true;
                }
            }
            q.push_back(HeaderOutcome {
                kept: kept.len(),
                ambiguous,
            });
        }
        ctx.ev(format!(
            "t={} p2p.headers #{} -> peer {peer} {} [{}] {}",
            self.now_ms(),
            req.id,
            match &list {
                None => "None".to_string(),
                Some(l) => format!("Some({})", l.len()),
            },
            got.iter()
                .map(|h| format!("{}:{}", **h.entity.height(), short_id(h)))
                .collect::<Vec<_>>()
                .join(" "),
            notes.join(",")
        ));
        Ok(self.peers[peer].id.clone().bind(list))
    }

    // ----- consensus -----

    fn check_sealed_header(
        &mut self,
        ctx: &mut Ctx,
        header: &SealedBlockHeader,
    ) -> anyhow::Result<bool> {
        let key = header_key(header);
        let inject = match self.pending_checks.pop_front() {
            Some((k, inj)) if k == key => inj,
            Some(_) | None => {
                ctx.probe("s.unplanned-consensus-check");
                self.pending_checks.clear();
                false
            }
        };
        if inject {
            ctx.fault("consensus.check-error");
            ctx.ev(format!(
                "consensus.check h={} {} -> Err(injected)",
                **header.entity.height(),
                short_id(header)
            ));
            return Err(anyhow::anyhow!("injected consensus error"));
        }
        let ok = self.verifier.verify_consensus(header);
        if ok {
            self.approved.insert(key);
        } else {
            self.rejected.insert(key);
        }
        if !ok {
            ctx.probe("s.consensus-rejected-header");
        }
        ctx.ev(format!(
            "consensus.check h={} {} -> {ok}",
            **header.entity.height(),
            short_id(header)
        ));
        Ok(ok)
    }

    fn begin_da(&mut self, ctx: &mut Ctx, da: u64) -> (bool, u64) {
        let err = self.roll(ctx, self.cfg.f_da_err);
        let lat = self.latency(ctx);
        ctx.ev(format!("consensus.await_da {da} err={err} lat={lat}"));
        if err {
            ctx.fault("consensus.da-error");
        }
        (err, lat)
    }

    // ----- transactions -----

    fn begin_txs(
        &mut self,
        ctx: &mut Ctx,
        range: Range<u32>,
        from: Option<&PeerId>,
    ) -> (TxReq, u64) {
        self.next_req += 1;
        self.inflight += 1;
        let id = self.next_req;
        let n = range.len();
        let (peer, from_peer) = match from {
            Some(pid) => (peer_index(&self.peers, pid), true),
            None => {
                let cands = self.candidates(range.end.saturating_sub(1));
                if cands.is_empty() {
                    (None, false)
                } else {
                    (Some(cands[ctx.tape.below(cands.len())]), false)
                }
            }
        };
        let mut mutation = TxMutation::None;
        if peer.is_some() {
            if self.roll(ctx, self.cfg.f_p2p_err) {
                mutation = TxMutation::Err;
            } else if self.roll(ctx, self.cfg.f_tx) {
                let n1 = n.max(1);
                mutation = match ctx.tape.choose(6) {
                    0 => TxMutation::MismatchAt(ctx.tape.below(n1), ctx.tape.choose(5)),
                    1 => TxMutation::ReplyNone,
                    2 => TxMutation::Short(ctx.tape.below(n1)),
                    3 => TxMutation::Long,
                    4 => TxMutation::Empty,
                    _ => TxMutation::MismatchAt(0, ctx.tape.choose(5)),
                };
            }
        }
        let lat = self.latency(ctx);
        ctx.ev(format!(
            "t={} p2p.txs #{id} {}..{} peer={peer:?} from_peer={from_peer} mut={mutation:?} lat={lat}",
            self.now_ms(),
            range.start,
            range.end
        ));
        (
            TxReq {
                id,
                range,
                peer,
                from_peer,
                mutation,
            },
            lat,
        )
    }

    /// `Err(())` = request error; `Ok((peer, None|Some(list)))` otherwise.
    #[allow(clippy::type_complexity)]
    fn finish_txs(
        &mut self,
        ctx: &mut Ctx,
        req: TxReq,
    ) -> Result<(usize, Option<Vec<Transactions>>), ()> {
        self.inflight -= 1;
        let Some(peer) = req.peer else {
            ctx.fault("p2p.no-peer");
            ctx.ev(format!("t={} p2p.txs #{} -> Err(no peer)", self.now_ms(), req.id));
            return Err(());
        };
        if !self.peers[peer].alive {
            ctx.fault("p2p.peer-vanished-midflight");
            ctx.ev(format!("t={} p2p.txs #{} -> Err(peer vanished)", self.now_ms(), req.id));
            return Err(());
        }
        if matches!(req.mutation, TxMutation::Err) {
            ctx.fault("p2p.txs-error");
            ctx.ev(format!("t={} p2p.txs #{} -> Err(injected)", self.now_ms(), req.id));
            return Err(());
        }
        let uni = self.uni;
        let n = req.range.len();
        let real_top = self.peers[peer].real_top;
        let forged = self.peers[peer].forged.clone();
        let base: Vec<Vec<Transaction>> = req
            .range
            .clone()
            .filter(|h| *h <= real_top)
            .map(|h| {
                let v = if self.faults_on {
                    forged.get(&h).copied().unwrap_or(Variant::Canonical)
                } else {
                    Variant::Canonical
                };
                uni.txs(h, v)
            })
            .collect();
        let mut list: Option<Vec<Vec<Transaction>>> =
            if base.is_empty() { None } else { Some(base) };
        if list.as_ref().map_or(0, |l| l.len()) < n {
            ctx.fault("txs.peer-lacks-heights");
        } else if self.faults_on && self.peers[peer].over_answer > 0 {
            // ... and the transaction lists that match those extra headers
            let k = self.peers[peer].over_answer;
            let extra: Vec<Vec<Transaction>> = (req.range.end..req.range.end + k)
                .filter(|h| *h <= real_top)
                .map(|h| uni.txs(h, forged.get(&h).copied().unwrap_or(Variant::Canonical)))
                .collect();
            if !extra.is_empty() {
                ctx.fault("txs.over-answer");
                if let Some(l) = &mut list {
                    l.extend(extra);
                }
            }
        }
        match &req.mutation {
            TxMutation::None | TxMutation::Err => {}
            TxMutation::ReplyNone => {
                ctx.fault("txs.none");
                list = None;
            }
            TxMutation::Empty => {
                ctx.fault("txs.empty");
                list = Some(vec![]);
            }
            TxMutation::Short(k) => {
                if let Some(l) = &mut list {
                    if *k < l.len() {
                        ctx.fault("txs.short");
                        l.truncate(*k);
                    }
                }
            }
            TxMutation::Long => {
                if let Some(l) = &mut list {
                    ctx.fault("txs.long");
                    if req.id % 2 == 0 {
                        // the correct lists of the heights that follow the range
                        let top = crate::chain::UNIVERSE_TOP;
                        for h in req.range.end..(req.range.end + 2).min(top + 1) {
                            l.push(uni.txs(h, Variant::Canonical));
                        }
                    } else {
                        l.push(vec![script_tx(9999, 1)]);
                        l.push(vec![]);
                    }
                }
            }
            TxMutation::MismatchAt(j, how) => {
                if let Some(l) = &mut list {
                    if *j < l.len() {
                        ctx.fault("txs.mismatch");
                        let h = req.range.start + *j as u32;
                        let t = &mut l[*j];
                        match how {
                            0 if !t.is_empty() => {
                                t.pop();
                            }
                            1 if t.len() >= 2 => t.swap(0, 1),
                            2 if !t.is_empty() => t[0] = script_tx(h, 77),
                            3 => {
                                *t = uni.txs(
                                    (h + 1).min(crate::chain::UNIVERSE_TOP),
                                    Variant::Canonical,
                                )
                            }
                            _ => t.push(script_tx(h, 88)),
                        }
                    }
                }
            }
        }

        // --- how many of the lists the import task will pair with headers it holds
        let (held, exact) = if req.from_peer {
            match self
                .header_outcomes
                .get_mut(&(peer, req.range.start, req.range.end))
                .and_then(|q| q.pop_front())
            {
                Some(o) if !o.ambiguous => (o.kept, true),
                Some(_) => (1, false),
                None => {
                    ctx.probe("s.txs-request-without-header-reply");
                    (1, false)
                }
            }
        } else {
            // only a cached header chunk asks without naming a peer: all its headers are held
            (n, true)
        };
        // a list is certainly bad when it reproduces none of the headers that can pass the
        // consensus check at that height (the canonical one, the genesis-sealed forgery)
        let certainly_bad = |h: u32, txs: &[Transaction]| {
            h > crate::chain::UNIVERSE_TOP
                || [Variant::Canonical, Variant::ForgedGenesisSeal]
                    .iter()
                    .all(|v| !Self::txs_match(&uni.header(h, *v).entity, txs))
        };
        let mut notes = Vec::new();
        match &list {
            None => {
                *self.obligations.entry((peer, Cat::Txs)).or_default() += 1;
                notes.push("none".to_string());
                self.obligation_log.push(format!(
                    "transactions #{} {}..{} from peer {peer}: replied None",
                    req.id, req.range.start, req.range.end
                ));
            }
            Some(l) => {
                let bad = l
                    .iter()
                    .take(held)
                    .enumerate()
                    .find(|(i, txs)| certainly_bad(req.range.start + *i as u32, txs))
                    .map(|(i, _)| i);
                if let Some(i) = bad {
                    *self.obligations.entry((peer, Cat::Txs)).or_default() += 1;
                    notes.push(format!("mismatch@{i}"));
                    self.obligation_log.push(format!(
                        "transactions #{} {}..{} from peer {peer}: list #{i} does not reproduce the root/count of any approvable header of height {}",
                        req.id,
                        req.range.start,
                        req.range.end,
                        req.range.start + i as u32
                    ));
                } else if exact && l.len() < held {
                    *self.obligations_short_tx.entry(peer).or_default() += 1;
                    notes.push(format!("short({}/{held})", l.len()));
                    ctx.probe("s.short-transactions-reply");
                    self.obligation_log.push(format!(
                        "transactions #{} {}..{} from peer {peer}: only {} lists for {held} checked headers",
                        req.id,
                        req.range.start,
                        req.range.end,
                        l.len()
                    ));
                }
            }
        }
        ctx.ev(format!(
            "t={} p2p.txs #{} -> peer {peer} {} {}",
            self.now_ms(),
            req.id,
            match &list {
                None => "None".to_string(),
                Some(l) => format!(
                    "Some([{}])",
                    l.iter().map(|t| t.len().to_string()).collect::<Vec<_>>().join(",")
                ),
            },
            notes.join(",")
        ));
        Ok((peer, list.map(|l| l.into_iter().map(Transactions).collect())))
    }

    // ----- reports -----

    fn report_peer(
        &mut self,
        ctx: &mut Ctx,
        peer: PeerId,
        reason: PeerReportReason,
    ) -> anyhow::Result<()> {
        let idx = peer_index(&self.peers, &peer);
        ctx.ev(format!("p2p.report peer={idx:?} {reason:?}"));
        match (idx, reason_cat(reason)) {
            (Some(i), Some(cat)) => {
                *self.reports.entry((i, cat)).or_default() += 1;
                ctx.probe(match reason {
                    PeerReportReason::MissingBlockHeaders => "s.report.missing-headers",
                    PeerReportReason::BadBlockHeader => "s.report.bad-header",
                    PeerReportReason::MissingTransactions => "s.report.missing-transactions",
                    _ => "s.report.invalid-transactions",
                });
            }
            (Some(_), None) => ctx.probe("s.report.successful-import"),
            (None, _) => ctx.probe("s.report.unknown-peer"),
        }
        if self.roll(ctx, self.cfg.f_report_err) {
            ctx.fault("p2p.report-error");
            return Err(anyhow::anyhow!("injected report error"));
        }
        Ok(())
    }

    // ----- importer -----

    fn begin_exec(&mut self, ctx: &mut Ctx, block: &SealedBlock) -> (ExecReq, u64) {
        self.execs += 1;
        self.inflight += 1;
        let h: u32 = **block.entity.header().height();
        let sealed_header = SealedBlockHeader {
            entity: block.entity.header().clone(),
            consensus: block.consensus.clone(),
        };
        let canonical = h <= crate::chain::UNIVERSE_TOP && self.uni.canonical(h) == block;
        ctx.op(format!(
            "t={} importer.execute_and_commit h={h} {} txs={} (chain at {})",
            self.now_ms(),
            short_id(&sealed_header),
            block.entity.transactions().len(),
            self.chain
        ));

        // C26: only after the header passed the consensus check
        let key = header_key(&sealed_header);
        let approved = self.approved.contains(&key);
        let rejected = self.rejected.contains(&key);
        ctx.check("C26", "exec-header-not-approved", approved && !rejected, || {
            format!(
                "execute_and_commit of height {h} whose sealed header {} {}",
                short_id(&sealed_header),
                if rejected {
                    "failed check_sealed_header"
                } else {
                    "never passed check_sealed_header"
                }
            )
        });
        // C26: the transactions reproduce the header's root and count
        let tx_ok = Self::txs_match(block.entity.header(), block.entity.transactions());
        ctx.check("C26", "exec-transactions-do-not-match-header", tx_ok, || {
            format!(
                "execute_and_commit of height {h}: {} transactions do not reproduce the header's transactions root/count ({})",
                block.entity.transactions().len(),
                block.entity.header().transactions_count()
            )
        });
        // C26: strictly increasing consecutive heights right after the committed height
        let mut doomed = false;
        if self.sync_ok.contains(&h) {
            doomed = true;
            let class = if self.overlapped.contains(&h) {
                CLASS_EXEC_REPEAT_F6
            } else {
                "exec-repeat-after-success"
            };
            let obs = self.last_obs.as_ref().map(|o| {
                format!(
                    "get_chunks({}..={}, batch {}) with cache [{}] had returned [{}]",
                    o.range.start(),
                    o.range.end(),
                    o.max_chunk_size,
                    chunks::fmt_cached(&o.cached),
                    chunks::fmt_chunks(&o.chunks)
                )
            });
            ctx.check("C26", class, false, || {
                format!(
                    "execute_and_commit called again for height {h} which the sync service already executed successfully (chain at {}); {}",
                    self.chain,
                    obs.unwrap_or_default()
                )
            });
        } else if h > self.chain + 1 {
            doomed = true;
            ctx.check("C26", "exec-skips-heights", false, || {
                format!(
                    "execute_and_commit of height {h} while the committed height is {} (heights in between were never executed)",
                    self.chain
                )
            });
        } else if h <= self.chain {
            doomed = true;
            // only legitimate as a race with a block committed from elsewhere
            let race = self.external.contains(&h);
            if race {
                ctx.probe("s.exec-raced-with-external-commit");
            }
            ctx.check("C26", "exec-below-committed", race, || {
                format!(
                    "execute_and_commit of height {h} at or below the committed height {} that nobody else committed",
                    self.chain
                )
            });
        } else {
            ctx.check("C26", "exec-order", true, String::new);
        }
        if !canonical {
            ctx.probe("s.exec-of-approved-noncanonical-block");
        }
        let inject_fail = !doomed && canonical && self.roll(ctx, self.cfg.f_exec);
        let lat = self.latency(ctx);
        (
            ExecReq {
                height: h,
                canonical,
                inject_fail,
                doomed,
            },
            lat,
        )
    }

    fn finish_exec(&mut self, ctx: &mut Ctx, req: ExecReq) -> anyhow::Result<()> {
        self.inflight -= 1;
        let h = req.height;
        let res = if req.doomed || h != self.chain + 1 {
            Err(anyhow::anyhow!("importer: height {h} is not the next height ({})", self.chain + 1))
        } else if !req.canonical {
            ctx.fault("importer.rejects-noncanonical-block");
            Err(anyhow::anyhow!("importer: block {h} fails validation"))
        } else if req.inject_fail {
            ctx.fault("importer.execution-failure");
            Err(anyhow::anyhow!("injected execution failure at {h}"))
        } else {
            Ok(())
        };
        ctx.ev(format!(
            "t={} importer.result h={h} -> {}",
            self.now_ms(),
            if res.is_ok() { "Ok" } else { "Err" }
        ));
        if res.is_ok() {
            self.chain = h;
            self.sync_ok.insert(h);
            ctx.probe("s.block-imported");
            self.echo_commit(ctx, h);
        }
        res
    }

    /// The importer announces every commit on the committed-height stream, possibly late.
    fn echo_commit(&mut self, ctx: &mut Ctx, h: u32) {
        let delay = if self.cfg.max_lat > 0 && ctx.tape.chance(1, 4) {
            1 + ctx.tape.choose(self.cfg.max_lat * 3)
        } else {
            0
        };
        let tx = self.commits_tx.clone();
        if delay == 0 {
            let _ = tx.send(BlockHeight::from(h));
        } else {
            ctx.probe("s.delayed-commit-echo");
            tokio::spawn(async move {
                tokio::time::sleep(Duration::from_millis(delay)).await;
                let _ = tx.send(BlockHeight::from(h));
            });
        }
    }

    // ----- observers -----

    fn on_chunks(&mut self, ctx: &mut Ctx, obs: ChunksObservation) {
        ctx.ev(format!(
            "t={} cache.get_chunks {}..={} batch {} cache [{}] -> [{}]",
            self.now_ms(),
            obs.range.start(),
            obs.range.end(),
            obs.max_chunk_size,
            chunks::fmt_cached(&obs.cached),
            chunks::fmt_chunks(&obs.chunks)
        ));
        if !obs.cached.is_empty() {
            ctx.probe("s.get-chunks-with-nonempty-cache");
        }
        if obs.cached.iter().any(|(_, d)| matches!(d, VerifCached::Header(_))) {
            ctx.probe("s.get-chunks-with-cached-headers");
        }
        let verdict = chunks::check_observation(ctx, &obs, "service");
        self.overlapped = verdict.overlapped;
        self.last_obs = Some(obs);
    }
}

// ---------------------------------------------------------------------------------------------
// ports

#[derive(Clone)]
struct P2p(Arc<Sim>);
#[derive(Clone)]
struct Importer(Arc<Sim>);
#[derive(Clone)]
struct Consensus(Arc<Sim>);

async fn sleep_ms(ms: u64) {
    if ms > 0 {
        tokio::time::sleep(Duration::from_millis(ms)).await;
    } else {
        tokio::task::yield_now().await;
    }
}

#[async_trait::async_trait]
impl PeerToPeerPort for P2p {
    fn height_stream(&self) -> BoxStream<BlockHeight> {
        let rx = self.0.with(|st, _| st.heights_rx.take()).expect("height stream taken once");
        UnboundedReceiverStream::new(rx).into_boxed()
    }

    async fn get_sealed_block_headers(
        &self,
        block_height_range: Range<u32>,
    ) -> anyhow::Result<SourcePeer<Option<Vec<SealedBlockHeader>>>> {
        let (req, lat) = self.0.with(|st, ctx| st.begin_headers(ctx, block_height_range));
        sleep_ms(lat).await;
        self.0.with(|st, ctx| st.finish_headers(ctx, req))
    }

    async fn get_transactions(
        &self,
        block_ids: Range<u32>,
    ) -> anyhow::Result<SourcePeer<Option<Vec<Transactions>>>> {
        let (req, lat) = self.0.with(|st, ctx| st.begin_txs(ctx, block_ids, None));
        sleep_ms(lat).await;
        let r = self.0.with(|st, ctx| {
            st.finish_txs(ctx, req)
                .map(|(peer, data)| st.peers[peer].id.clone().bind(data))
        });
        r.map_err(|_| anyhow::anyhow!("transactions request failed"))
    }

    async fn get_transactions_from_peer(
        &self,
        block_ids: SourcePeer<Range<u32>>,
    ) -> anyhow::Result<Option<Vec<Transactions>>> {
        let SourcePeer { peer_id, data } = block_ids;
        let (req, lat) = self.0.with(|st, ctx| st.begin_txs(ctx, data, Some(&peer_id)));
        sleep_ms(lat).await;
        let r = self.0.with(|st, ctx| st.finish_txs(ctx, req).map(|(_, data)| data));
        r.map_err(|_| anyhow::anyhow!("transactions request failed"))
    }

    fn report_peer(&self, peer: PeerId, report: PeerReportReason) -> anyhow::Result<()> {
        self.0.with(|st, ctx| st.report_peer(ctx, peer, report))
    }
}

impl ConsensusPort for Consensus {
    fn check_sealed_header(&self, header: &SealedBlockHeader) -> anyhow::Result<bool> {
        self.0.with(|st, ctx| st.check_sealed_header(ctx, header))
    }

    async fn await_da_height(&self, da_height: &DaBlockHeight) -> anyhow::Result<()> {
        let da = da_height.0;
        let (err, lat) = self.0.with(|st, ctx| st.begin_da(ctx, da));
        sleep_ms(lat).await;
        if err {
            Err(anyhow::anyhow!("injected DA wait error"))
        } else {
            Ok(())
        }
    }
}

impl BlockImporterPort for Importer {
    fn committed_height_stream(&self) -> BoxStream<BlockHeight> {
        let rx = self.0.with(|st, _| st.commits_rx.take()).expect("commit stream taken once");
        UnboundedReceiverStream::new(rx).into_boxed()
    }

    async fn execute_and_commit(&self, block: SealedBlock) -> anyhow::Result<()> {
        let (req, lat) = self.0.with(|st, ctx| st.begin_exec(ctx, &block));
        sleep_ms(lat).await;
        self.0.with(|st, ctx| st.finish_exec(ctx, req))
    }
}

/// The real verifier only needs a storage view for `verify_block_fields`, which the sync port
/// never calls.
struct NoView;
struct NoDb;
impl AtomicView for NoView {
    type LatestView = NoDb;
    fn latest_view(&self) -> StorageResult<NoDb> {
        Ok(NoDb)
    }
}
impl PoaDatabase for NoDb {
    fn block_header(&self, _: &BlockHeight) -> StorageResult<BlockHeader> {
        Err(fuel_core_storage::Error::Other(anyhow::anyhow!("no database in this world")))
    }
    fn block_header_merkle_root(&self, _: &BlockHeight) -> StorageResult<Bytes32> {
        Err(fuel_core_storage::Error::Other(anyhow::anyhow!("no database in this world")))
    }
}

// ---------------------------------------------------------------------------------------------
// panics inside spawned tasks are swallowed by tokio / the ServiceRunner: record them

static TASK_PANIC: Mutex<Option<(String, String)>> = Mutex::new(None);

fn install_task_panic_recorder() {
    static ONCE: std::sync::Once = std::sync::Once::new();
    ONCE.call_once(|| {
        let prev = std::panic::take_hook();
        std::panic::set_hook(Box::new(move |info| {
            let loc = info
                .location()
                .map(|l| format!("{}:{}", l.file(), l.line()))
                .unwrap_or_else(|| "?".into());
            let msg = if let Some(s) = info.payload().downcast_ref::<&str>() {
                s.to_string()
            } else if let Some(s) = info.payload().downcast_ref::<String>() {
                s.clone()
            } else {
                "<non-string panic>".into()
            };
            {
                let mut g = TASK_PANIC.lock().unwrap_or_else(|e| e.into_inner());
                if g.is_none() {
                    *g = Some((loc, msg));
                }
            }
            prev(info);
        }));
    });
}

struct ObserverGuard;
impl Drop for ObserverGuard {
    fn drop(&mut self) {
        set_chunks_observer(None);
        set_state_observer(None);
    }
}

// ---------------------------------------------------------------------------------------------
// the driver

pub fn run_service(ctx_ref: &mut Ctx) {
    install_task_panic_recorder();
    *TASK_PANIC.lock().unwrap_or_else(|e| e.into_inner()) = None;
    // every `ServiceRunner::new` registers two metrics in the process-global registry and
    // re-encodes the whole registry: start each run from an empty one so that the cost of a
    // run does not grow with the number of runs a worker process has done (no effect on the
    // service's behaviour)
    *fuel_core_metrics::global_registry().registry.lock() = Default::default();
    ctx_ref.scope("C26");
    let cfg = draw_cfg(ctx_ref);
    let rng_seed = ctx_ref.tape.choose(8);
    let n_steps = {
        let max = if ctx_ref.tier == Tier::Quick { 22 } else { 50 };
        4 + ctx_ref.tape.choose(max)
    };
    // 1 run in 6 stops the service abruptly, in the middle of whatever it is doing
    let abrupt_stop = ctx_ref.tape.choose(6) == 5;
    ctx_ref.ev(format!(
        "cfg {cfg:?} rng_seed={rng_seed} steps={n_steps} abrupt_stop={abrupt_stop}"
    ));

    let rt = tokio::runtime::Builder::new_current_thread()
        .enable_time()
        .start_paused(true)
        .rng_seed(tokio::runtime::RngSeed::from_bytes(&rng_seed.to_le_bytes()))
        .build()
        .expect("runtime");

    let uni = Universe::get();
    let (heights_tx, heights_rx) = mpsc::unbounded_channel();
    let (commits_tx, commits_rx) = mpsc::unbounded_channel();
    let verifier = Verifier::new(
        VerifierConfig::new(uni.config.clone(), BlockHeight::from(0u32), DaBlockHeight(0)),
        NoView,
    );
    let peers = (0..cfg.n_peers)
        .map(|i| Peer {
            id: PeerId::from(vec![b'P', b'0' + i as u8]),
            alive: true,
            announced: None,
            real_top: cfg.c0,
            forged: BTreeMap::new(),
            over_answer: cfg.over_answer[i],
        })
        .collect();
    let enter = rt.enter();
    let t0 = tokio::time::Instant::now();
    drop(enter);
    let sim = Arc::new(Sim {
        cell: CtxCell {
            ptr: ctx_ref as *mut Ctx,
            busy: AtomicBool::new(false),
        },
        st: Mutex::new(SimState {
            model: state_model::Model::new(Some(cfg.c0), None),
            chain: cfg.c0,
            faults_on: !cfg.fault_free,
            cfg: cfg.clone(),
            uni,
            verifier,
            peers,
            next_req: 0,
            inflight: 0,
            t0,
            sync_ok: BTreeSet::new(),
            external: BTreeSet::new(),
            execs: 0,
            heights_tx,
            commits_tx,
            heights_rx: Some(heights_rx),
            commits_rx: Some(commits_rx),
            approved: BTreeSet::new(),
            rejected: BTreeSet::new(),
            pending_checks: VecDeque::new(),
            obligations: BTreeMap::new(),
            obligations_short_tx: BTreeMap::new(),
            obligation_log: Vec::new(),
            reports: BTreeMap::new(),
            header_outcomes: BTreeMap::new(),
            last_obs: None,
            overlapped: BTreeSet::new(),
            best_announced: None,
        }),
    });
    // from here on `ctx_ref` is only reached through `sim.with`

    let _guard = ObserverGuard;
    {
        let s = sim.clone();
        set_chunks_observer(Some(Box::new(move |obs| s.with(|st, ctx| st.on_chunks(ctx, obs)))));
        let s = sim.clone();
        set_state_observer(Some(Box::new(move |ev, status| {
            s.with(|st, ctx| {
                state_model::check_event(ctx, &mut st.model, ev, status, "service");
            })
        })));
    }

    rt.block_on(drive(sim.clone(), cfg, n_steps, abrupt_stop));

    // stop everything that may still reference the Sim before `run` returns
    drop(rt);
    set_chunks_observer(None);
    set_state_observer(None);

    let task_panic = TASK_PANIC.lock().unwrap_or_else(|e| e.into_inner()).take();
    if let Some((loc, msg)) = task_panic {
        let in_harness = !loc.starts_with('/') || loc.contains("/verif/");
        if in_harness {
            panic!("harness panic inside a spawned task at {loc}: {msg}");
        }
        let file = loc.rsplit_once(':').map(|x| x.0).unwrap_or(&loc).to_string();
        let short = file.strip_prefix("/repo/").unwrap_or(&file).to_string();
        sim.with(|_, ctx| {
            let prop = ctx.prop.clone();
            ctx.violate(
                &prop,
                &format!("panic:{short}"),
                format!("panic inside a task of the sync service at {loc}: {msg}"),
            )
        });
    }
}

fn failed(sim: &Sim) -> bool {
    sim.with(|_, ctx| ctx.failed())
}

async fn drive(sim: Arc<Sim>, cfg: Cfg, n_steps: u64, abrupt_stop: bool) {
    let hour = Duration::from_secs(3600);
    let svc = match new_service(
        BlockHeight::from(cfg.c0),
        P2p(sim.clone()),
        Importer(sim.clone()),
        Consensus(sim.clone()),
        ImportConfig {
            block_stream_buffer_size: cfg.buffer,
            header_batch_size: cfg.batch,
        },
    ) {
        Ok(s) => s,
        Err(e) => panic!("harness: new_service failed: {e}"),
    };
    sim.with(|_, ctx| ctx.ev("service.start"));
    match tokio::time::timeout(hour, svc.start_and_await()).await {
        Ok(Ok(state)) => sim.with(|_, ctx| ctx.ev(format!("service state {state:?}"))),
        other => {
            sim.with(|_, ctx| {
                ctx.violate("C26", "service-start", format!("the sync service did not start: {other:?}"))
            });
            return;
        }
    }

    for _ in 0..n_steps {
        if failed(&sim) {
            break;
        }
        let pause = sim.with(|st, ctx| step(st, ctx));
        if pause > 0 {
            tokio::time::sleep(Duration::from_millis(pause)).await;
        } else {
            // let the service tasks run until they are all blocked
            for _ in 0..3 {
                tokio::task::yield_now().await;
            }
        }
    }

    if abrupt_stop {
        sim.with(|st, ctx| {
            ctx.probe("s.abrupt-stop");
            if st.inflight > 0 {
                ctx.probe("s.abrupt-stop-with-requests-in-flight");
            }
        });
    } else {
        if !failed(&sim) {
            liveness_phase(&sim).await;
        }
        if !failed(&sim) {
            sim.with(|st, ctx| final_report_check(st, ctx));
        }
    }

    sim.with(|_, ctx| ctx.ev("service.stop"));
    match tokio::time::timeout(hour, svc.stop_and_await()).await {
        Ok(Ok(state)) => {
            let clean = matches!(state, fuel_core_services::State::Stopped);
            sim.with(|_, ctx| {
                ctx.ev(format!("service state {state:?}"));
                if !clean {
                    ctx.probe("s.service-stopped-with-error");
                }
            });
        }
        other => sim.with(|_, ctx| {
            ctx.violate("C26", "service-stop-hang", format!("the sync service did not stop: {other:?}"))
        }),
    }
    if abrupt_stop {
        // whatever was cancelled by the shutdown must stay quiet afterwards
        let execs_at_stop = sim.with(|st, _| st.execs);
        tokio::time::sleep(Duration::from_millis(2000)).await;
        sim.with(|st, ctx| {
            if st.execs != execs_at_stop {
                ctx.probe("s.execute-after-stop-returned");
            }
        });
    }
    sim.with(|st, ctx| {
        ctx.sim_ms += st.now_ms() as u64;
    });
}

/// One driver action; returns the simulated pause (ms) that follows it.
fn step(st: &mut SimState, ctx: &mut Ctx) -> u64 {
    let top = st.cfg.top;
    let mut weights = vec![5u64, 4];
    weights.push(if st.cfg.external_commits { 2 } else { 0 });
    weights.push(if st.cfg.churn { 2 } else { 0 });
    weights.push(if st.cfg.fault_free { 0 } else { 1 });
    match ctx.tape.weighted(&weights) {
        0 => {
            // a peer announces a height
            let alive: Vec<usize> = (0..st.peers.len()).filter(|i| st.peers[*i].alive).collect();
            if alive.is_empty() {
                ctx.op("announce skipped: no peer connected");
            } else {
                let p = alive[ctx.tape.below(alive.len())];
                let best = st.best_announced.unwrap_or(st.cfg.c0);
                let kind = if st.cfg.lying && st.faults_on {
                    ctx.tape.weighted(&[6, 2, 2])
                } else {
                    ctx.tape.weighted(&[6, 2])
                };
                let h = match kind {
                    0 => (best + 1 + ctx.tape.small(u64::from(top - st.cfg.c0)) as u32).min(top),
                    1 => {
                        ctx.probe("s.stale-announcement");
                        ctx.tape.choose(u64::from(best) + 1) as u32
                    }
                    _ => {
                        ctx.fault("peer.announces-height-it-does-not-have");
                        top + 1 + ctx.tape.choose(6) as u32
                    }
                };
                announce(st, ctx, p, h, false);
            }
        }
        1 => {
            ctx.op("wait");
        }
        2 => {
            // a block arrives from elsewhere (gossip / local production) and is committed
            if st.chain < top {
                let h = st.chain + 1;
                st.chain = h;
                st.external.insert(h);
                ctx.op(format!("t={} external commit of height {h}", st.now_ms()));
                ctx.fault("importer.external-commit");
                st.echo_commit(ctx, h);
            } else {
                ctx.op("external commit skipped: chain at top");
            }
        }
        3 => {
            let p = ctx.tape.below(st.peers.len());
            st.peers[p].alive = !st.peers[p].alive;
            ctx.op(format!(
                "t={} peer {p} {}",
                st.now_ms(),
                if st.peers[p].alive { "reconnects" } else { "vanishes" }
            ));
            if !st.peers[p].alive {
                ctx.fault("peer.vanishes");
            }
        }
        _ => {
            st.faults_on = !st.faults_on;
            ctx.op(format!("t={} faults {}", st.now_ms(), if st.faults_on { "on" } else { "off" }));
        }
    }
    match ctx.tape.choose(6) {
        0 => 0,
        1 => 1,
        2 => 5,
        3 => 30,
        4 => 200,
        _ => 2000,
    }
}

fn announce(st: &mut SimState, ctx: &mut Ctx, p: usize, h: u32, heartbeat: bool) {
    let top = st.cfg.top;
    let peer = &mut st.peers[p];
    peer.announced = Some(peer.announced.map_or(h, |a| a.max(h)));
    peer.real_top = peer.real_top.max(h.min(top));
    if h <= top {
        st.best_announced = Some(st.best_announced.map_or(h, |b| b.max(h)));
    } else {
        st.best_announced = Some(top);
    }
    if heartbeat {
        ctx.ev(format!("t={} peer {p} re-announces height {h}", st.now_ms()));
    } else {
        ctx.op(format!("t={} peer {p} announces height {h}", st.now_ms()));
    }
    let _ = st.heights_tx.send(BlockHeight::from(h));
}

/// Faults stop; the peers keep announcing the best height (as the real heartbeat does); the node
/// has to reach it within a bounded simulated time.
async fn liveness_phase(sim: &Arc<Sim>) {
    let target = sim.with(|st, ctx| {
        st.faults_on = false;
        for p in st.peers.iter_mut() {
            p.alive = true;
        }
        ctx.ev(format!(
            "t={} faults stop; all peers connected and honest; chain at {}, best announced {:?}",
            st.now_ms(),
            st.chain,
            st.best_announced
        ));
        st.best_announced
    });
    let Some(target) = target else {
        sim.with(|_, ctx| ctx.probe("s.nothing-announced"));
        settle(sim).await;
        return;
    };
    const ROUNDS: u64 = 240;
    let mut reached = false;
    for round in 0..ROUNDS {
        let done = sim.with(|st, ctx| {
            if st.chain >= target {
                return true;
            }
            // heartbeat: every connected peer re-announces the best height
            if round > 0 {
                ctx.probe("s.liveness-heartbeat-needed");
            }
            for p in 0..st.peers.len() {
                announce(st, ctx, p, target, true);
            }
            false
        });
        if done {
            reached = true;
            break;
        }
        tokio::time::sleep(Duration::from_millis(1000)).await;
    }
    if !reached {
        reached = sim.with(|st, _| st.chain >= target);
    }
    sim.with(|st, ctx| {
        // classify a stall: a cached header that passed the consensus check but is not the
        // canonical one can never be completed with matching transactions
        let next = st.chain + 1;
        let poisoned = st.last_obs.as_ref().map_or(false, |o| {
            o.cached.iter().any(|(h, d)| {
                *h >= next
                    && match d {
                        VerifCached::Header(hd) => {
                            st.uni.header(*h, Variant::Canonical) != *hd
                        }
                        VerifCached::Block(_) => false,
                    }
            })
        });
        let class = if poisoned { CLASS_LIVENESS_POISONED } else { "liveness:stalled" };
        ctx.check("C26", class, reached, || {
            format!(
                "faults stopped at and all peers honest, yet after {ROUNDS} simulated seconds of heartbeats the committed height is {} < best observed height {target}; cache at the last get_chunks: [{}]",
                st.chain,
                st.last_obs.as_ref().map(|o| chunks::fmt_cached(&o.cached)).unwrap_or_default()
            )
        });
        if reached {
            ctx.probe("s.liveness-reached-best-height");
        }
    });
    settle(sim).await;
}

/// Let every in-flight request of the (detached) fetch tasks finish.
async fn settle(sim: &Arc<Sim>) {
    for _ in 0..50 {
        tokio::time::sleep(Duration::from_millis(500)).await;
        if sim.with(|st, _| st.inflight == 0) {
            break;
        }
    }
    tokio::time::sleep(Duration::from_millis(10)).await;
}

/// C26: every bad reply was answered with a report of the peer that sent it.
fn final_report_check(st: &mut SimState, ctx: &mut Ctx) {
    if st.inflight != 0 {
        ctx.probe("s.requests-still-in-flight-at-end");
        return;
    }
    for p in 0..st.peers.len() {
        for (cat, class) in [
            (Cat::Headers, "no-report:headers"),
            (Cat::Txs, "no-report:transactions"),
        ] {
            let owed = st.obligations.get(&(p, cat)).copied().unwrap_or(0);
            let got = st.reports.get(&(p, cat)).copied().unwrap_or(0);
            let ok = ctx.check("C26", class, got >= owed, || {
                format!(
                    "peer {p} sent {owed} bad {cat:?} replies but was reported only {got} times for {cat:?}; bad replies: {}",
                    st.obligation_log.join(" | ")
                )
            });
            if cat == Cat::Txs && ok {
                let short = st.obligations_short_tx.get(&p).copied().unwrap_or(0);
                if short > 0 {
                    ctx.check("C26", CLASS_NO_REPORT_SHORT_TXS, got >= owed + short, || {
                        format!(
                            "peer {p} sent {short} transaction replies with fewer entries than checked headers (plus {owed} other bad transaction replies) but was reported only {got} times for transactions; bad replies: {}",
                            st.obligation_log.join(" | ")
                        )
                    });
                }
            }
        }
    }
    ctx.probe_n("s.executions", st.execs);
}
