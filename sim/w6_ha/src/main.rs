//! W6 "ha": replicated sequencers over a quorum of simulated Redis nodes — decides C25.
//!
//! Real: `RedisLeaderLeaseAdapter` (lease acquisition/renewal/release, quorum publish with its
//! detached writer threads, reconciliation, sub-quorum repair), the redis-rs async and blocking
//! clients and their RESP codecs, and the six Lua scripts (sent by the adapter over the wire and
//! interpreted by `lua.rs`). Simulated: the Redis server processes (`redis_model.rs`), the
//! network between replicas and nodes, clocks, the OS scheduler for every thread the adapter
//! creates or blocks, and a small block producer/importer per replica that follows the call order
//! of `fuel_core_poa::MainTask::try_to_produce_block` and `Importer::_commit_result`.

mod lua;
#[cfg(test)]
mod model_tests;
mod redis_model;
mod resp;
mod shim;
mod sim;

use fuel_core::service::adapters::consensus_module::poa::RedisLeaderLeaseAdapter;
use fuel_core_importer::ports::BlockReconciliationWritePort;
use fuel_core_poa::ports::{
    BlockReconciliationReadPort,
    LeaderState,
};
use fuel_core_types::{
    blockchain::{
        SealedBlock,
        block::Block,
        consensus::Consensus,
    },
    tai64::Tai64,
};
use sim::{
    Cfg,
    Db,
    Fate,
    Inner,
    Keys,
    LogItem,
    NodeSt,
    OwnerInfo,
    PROP,
    Phase,
    Shared,
    WState,
};
use simkit::{
    Ctx,
    Tape,
    Tier,
};
use std::{
    collections::{
        BTreeMap,
        BTreeSet,
    },
    sync::{
        Arc,
        Condvar,
        Mutex,
    },
    time::Duration,
};
use tokio::sync::mpsc;

const LEASE_KEY: &str = "poa:leader:lock";
const SCRIPT_DIR: &str = "/repo/crates/fuel-core/redis_leader_lease_adapter_scripts";
const SCRIPTS: &[&str] = &[
    "check_lease_owner",
    "promote_leader",
    "read_latest_stream_entry",
    "read_stream_entries",
    "release_lock",
    "write_block",
];

struct HaWorld;

// ------------------------------------------------------------------------------------------
// Replica (runs on a fiber)
// ------------------------------------------------------------------------------------------

#[derive(Clone, Debug)]
struct RoundPlan {
    /// simulated time between winning/holding the lease and publishing the produced block
    /// (block production time, GC pause, ...)
    pause_ms: u64,
    crash_before_commit: bool,
}

enum Cmd {
    Round(RoundPlan),
    Release,
    Shutdown,
}

struct ReplicaHandle {
    owner: String,
    tx: mpsc::UnboundedSender<Cmd>,
    task: tokio::task::JoinHandle<()>,
    thread: Option<std::thread::JoinHandle<()>>,
}

fn make_block(height: u32, serial: u64) -> SealedBlock {
    let mut block = Block::default();
    block.header_mut().set_block_height(height.into());
    // the serial makes every produced block distinct (a retry at the same height is a new block,
    // like a new timestamp in the real producer)
    block.header_mut().set_time(Tai64(4_000_000_000 + serial));
    block.header_mut().recalculate_metadata();
    SealedBlock { entity: block, consensus: Consensus::PoA(Default::default()) }
}

fn err_class(e: &anyhow::Error) -> String {
    let s = e.to_string();
    let s = s.split(':').next().unwrap_or("").trim().to_string();
    s.chars().take(60).collect()
}

async fn replica_task(
    shared: Arc<Shared>,
    r: usize,
    owner: String,
    mut rx: mpsc::UnboundedReceiver<Cmd>,
) {
    let (cfg, label) = {
        let g = shared.lock();
        (g.cfg.clone(), g.owner_label(&owner))
    };
    let urls: Vec<String> = (0..cfg.n_nodes).map(sim::node_url).collect();
    let adapter = RedisLeaderLeaseAdapter::new(
        urls,
        LEASE_KEY.to_string(),
        Duration::from_millis(cfg.lease_ttl_ms),
        Duration::from_millis(cfg.node_timeout_ms),
        Duration::from_millis(cfg.retry_delay_ms),
        Duration::from_millis(0),
        cfg.max_attempts,
        cfg.stream_max_len,
    )
    .expect("adapter")
    .with_quorum_disruption_budget(cfg.budget)
    .verif_with_lease_owner_token(owner.clone());
    // the importer holds a clone as its write port, the PoA task the original as read port
    let write_port = adapter.clone();
    let mut last_height: u32 = 0;
    while let Some(cmd) = rx.recv().await {
        match cmd {
            Cmd::Round(plan) => {
                round(&shared, r, &owner, &label, &adapter, &write_port, &mut last_height, plan)
                    .await;
                let mut g = shared.lock();
                g.busy.remove(&owner);
                if g.owners[&owner].crashed {
                    break;
                }
            }
            Cmd::Release => {
                let res = adapter.release().await;
                let mut g = shared.lock();
                g.ev(format!("{label} release => {}", res.is_ok()));
                g.busy.remove(&owner);
            }
            Cmd::Shutdown => {
                // MainTask::shutdown
                let res = adapter.release().await;
                let mut g = shared.lock();
                g.ev(format!("{label} shutdown release => {}", res.is_ok()));
                g.busy.remove(&owner);
                break;
            }
        }
    }
    drop(write_port);
    drop(adapter);
}

#[allow(clippy::too_many_arguments)]
async fn round(
    shared: &Arc<Shared>,
    r: usize,
    owner: &str,
    label: &str,
    adapter: &RedisLeaderLeaseAdapter,
    write_port: &RedisLeaderLeaseAdapter,
    last_height: &mut u32,
    plan: RoundPlan,
) {
    // MainTask::try_to_produce_block
    {
        let mut g = shared.lock();
        let dbh = g.dbs[r].height();
        if dbh > *last_height {
            *last_height = dbh;
        }
        g.ev(format!("{label} leader_state(next={})", *last_height + 1));
    }
    let next = *last_height + 1;
    let state = adapter.leader_state(next.into()).await;
    let crashed = |g: &Inner| g.owners[owner].crashed;
    match state {
        Err(e) => {
            let mut g = shared.lock();
            g.ev(format!("{label} leader_state => Err({})", err_class(&e)));
            g.probe("leader_state_error");
        }
        Ok(LeaderState::ReconciledFollower) => {
            let mut g = shared.lock();
            g.ev(format!("{label} leader_state => follower"));
            g.probe("follower");
        }
        Ok(LeaderState::UnreconciledBlocks(blocks)) => {
            let mut g = shared.lock();
            let desc: Vec<String> = blocks
                .iter()
                .map(|b| format!("{}:{}", u32::from(*b.entity.header().height()), sim::short_id(b)))
                .collect();
            g.ev(format!("{label} leader_state => unreconciled [{}]", desc.join(",")));
            g.probe("unreconciled_blocks_returned");
            for block in blocks {
                let h = u32::from(*block.entity.header().height());
                if h <= *last_height {
                    continue;
                }
                if crashed(&g) {
                    return;
                }
                // Importer::execute_and_commit (Source::Network: no publish)
                let dbh = g.dbs[r].height();
                if dbh + 1 != h {
                    g.ev(format!("{label} import h={h} rejected: IncorrectBlockHeight (db at {dbh})"));
                    if dbh > *last_height {
                        *last_height = dbh;
                    }
                } else {
                    g.commit_block(r, block, "reconciled");
                    *last_height = h;
                }
            }
        }
        Ok(LeaderState::ReconciledLeader) => {
            let block = {
                let mut g = shared.lock();
                g.produced += 1;
                let b = make_block(next, g.produced);
                g.producer_of.insert(sim::short_id(&b), label.to_string());
                g.ev(format!("{label} leader_state => leader; produce h={next} {}", sim::short_id(&b)));
                g.probe("leader");
                b
            };
            if plan.pause_ms > 0 {
                tokio::time::sleep(Duration::from_millis(plan.pause_ms)).await;
            }
            // Importer::commit_result: height check, then publish, then commit
            {
                let mut g = shared.lock();
                if crashed(&g) {
                    return;
                }
                let dbh = g.dbs[r].height();
                if dbh + 1 != next {
                    g.ev(format!("{label} commit_result h={next} rejected: IncorrectBlockHeight (db at {dbh})"));
                    drop(g);
                    let _ = adapter.release().await;
                    return;
                }
                if g.dbs[r].import_lock.is_some() {
                    // cannot happen: one live incarnation per replica, one command at a time
                    panic!("importer permit of r{r} already taken");
                }
                g.dbs[r].import_lock = Some(owner.to_string());
                g.op(format!("{label} publish h={next} {}", sim::short_id(&block)));
            }
            let res = write_port.publish_produced_block(&block); // blocking, multi-node
            let mut g = shared.lock();
            if g.dbs[r].import_lock.as_deref() == Some(owner) {
                g.dbs[r].import_lock = None;
            }
            if crashed(&g) {
                g.ev(format!("{label} died during publish (result {})", res.is_ok()));
                return;
            }
            match res {
                Ok(()) => {
                    g.probe("publish_ok");
                    if plan.crash_before_commit {
                        g.fault("crash_between_publish_and_commit");
                        g.ev(format!("{label} CRASH after publish, before commit"));
                        g.owners.get_mut(owner).unwrap().crashed = true;
                        return;
                    }
                    assert_eq!(g.dbs[r].height() + 1, next, "importer permit violated");
                    g.commit_block(r, block, "produced");
                    *last_height = next;
                }
                Err(e) => {
                    g.ev(format!("{label} publish => Err({})", err_class(&e)));
                    g.probe("publish_failed");
                    if std::env::var("W6_MUTANT").as_deref() == Ok("commit_without_quorum") {
                        // sensitivity experiment only: an importer that commits although the
                        // publish did not reach a quorum
                        g.commit_block(r, block, "produced-MUTANT");
                        *last_height = next;
                        return;
                    }
                    drop(g);
                    // MainTask::handle_normal_block_production: release on production error
                    let res = adapter.release().await;
                    let mut g = shared.lock();
                    g.ev(format!("{label} release after failed production => {}", res.is_ok()));
                }
            }
        }
    }
}

// ------------------------------------------------------------------------------------------
// Scheduler (simulator thread)
// ------------------------------------------------------------------------------------------

struct Sched {
    shared: Arc<Shared>,
    replicas: Vec<Option<ReplicaHandle>>,
    incs: Vec<u32>,
    retired: Vec<ReplicaHandle>,
    t0: tokio::time::Instant,
}

fn dump() -> bool {
    static DUMP: std::sync::OnceLock<bool> = std::sync::OnceLock::new();
    *DUMP.get_or_init(|| std::env::var("W6_DUMP").is_ok())
}

fn flush(shared: &Shared, ctx: &mut Ctx) {
    let items: Vec<LogItem> = {
        let mut g = shared.lock();
        std::mem::take(&mut g.log)
    };
    for it in items {
        if dump() {
            match &it {
                LogItem::Ev(s) | LogItem::Op(s) => eprintln!("{s}"),
                LogItem::Check { class, ok: false, detail } => eprintln!("VIOLATION {class}: {detail}"),
                _ => {}
            }
        }
        match it {
            LogItem::Ev(s) => ctx.ev(s),
            LogItem::Op(s) => ctx.op(s),
            LogItem::Fault(k) => ctx.fault(k),
            LogItem::Probe(k) => ctx.probe(k),
            LogItem::Check { class, ok, detail } => {
                ctx.check(PROP, class, ok, || detail);
            }
        }
    }
}

impl Sched {
    fn start_replica(&mut self, r: usize) {
        self.incs[r] += 1;
        let inc = self.incs[r];
        let owner = format!("seq-{r}-{inc}");
        let (tx, rx) = mpsc::unbounded_channel();
        let salt = {
            let mut g = self.shared.lock();
            g.owners.insert(owner.clone(), OwnerInfo { replica: r, inc, crashed: false });
            let dbh = g.dbs[r].height();
            g.ev(format!("r{r}.{inc} START (db height {dbh})"));
            // hash order of the replica's HashMaps is a function of the tape
            let extra = g.tape.choose(4);
            simkit::mix_seed(g.cfg.hash_salt, (r as u64) << 32 | (inc as u64) << 8 | extra)
        };
        let sh = self.shared.clone();
        let own = owner.clone();
        let (proxy, thread) = sim::spawn_fiber(
            &self.shared,
            &owner,
            r,
            salt,
            Box::new(move || Box::pin(replica_task(sh, r, own, rx))),
        );
        let task = tokio::spawn(proxy);
        self.replicas[r] = Some(ReplicaHandle { owner, tx, task, thread: Some(thread) });
    }

    fn alive(&self, r: usize) -> bool {
        match &self.replicas[r] {
            Some(h) => {
                let g = self.shared.lock();
                !g.owners[&h.owner].crashed && g.fibers[&h.owner].phase != Phase::Done
            }
            None => false,
        }
    }

    fn idle(&self, r: usize) -> bool {
        match &self.replicas[r] {
            Some(h) => {
                let g = self.shared.lock();
                !g.owners[&h.owner].crashed
                    && g.fibers[&h.owner].phase != Phase::Done
                    && !g.busy.contains(&h.owner)
            }
            None => false,
        }
    }

    fn send(&mut self, r: usize, cmd: Cmd) {
        if let Some(h) = &self.replicas[r] {
            self.shared.lock().busy.insert(h.owner.clone());
            let _ = h.tx.send(cmd);
        }
    }

    /// Hard crash: the process is gone. Requests it had in flight may still arrive.
    fn crash(&mut self, r: usize) {
        let Some(h) = self.replicas[r].take() else { return };
        {
            let mut g = self.shared.lock();
            g.owners.get_mut(&h.owner).unwrap().crashed = true;
            g.busy.remove(&h.owner);
            if g.dbs[r].import_lock.as_deref() == Some(h.owner.as_str()) {
                g.dbs[r].import_lock = None; // the process is gone, so is its permit
            }
            let label = g.owner_label(&h.owner);
            g.ev(format!("{label} CRASH"));
        }
        // at an await point: the future is dropped now; inside a blocking publish the thread
        // lives on as a ghost that cannot reach anything and never commits
        sim::kill_fiber(&self.shared, &h.owner);
        self.retired.push(h);
    }

    async fn advance(&mut self, ms: u64) {
        if ms == 0 {
            tokio::task::yield_now().await;
        } else {
            tokio::time::sleep(Duration::from_millis(ms)).await;
        }
        let mut g = self.shared.lock();
        sim::sync_clock(&mut g, self.t0);
    }

    /// Parked writer threads in a canonical order (they register in OS order).
    fn parked_writers(&self) -> Vec<usize> {
        let g = self.shared.lock();
        let mut v: Vec<(String, i64, usize, usize)> = g
            .writers
            .iter()
            .filter(|w| w.state == WState::Parked)
            .map(|w| (g.owner_label(&w.owner), w.call, w.node, w.id))
            .collect();
        v.sort();
        v.into_iter().map(|x| x.3).collect()
    }

    fn deliver(&mut self, wid: usize, fate: Fate) {
        {
            let mut g = self.shared.lock();
            sim::sync_clock(&mut g, self.t0);
            let w = &g.writers[wid];
            let line = format!(
                "deliver {}#w{}.{} (n{} h={} epoch={}) {:?}",
                g.owner_label(&w.owner),
                w.call,
                w.node,
                w.node,
                w.height,
                w.epoch,
                fate
            );
            g.op(line);
            match fate {
                Fate::Deliver => {}
                Fate::Lost => g.fault("write_request_lost"),
                Fate::ReplyLost => g.fault("write_reply_lost"),
                Fate::Delayed => g.fault("write_delayed"),
            }
        }
        sim::deliver_writer(&self.shared, wid, fate);
    }
}

fn draw_cfg(tape: &mut Tape, tier: Tier) -> (Cfg, u64, bool) {
    let over_budget = std::env::var("W6_OVER_BUDGET").map(|v| v == "1").unwrap_or(false);
    let n_nodes = [3usize, 3, 3, 5, 3, 1, 5, 3][tape.below(8)];
    let n_replicas = 2 + tape.below(2);
    let budget: u32 = if n_nodes == 1 {
        0
    } else {
        [0u32, 0, 1, 0, 1, 0][tape.below(6)]
    };
    let quorum = (n_nodes / 2 + 1 + budget as usize).min(n_nodes);
    let lease_ttl_ms = [3000u64, 2000, 5000][tape.below(3)];
    // The adapter's node_timeout bounds the blocking client's socket reads in REAL time (the
    // simulated node answers within microseconds, but the host may be overloaded) and, in
    // simulated time, connection attempts (capped at 1s by redis-rs) and requests (redis-rs'
    // own 500ms response timeout fires first). 10s keeps real time out of the picture.
    let node_timeout_ms = 10_000;
    let retry_delay_ms = [200u64, 50][tape.below(2)];
    let max_attempts = 1 + tape.choose(3) as u32;
    // mostly an effectively unbounded stream; a small window scales "replica lags by more than
    // stream_max_len blocks" down to the few heights of a run
    let mut stream_max_len = [1000u32, 1000, 1000, 3, 1000, 2, 1000, 5][tape.below(8)];
    if let Some(v) = std::env::var("W6_MAXLEN").ok().and_then(|v| v.parse().ok()) {
        stream_max_len = v; // experiments only
    }
    let fault_free = tape.choose(8) == 7;
    let async_fault_pm = if fault_free { 0 } else { [0u64, 30, 100, 250][tape.below(4)] };
    let sync_fault_pm = if fault_free { 0 } else { [100u64, 0, 300, 500][tape.below(4)] };
    let max_latency_ms = [5u64, 0, 50, 400][tape.below(4)];
    let steps = match tier {
        Tier::Quick => 120 + tape.choose(120),
        Tier::Thorough => 150 + tape.choose(300),
    };
    let mut lossy_nodes = BTreeSet::new();
    let lossy_target = if over_budget { budget as usize + 1 + tape.below(2) } else { budget as usize };
    let mut cand: Vec<usize> = (0..n_nodes).collect();
    tape.shuffle(&mut cand);
    for k in cand.into_iter().take(lossy_target.min(n_nodes)) {
        lossy_nodes.insert(k);
    }
    let hash_salt = tape.choose(1 << 16);
    // about 1 run in 48 follows a directed schedule skeleton (see `skeleton_repair_hole`)
    // instead of the random scheduler; roles are permuted by the tape
    let scenario = tape.choose(48) == 47 || std::env::var("W6_SCENARIO").is_ok();
    let (n_nodes, n_replicas, budget, quorum, stream_max_len, async_fault_pm, max_latency_ms) = if scenario {
        (3, 3, 0, 2, 1000, 0, 0)
    } else {
        (n_nodes, n_replicas, budget, quorum, stream_max_len, async_fault_pm, max_latency_ms)
    };
    // swarm: each scheduler-level fault kind is on in about half of the runs
    let kinds = if fault_free {
        0
    } else if tape.choose(4) == 0 {
        u64::MAX
    } else {
        tape.choose(1 << 6)
    };
    (
        Cfg {
            n_nodes,
            n_replicas,
            budget,
            quorum,
            lease_ttl_ms,
            node_timeout_ms,
            retry_delay_ms,
            max_attempts,
            stream_max_len,
            async_fault_pm,
            sync_fault_pm,
            max_latency_ms,
            lossy_nodes: if scenario { BTreeSet::new() } else { lossy_nodes },
            over_budget,
            hash_salt,
            kinds,
            skeleton: scenario,
        },
        steps,
        fault_free,
    )
}

fn draw_write_fate(g: &mut Inner) -> Fate {
    let pm = if g.faults_enabled { g.cfg.sync_fault_pm } else { 0 };
    if pm > 0 && g.tape.chance(pm, 1000) {
        match g.tape.choose(3) {
            0 => Fate::Lost,
            1 => Fate::ReplyLost,
            _ => Fate::Delayed,
        }
    } else {
        Fate::Deliver
    }
}

async fn chaos(s: &mut Sched, ctx: &mut Ctx, steps: u64, fault_free: bool) {
    let cfg = s.shared.lock().cfg.clone();
    let nr = cfg.n_replicas;
    for r in 0..nr {
        s.start_replica(r);
    }
    s.advance(0).await;
    for _step in 0..steps {
        flush(&s.shared, ctx);
        if ctx.failed() {
            return;
        }
        let parked = s.parked_writers();
        let idle: Vec<usize> = (0..nr).filter(|r| s.idle(*r)).collect();
        let dead: Vec<usize> = (0..nr).filter(|r| !s.alive(*r)).collect();
        let alive: Vec<usize> = (0..nr).filter(|r| s.alive(*r)).collect();
        let n_pending = s.shared.lock().pending.len();
        let f = !fault_free;
        let k = |bit: u64| f && (cfg.kinds >> bit) & 1 == 1;
        // action weights; index 0 (tape value 0) is the plain "let time pass"
        let w: [u64; 14] = [
            20,                                                // 0 advance time
            if idle.is_empty() { 0 } else { 30 },              // 1 trigger a round
            if parked.is_empty() { 0 } else { 45 },            // 2 deliver a parked write
            if n_pending == 0 { 0 } else { 6 },                // 3 late execution / drop of a delayed write
            6,                                                 // 4 p2p import
            if k(0) { 3 } else { 0 },                          // 5 toggle a partition
            if k(0) { 1 } else { 0 },                          // 6 heal all partitions
            if k(1) { 1 } else { 0 },                          // 7 redis node restart (data kept)
            if k(2) && !cfg.lossy_nodes.is_empty() { 1 } else { 0 }, // 8 redis node restart with data loss
            if k(3) && !alive.is_empty() { 1 } else { 0 },     // 9 replica crash
            if dead.is_empty() { 0 } else { 8 },               // 10 replica restart
            if k(4) && !idle.is_empty() { 1 } else { 0 },      // 11 graceful restart
            if k(5) { 1 } else { 0 },                          // 12 node clock jump (lease expiry)
            if idle.is_empty() { 0 } else { 1 },               // 13 voluntary release
        ];
        let action = { s.shared.lock().tape.weighted(&w) };
        match action {
            0 => {
                let ms = {
                    let mut g = s.shared.lock();
                    let ttl = g.cfg.lease_ttl_ms;
                    let opts = [1, 0, 2, 5, 20, 100, 300, ttl / 2, ttl + 1, 1000];
                    let i = g.tape.below(opts.len());
                    let ms = opts[i];
                    let now = g.now_ms;
                    g.ev(format!("advance {ms}ms (t={now})"));
                    ms
                };
                s.advance(ms).await;
            }
            1 => {
                let (r, plan) = {
                    let mut g = s.shared.lock();
                    let r = idle[g.tape.below(idle.len())];
                    let ttl = g.cfg.lease_ttl_ms;
                    let pause_ms = match g.tape.choose(8) {
                        0..=4 => 0,
                        5 => g.tape.choose(50),
                        6 => g.tape.choose(ttl),
                        _ => ttl + g.tape.choose(ttl),
                    };
                    let crash_before_commit = k(3) && g.tape.chance(1, 16);
                    (r, RoundPlan { pause_ms, crash_before_commit })
                };
                {
                    let mut g = s.shared.lock();
                    g.op(format!("trigger r{r} pause={}ms", plan.pause_ms));
                }
                s.send(r, Cmd::Round(plan));
                s.advance(0).await;
            }
            2 => {
                let (wid, fate) = {
                    let mut g = s.shared.lock();
                    let wid = parked[g.tape.below(parked.len())];
                    let fate = draw_write_fate(&mut g);
                    (wid, fate)
                };
                s.deliver(wid, fate);
                s.advance(0).await;
            }
            3 => {
                let mut g = s.shared.lock();
                sim::sync_clock(&mut g, s.t0);
                let n_pending = g.pending.len();
                let i = g.tape.below(n_pending);
                let drop_it = g.tape.chance(1, 4);
                let p = g.pending.remove(i);
                if drop_it || g.nodes[p.node].generation != p.generation {
                    g.ev(format!("delayed write of {} to n{} never arrives", p.origin, p.node));
                } else {
                    g.op(format!("late execution on n{} of {}", p.node, p.origin));
                    g.probe("late_write_executed");
                    g.exec_on_node(p.node, &p.argv, &p.origin);
                }
            }
            4 => {
                let mut g = s.shared.lock();
                let r = g.tape.below(nr);
                let src = g.tape.below(nr);
                let (hr, hs) = (g.dbs[r].height(), g.dbs[src].height());
                if r != src && hs > hr && g.dbs[r].import_lock.is_none() {
                    let block = g.dbs[src].blocks[hr as usize].1.clone();
                    g.commit_block(r, block, "p2p");
                    g.probe("p2p_import");
                }
            }
            5 => {
                let mut g = s.shared.lock();
                let r = g.tape.below(nr);
                let k = g.tape.below(cfg.n_nodes);
                if g.partitions.remove(&(r, k)) {
                    g.ev(format!("heal r{r}-n{k}"));
                } else {
                    g.partitions.insert((r, k));
                    g.ev(format!("partition r{r}-n{k}"));
                    g.fault("partition");
                }
            }
            6 => {
                let mut g = s.shared.lock();
                g.partitions.clear();
                g.ev("heal all partitions");
            }
            7 | 8 => {
                let mut g = s.shared.lock();
                sim::sync_clock(&mut g, s.t0);
                let lose = action == 8;
                let k = if lose {
                    let v: Vec<usize> = g.cfg.lossy_nodes.iter().copied().collect();
                    v[g.tape.below(v.len())]
                } else {
                    g.tape.below(cfg.n_nodes)
                };
                g.nodes[k].generation += 1;
                if lose {
                    g.nodes[k].model.lose_data();
                    g.nodes[k].epoch_floor = 0;
                    g.stream_view[k].clear();
                    g.nodes[k].data_losses += 1;
                    g.ev(format!("n{k} RESTART with data loss"));
                    g.fault("redis_restart_data_loss");
                    g.check_redis_oracles(k);
                } else {
                    g.nodes[k].model.restart_keep_data();
                    g.ev(format!("n{k} RESTART (data kept)"));
                    g.fault("redis_restart");
                }
            }
            9 => {
                let r = {
                    let mut g = s.shared.lock();
                    let r = alive[g.tape.below(alive.len())];
                    g.fault("replica_crash");
                    r
                };
                s.crash(r);
                s.advance(0).await;
            }
            10 => {
                let r = {
                    let mut g = s.shared.lock();
                    dead[g.tape.below(dead.len())]
                };
                // a replica whose incarnation marked itself crashed is reaped here
                if s.replicas[r].is_some() {
                    s.crash(r);
                }
                s.start_replica(r);
                s.advance(0).await;
            }
            11 => {
                let r = {
                    let mut g = s.shared.lock();
                    let r = idle[g.tape.below(idle.len())];
                    g.op(format!("graceful shutdown r{r}"));
                    r
                };
                s.send(r, Cmd::Shutdown);
                s.advance(0).await;
            }
            12 => {
                let mut g = s.shared.lock();
                let k = g.tape.below(cfg.n_nodes);
                let ttl = g.cfg.lease_ttl_ms;
                g.nodes[k].jump_ms += ttl + 1;
                g.ev(format!("n{k} clock jumps forward by {}ms", ttl + 1));
                g.fault("node_clock_jump");
            }
            _ => {
                let r = {
                    let mut g = s.shared.lock();
                    let r = idle[g.tape.below(idle.len())];
                    g.op(format!("voluntary release r{r}"));
                    r
                };
                s.send(r, Cmd::Release);
                s.advance(0).await;
            }
        }
    }
}

/// Directed schedule skeleton (3 nodes, 3 replicas, roles permuted by the tape): a node misses
/// height h but receives the only copy of a failed publish at h+1; the next leader cannot reach
/// one of the nodes that hold h and repairs; a third leader cannot reach the node with the hole.
/// Every step is an ordinary fault of the random scheduler (lost write, partition, release);
/// the skeleton only makes their conjunction likely.
async fn skeleton_repair_hole(s: &mut Sched, ctx: &mut Ctx) {
    let (np, rp) = {
        let mut g = s.shared.lock();
        let mut np = [0usize, 1, 2];
        let mut rp = [0usize, 1, 2];
        g.tape.shuffle(&mut np);
        g.tape.shuffle(&mut rp);
        g.ev(format!("skeleton repair_hole nodes={np:?} replicas={rp:?}"));
        (np, rp)
    };
    let (na, nb, nc) = (np[0], np[1], np[2]);
    let (r0, r1, r2) = (rp[0], rp[1], rp[2]);
    async fn drive(
        s: &mut Sched,
        ctx: &mut Ctx,
        r: usize,
        cmd: Cmd,
        fate: &dyn Fn(usize, u32) -> Fate,
    ) {
        s.send(r, cmd);
        for _ in 0..6000 {
            s.advance(5).await;
            for wid in s.parked_writers() {
                let (node, h) = {
                    let g = s.shared.lock();
                    (g.writers[wid].node, g.writers[wid].height)
                };
                s.deliver(wid, fate(node, h));
            }
            flush(&s.shared, ctx);
            if s.idle(r) || ctx.failed() {
                return;
            }
        }
        panic!("skeleton: replica r{r} did not finish its command");
    }
    let plan = || Cmd::Round(RoundPlan { pause_ms: 0, crash_before_commit: false });
    for r in 0..3 {
        s.start_replica(r);
    }
    s.advance(1).await;
    // 1. r0 leads, height 1 reaches nodes a,b only
    drive(s, ctx, r0, plan(), &|n, _| if n == nc { Fate::Lost } else { Fate::Deliver }).await;
    // 2. r0 publishes X at height 2, only node c gets it: the publish fails, r0 releases
    drive(s, ctx, r0, plan(), &|n, _| if n == nc { Fate::Deliver } else { Fate::Lost }).await;
    // 3. r1 (cannot reach node a) leads and reconciles from height 1; its write of X to node b
    //    is lost
    s.shared.lock().partitions.insert((r1, na));
    drive(s, ctx, r1, plan(), &|n, h| {
        if h == 2 && n == nb { Fate::Lost } else { Fate::Deliver }
    })
    .await;
    drive(s, ctx, r1, Cmd::Release, &|_, _| Fate::Deliver).await;
    // 4. r2 (has height 1 by p2p, cannot reach node c) leads
    {
        let mut g = s.shared.lock();
        g.partitions.insert((r2, nc));
        if g.dbs[r2].height() == 0 && g.dbs[r0].height() >= 1 {
            let b = g.dbs[r0].blocks[0].1.clone();
            g.commit_block(r2, b, "p2p");
        }
    }
    drive(s, ctx, r2, plan(), &|_, _| Fate::Deliver).await;
    flush(&s.shared, ctx);
}

/// Faults stop: partitions heal, dead replicas restart, every write is delivered. Progress
/// (a new height committed by someone) is recorded as a probe, not as an oracle of C25.
async fn calm(s: &mut Sched, ctx: &mut Ctx) {
    let cfg = s.shared.lock().cfg.clone();
    let top0 = {
        let mut g = s.shared.lock();
        g.faults_enabled = false;
        g.partitions.clear();
        g.pending.clear();
        g.ev("--- faults stop ---");
        g.committed.keys().next_back().copied().unwrap_or(0)
    };
    let budget_ms = 6 * cfg.lease_ttl_ms + 4000;
    let start = s.shared.lock().now_ms;
    let mut progressed = false;
    let mut turn = 0usize;
    loop {
        flush(&s.shared, ctx);
        if ctx.failed() {
            return;
        }
        for r in 0..cfg.n_replicas {
            if !s.alive(r) {
                if s.replicas[r].is_some() {
                    s.crash(r);
                }
                s.start_replica(r);
            }
        }
        for wid in s.parked_writers() {
            s.deliver(wid, Fate::Deliver);
        }
        // one replica at a time takes a turn, like a follower polling at block-time intervals
        let r = turn % cfg.n_replicas;
        turn += 1;
        if s.idle(r) {
            s.send(r, Cmd::Round(RoundPlan { pause_ms: 0, crash_before_commit: false }));
        }
        s.advance(50).await;
        let (now, top) = {
            let g = s.shared.lock();
            (g.now_ms, g.committed.keys().next_back().copied().unwrap_or(0))
        };
        if top > top0 {
            progressed = true;
            break;
        }
        if now - start > budget_ms {
            break;
        }
    }
    let mut g = s.shared.lock();
    if progressed {
        g.probe("progress_after_faults_stop");
    } else {
        g.probe("no_progress_after_faults_stop");
        g.ev("no new height committed after faults stopped (not part of C25)");
    }
}

/// End of the run: every incarnation is crashed and every thread that real code created is
/// driven to its end, so that nothing of this run survives into the next one.
async fn teardown(s: &mut Sched) -> Option<Box<dyn std::any::Any + Send>> {
    {
        let mut g = s.shared.lock();
        let owners: Vec<String> = g.owners.keys().cloned().collect();
        for o in owners {
            g.owners.get_mut(&o).unwrap().crashed = true;
        }
        g.pending.clear();
    }
    for r in 0..s.replicas.len() {
        if let Some(h) = s.replicas[r].take() {
            s.retired.push(h);
        }
    }
    let mut rounds = 0;
    loop {
        rounds += 1;
        let owners: Vec<String> = s.retired.iter().map(|h| h.owner.clone()).collect();
        for o in &owners {
            sim::kill_fiber(&s.shared, o);
        }
        for wid in s.parked_writers() {
            sim::deliver_writer(&s.shared, wid, Fate::Lost);
        }
        tokio::task::yield_now().await;
        let all_done = {
            let g = s.shared.lock();
            owners.iter().all(|o| g.fibers[o].phase == Phase::Done)
                && !g.writers.iter().any(|w| w.state != WState::Done)
        };
        if all_done {
            break;
        }
        if rounds % 64 == 0 {
            // a fiber sleeping in a retry loop: let simulated time pass
            tokio::time::sleep(Duration::from_millis(500)).await;
        }
        assert!(rounds < 100_000, "teardown does not converge");
    }
    let mut panic = None;
    for mut h in s.retired.drain(..) {
        h.task.abort();
        if let Some(t) = h.thread.take() {
            let _ = t.join();
        }
        let mut g = s.shared.lock();
        if let Some(p) = g.fibers.get_mut(&h.owner).and_then(|f| f.panic.take()) {
            panic.get_or_insert(p);
        }
    }
    panic
}

impl simkit::World for HaWorld {
    fn name(&self) -> &'static str {
        "w6_ha"
    }
    fn properties(&self) -> Vec<&'static str> {
        vec![PROP]
    }

    fn run(&self, ctx: &mut Ctx) {
        let (cfg, steps, fault_free) = draw_cfg(&mut ctx.tape, ctx.tier);
        ctx.ev(format!(
            "cfg nodes={} replicas={} budget={} quorum={} ttl={} attempts={} retry={} maxlen={} async_pm={} sync_pm={} lat={} lossy={:?} steps={steps} fault_free={fault_free}{}",
            cfg.n_nodes,
            cfg.n_replicas,
            cfg.budget,
            cfg.quorum,
            cfg.lease_ttl_ms,
            cfg.max_attempts,
            cfg.retry_delay_ms,
            cfg.stream_max_len,
            cfg.async_fault_pm,
            cfg.sync_fault_pm,
            cfg.max_latency_ms,
            cfg.lossy_nodes,
            if cfg.over_budget { " OVER-BUDGET (negative control)" } else { "" }
        ));
        // node knobs
        let mut nodes = Vec::new();
        for _ in 0..cfg.n_nodes {
            let node_size = [100usize, 1, 2][ctx.tape.below(3)];
            let rate_pm = [1000u64, 1000, 990, 1010, 500, 2000][ctx.tape.below(6)];
            let offset_ms = 1_700_000_000_000 + ctx.tape.choose(5) * 777;
            nodes.push(NodeSt {
                model: redis_model::Node::new(node_size),
                offset_ms,
                rate_pm,
                jump_ms: 0,
                generation: 0,
                epoch_floor: 0,
                data_losses: 0,
            });
        }
        let mut script_names = BTreeMap::new();
        for name in SCRIPTS {
            // names for the trace only; the script text that runs is what the adapter sends
            if let Ok(src) = std::fs::read(format!("{SCRIPT_DIR}/{name}.lua")) {
                script_names.insert(resp::sha1_hex(&src), *name);
            }
        }
        let tape = std::mem::replace(&mut ctx.tape, Tape::replay(Vec::new()));
        let n_replicas = cfg.n_replicas;
        let n_nodes = cfg.n_nodes;
        let skeleton = cfg.skeleton;
        let hash_salt = cfg.hash_salt;
        let shared = Arc::new(Shared {
            m: Mutex::new(Inner {
                cfg,
                tape,
                log: Vec::new(),
                now_ms: 0,
                nodes,
                keys: Keys {
                    lease: LEASE_KEY.as_bytes().to_vec(),
                    epoch: format!("{LEASE_KEY}:epoch:token").into_bytes(),
                    stream: format!("{LEASE_KEY}:block:stream").into_bytes(),
                },
                partitions: BTreeSet::new(),
                owners: BTreeMap::new(),
                fibers: BTreeMap::new(),
                writers: Vec::new(),
                sync_current: [None; sim::MAX_NODES],
                pending: Vec::new(),
                dbs: (0..n_replicas).map(|_| Db::default()).collect(),
                committed: BTreeMap::new(),
                id_cache: BTreeMap::new(),
                script_names,
                produced: 0,
                faults_enabled: !fault_free,
                failed: false,
                async_conns: 0,
                producer_of: BTreeMap::new(),
                stream_view: (0..n_nodes).map(|_| BTreeSet::new()).collect(),
                trim_outran_replica: false,
                unordered_append: false,
                busy: BTreeSet::new(),
            }),
            cv: Condvar::new(),
        });
        sim::set_current(Some(shared.clone()));
        shim::SIM_NOW_MS.store(0, std::sync::atomic::Ordering::SeqCst);

        let mut seed = [0u8; 32];
        seed[..8].copy_from_slice(&simkit::mix_seed(hash_salt, 77).to_le_bytes());
        let rt = tokio::runtime::Builder::new_current_thread()
            .enable_time()
            .start_paused(true)
            .rng_seed(tokio::runtime::RngSeed::from_bytes(&seed))
            .build()
            .expect("runtime");

        let mut sched: Option<Sched> = None;
        ctx.scope(PROP);
        let body = std::panic::catch_unwind(std::panic::AssertUnwindSafe(|| {
            rt.block_on(async {
                let t0 = tokio::time::Instant::now();
                sim::T0.with(|t| t.set(Some(t0)));
                sched = Some(Sched {
                    shared: shared.clone(),
                    replicas: (0..n_replicas).map(|_| None).collect(),
                    incs: vec![0; n_replicas],
                    retired: Vec::new(),
                    t0,
                });
                let s = sched.as_mut().unwrap();
                if skeleton {
                    skeleton_repair_hole(s, ctx).await;
                } else {
                    chaos(s, ctx, steps, fault_free).await;
                }
                flush(&shared, ctx);
                if !ctx.failed() {
                    calm(s, ctx).await;
                }
                flush(&shared, ctx);
            })
        }));
        // teardown always runs (also after a panic above): no thread of this run may survive
        let fiber_panic = match sched.as_mut() {
            Some(s) => rt.block_on(teardown(s)),
            None => None,
        };
        flush(&shared, ctx);
        {
            let mut g = shared.lock();
            ctx.sim_ms += g.now_ms;
            let mut cmds = 0;
            let mut scripts = 0;
            for n in &g.nodes {
                cmds += n.model.commands;
                scripts += n.model.scripts_run;
            }
            ctx.probe_n("redis_commands", cmds);
            ctx.probe_n("lua_scripts_run", scripts);
            ctx.probe_n("heights_committed", g.committed.len() as u64);
            ctx.tape = std::mem::replace(&mut g.tape, Tape::replay(Vec::new()));
        }
        sim::set_current(None);
        drop(sched);
        drop(rt);
        if let Err(p) = body {
            std::panic::resume_unwind(p);
        }
        if let Some(p) = fiber_panic {
            std::panic::resume_unwind(p);
        }
    }

    fn real_components(&self) -> Vec<&'static str> {
        vec![
            "fuel_core::service::adapters::consensus_module::poa::RedisLeaderLeaseAdapter (leader_state, release, publish_produced_block, unreconciled_blocks, repair_sub_quorum_block, acquire_lease_if_free, has_lease_owner_quorum, Drop)",
            "redis-rs 1.2 MultiplexedConnection (async) and Connection (blocking, over Unix sockets), Script/EVALSHA/SCRIPT LOAD flow, RESP codecs",
            "the six Lua scripts of redis_leader_lease_adapter_scripts (text sent by the adapter, interpreted)",
            "detached writer threads and mpsc result collection of publish_block_on_all_nodes (real threads, scheduled by the simulator)",
            "postcard SealedBlock encoding",
        ]
    }
    fn stubs(&self) -> Vec<&'static str> {
        vec![
            "Redis server: command-level model (GET/SET PX NX/INCR/DEL/PEXPIRE/PTTL/XADD/XRANGE/XREVRANGE/XTRIM/TIME/EVAL/EVALSHA/SCRIPT) + mini-Lua interpreter for the script subset",
            "network replica<->node: in-memory duplex (async client) and Unix sockets (blocking client) with injected loss/reset/hang/late execution/partitions",
            "PoA MainTask / Importer: a per-replica loop that follows their call order (leader_state -> produce -> publish_produced_block -> commit; reconciliation import; release on failure)",
            "block producer/executor: empty PoA blocks with unique timestamps; local DB: in-memory vector",
            "p2p block gossip between replicas: direct copy of a committed block",
            "clocks (tokio paused clock; per-node rate/offset/jumps; std::time::Instant on replica threads), OS randomness (getrandom)",
        ]
    }
    fn default_runs(&self, _prop: &str, tier: Tier) -> u64 {
        match tier {
            Tier::Quick => 600,
            Tier::Thorough => 10_000,
        }
    }
    fn nontrivial_min_ops(&self, _prop: &str) -> u64 {
        10
    }
    fn assumptions(&self, _prop: &str) -> Vec<String> {
        vec![
            "Disruption budget: in a verdict run at most `budget` distinct Redis nodes ever lose their data (budget 0: none); restarts that keep data are unrestricted. Runs with W6_OVER_BUDGET=1 are a negative control and never produce a verdict.".into(),
            "A Lua script executes atomically on its node at one instant of that node's clock; node clocks run at 0.5x..2x of simulated time and may jump forward.".into(),
            "A hard-crashed replica never commits and never sends again; requests it had already issued may still arrive. Its DB (committed blocks) survives.".into(),
            "Approximate stream trimming (XTRIM MAXLEN ~) removes whole macro nodes of 1, 2 or 100 entries (stream-node-max-entries).".into(),
            "Liveness after faults stop is reported as probes (progress_after_faults_stop / no_progress_after_faults_stop), not as part of C25.".into(),
        ]
    }
    fn uses_global_clock(&self) -> bool {
        true
    }
}

fn main() {
    simkit::cli::main_world(&HaWorld)
}
