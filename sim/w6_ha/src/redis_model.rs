//! Command-level model of one Redis node: strings with millisecond expiry, streams, the script
//! cache and `EVAL`/`EVALSHA` (scripts are run by the mini-Lua interpreter in `lua.rs`).
//! Only what the leader-lease adapter and its scripts can reach is modelled; every other
//! command answers `ERR unknown command`, like a real server would for an unknown name.
//!
//! Time: the node has its own clock (`now_ms`, set by the simulator before each command); a
//! key is expired when `now_ms > expire_at` (Redis' `keyIsExpired`). Scripts see a frozen clock.

use crate::{
    lua::{
        self,
        RedisHost,
        Reply,
    },
    resp::sha1_hex,
};
use std::collections::{
    BTreeMap,
    VecDeque,
};

#[derive(Clone, Copy, PartialEq, Eq, PartialOrd, Ord, Debug)]
pub struct StreamId {
    pub ms: u64,
    pub seq: u64,
}

impl StreamId {
    pub fn text(&self) -> String {
        format!("{}-{}", self.ms, self.seq)
    }
}

#[derive(Clone, Debug)]
pub struct StreamEntry {
    pub id: StreamId,
    pub fields: Vec<(Vec<u8>, Vec<u8>)>,
}

#[derive(Clone, Default, Debug)]
pub struct Stream {
    pub entries: VecDeque<StreamEntry>,
    pub last_id: Option<StreamId>,
    /// entries per radix-tree node (macro node), oldest first; used by `XTRIM MAXLEN ~`.
    nodes: VecDeque<usize>,
}

#[derive(Clone, Debug)]
struct StrEntry {
    val: Vec<u8>,
    expire_at: Option<u64>,
}

#[derive(Clone, Debug)]
pub struct Node {
    pub now_ms: u64,
    strings: BTreeMap<Vec<u8>, StrEntry>,
    streams: BTreeMap<Vec<u8>, Stream>,
    scripts: BTreeMap<String, Vec<u8>>,
    /// `stream-node-max-entries` (Redis default 100): granularity of approximate trimming.
    pub stream_node_max_entries: usize,
    /// number of data commands executed (for evidence)
    pub commands: u64,
    pub scripts_run: u64,
}

fn err_args(cmd: &str) -> Reply {
    Reply::Error(format!(
        "ERR wrong number of arguments for '{}' command",
        cmd.to_lowercase()
    ))
}
fn err_int() -> Reply {
    Reply::Error("ERR value is not an integer or out of range".into())
}
fn err_syntax() -> Reply {
    Reply::Error("ERR syntax error".into())
}
fn wrongtype() -> Reply {
    Reply::Error("WRONGTYPE Operation against a key holding the wrong kind of value".into())
}
fn ok() -> Reply {
    Reply::Status("OK".into())
}

fn parse_i64(b: &[u8]) -> Option<i64> {
    std::str::from_utf8(b).ok()?.parse::<i64>().ok()
}
fn upper(b: &[u8]) -> String {
    String::from_utf8_lossy(b).to_ascii_uppercase()
}

impl Node {
    pub fn new(stream_node_max_entries: usize) -> Self {
        Node {
            now_ms: 0,
            strings: BTreeMap::new(),
            streams: BTreeMap::new(),
            scripts: BTreeMap::new(),
            stream_node_max_entries: stream_node_max_entries.max(1),
            commands: 0,
            scripts_run: 0,
        }
    }

    /// Restart that loses everything (no persistence).
    pub fn lose_data(&mut self) {
        self.strings.clear();
        self.streams.clear();
        self.scripts.clear();
    }

    /// Restart with persistence: data survive, the script cache does not.
    pub fn restart_keep_data(&mut self) {
        self.scripts.clear();
    }

    // ---- inspection (used by the oracles, never by the adapter) ----

    pub fn peek_string(&self, key: &[u8]) -> Option<&[u8]> {
        match self.strings.get(key) {
            Some(e) if !self.expired(e) => Some(&e.val),
            _ => None,
        }
    }
    pub fn peek_stream(&self, key: &[u8]) -> Option<&Stream> {
        self.streams.get(key)
    }
    #[allow(dead_code)]
    pub fn peek_pttl(&self, key: &[u8]) -> Option<u64> {
        match self.strings.get(key) {
            Some(e) if !self.expired(e) => e.expire_at.map(|t| t.saturating_sub(self.now_ms)),
            _ => None,
        }
    }

    fn expired(&self, e: &StrEntry) -> bool {
        matches!(e.expire_at, Some(t) if self.now_ms > t)
    }

    fn live_string(&mut self, key: &[u8]) -> Option<&mut StrEntry> {
        let dead = match self.strings.get(key) {
            Some(e) => self.expired(e),
            None => return None,
        };
        if dead {
            self.strings.remove(key);
            return None;
        }
        self.strings.get_mut(key)
    }

    // ---- top-level command execution ----

    /// Execute one command as received from a client connection.
    pub fn execute(&mut self, argv: &[Vec<u8>]) -> Reply {
        if argv.is_empty() {
            return Reply::Error("ERR empty command".into());
        }
        let cmd = upper(&argv[0]);
        match cmd.as_str() {
            "EVAL" | "EVALSHA" => self.eval_cmd(&cmd, argv),
            "SCRIPT" => self.script_cmd(argv),
            "CLIENT" | "SELECT" => ok(),
            "PING" => {
                if argv.len() > 1 {
                    Reply::Bulk(argv[1].clone())
                } else {
                    Reply::Status("PONG".into())
                }
            }
            "ECHO" => {
                if argv.len() != 2 {
                    return err_args(&cmd);
                }
                Reply::Bulk(argv[1].clone())
            }
            "INFO" => Reply::Bulk(b"# Server\r\nredis_version:7.0.0\r\n".to_vec()),
            "COMMAND" => Reply::Array(Vec::new()),
            _ => self.data_command(&cmd, argv),
        }
    }

    fn script_cmd(&mut self, argv: &[Vec<u8>]) -> Reply {
        if argv.len() < 2 {
            return err_args("script");
        }
        match upper(&argv[1]).as_str() {
            "LOAD" => {
                if argv.len() != 3 {
                    return err_args("script|load");
                }
                if let Err(e) = lua::parse(&argv[2]) {
                    return Reply::Error(format!("ERR Error compiling script (new function): user_script:{e}"));
                }
                let sha = sha1_hex(&argv[2]);
                self.scripts.insert(sha.clone(), argv[2].clone());
                Reply::Bulk(sha.into_bytes())
            }
            "EXISTS" => Reply::Array(
                argv[2..]
                    .iter()
                    .map(|s| {
                        let k = String::from_utf8_lossy(s).to_ascii_lowercase();
                        Reply::Int(self.scripts.contains_key(&k) as i64)
                    })
                    .collect(),
            ),
            "FLUSH" => {
                self.scripts.clear();
                ok()
            }
            other => Reply::Error(format!("ERR unknown subcommand '{other}'. Try SCRIPT HELP.")),
        }
    }

    /// Replace the cached body of a script (sensitivity experiments only).
    pub fn set_script(&mut self, sha: &str, body: Vec<u8>) {
        self.scripts.insert(sha.to_ascii_lowercase(), body);
    }

    pub fn has_script(&self, sha: &str) -> bool {
        self.scripts.contains_key(&sha.to_ascii_lowercase())
    }

    fn eval_cmd(&mut self, cmd: &str, argv: &[Vec<u8>]) -> Reply {
        if argv.len() < 3 {
            return err_args(cmd);
        }
        let Some(numkeys) = parse_i64(&argv[2]) else {
            return err_int();
        };
        if numkeys < 0 {
            return Reply::Error("ERR Number of keys can't be negative".into());
        }
        let numkeys = numkeys as usize;
        if numkeys > argv.len() - 3 {
            return Reply::Error("ERR Number of keys can't be greater than number of args".into());
        }
        let src = if cmd == "EVAL" {
            let sha = sha1_hex(&argv[1]);
            self.scripts.entry(sha).or_insert_with(|| argv[1].clone());
            argv[1].clone()
        } else {
            let sha = String::from_utf8_lossy(&argv[1]).to_ascii_lowercase();
            match self.scripts.get(&sha) {
                Some(s) => s.clone(),
                None => {
                    return Reply::Error("NOSCRIPT No matching script. Please use EVAL.".into());
                }
            }
        };
        let chunk = match lua::parse(&src) {
            Ok(c) => c,
            Err(e) => {
                return Reply::Error(format!(
                    "ERR Error compiling script (new function): user_script:{e}"
                ));
            }
        };
        let keys = &argv[3..3 + numkeys];
        let args = &argv[3 + numkeys..];
        self.scripts_run += 1;
        let mut host = ScriptHost { node: self };
        let mut interp = lua::Interp::new(&mut host);
        interp.eval(&chunk, keys, args)
    }

    // ---- data commands (also callable from scripts) ----

    fn data_command(&mut self, cmd: &str, argv: &[Vec<u8>]) -> Reply {
        self.commands += 1;
        match cmd {
            "GET" => {
                if argv.len() != 2 {
                    return err_args(cmd);
                }
                if self.streams.contains_key(&argv[1]) {
                    return wrongtype();
                }
                match self.live_string(&argv[1]) {
                    Some(e) => Reply::Bulk(e.val.clone()),
                    None => Reply::Nil,
                }
            }
            "SET" => self.cmd_set(argv),
            "DEL" | "UNLINK" => {
                if argv.len() < 2 {
                    return err_args(cmd);
                }
                let mut n = 0;
                for k in &argv[1..] {
                    if self.live_string(k).is_some() {
                        self.strings.remove(k);
                        n += 1;
                    } else if self.streams.remove(k).is_some() {
                        n += 1;
                    }
                }
                Reply::Int(n)
            }
            "EXISTS" => {
                if argv.len() < 2 {
                    return err_args(cmd);
                }
                let mut n = 0;
                for k in &argv[1..] {
                    if self.live_string(k).is_some() || self.streams.contains_key(k) {
                        n += 1;
                    }
                }
                Reply::Int(n)
            }
            "TYPE" => {
                if argv.len() != 2 {
                    return err_args(cmd);
                }
                let t = if self.live_string(&argv[1]).is_some() {
                    "string"
                } else if self.streams.contains_key(&argv[1]) {
                    "stream"
                } else {
                    "none"
                };
                Reply::Status(t.into())
            }
            "INCR" | "DECR" | "INCRBY" | "DECRBY" => {
                let want = if cmd.ends_with("BY") { 3 } else { 2 };
                if argv.len() != want {
                    return err_args(cmd);
                }
                let mut delta = if want == 3 {
                    match parse_i64(&argv[2]) {
                        Some(d) => d,
                        None => return err_int(),
                    }
                } else {
                    1
                };
                if cmd.starts_with("DECR") {
                    delta = -delta;
                }
                if self.streams.contains_key(&argv[1]) {
                    return wrongtype();
                }
                let (cur, exp) = match self.live_string(&argv[1]) {
                    Some(e) => match parse_i64(&e.val) {
                        Some(v) => (v, e.expire_at),
                        None => return err_int(),
                    },
                    None => (0, None),
                };
                let Some(nv) = cur.checked_add(delta) else {
                    return Reply::Error("ERR increment or decrement would overflow".into());
                };
                self.strings.insert(
                    argv[1].clone(),
                    StrEntry { val: nv.to_string().into_bytes(), expire_at: exp },
                );
                Reply::Int(nv)
            }
            "PEXPIRE" | "EXPIRE" => {
                if argv.len() != 3 {
                    return err_args(cmd);
                }
                let Some(t) = parse_i64(&argv[2]) else {
                    return err_int();
                };
                let ms = if cmd == "EXPIRE" { t.saturating_mul(1000) } else { t };
                let now = self.now_ms;
                if self.streams.contains_key(&argv[1]) {
                    // stream keys with a TTL are not modelled (the adapter never does this)
                    return Reply::Error("ERR expiring stream keys is not modelled".into());
                }
                match self.live_string(&argv[1]) {
                    Some(e) => {
                        if ms <= 0 {
                            self.strings.remove(&argv[1]);
                        } else {
                            e.expire_at = Some(now + ms as u64);
                        }
                        Reply::Int(1)
                    }
                    None => Reply::Int(0),
                }
            }
            "PERSIST" => {
                if argv.len() != 2 {
                    return err_args(cmd);
                }
                match self.live_string(&argv[1]) {
                    Some(e) if e.expire_at.is_some() => {
                        e.expire_at = None;
                        Reply::Int(1)
                    }
                    _ => Reply::Int(0),
                }
            }
            "PTTL" | "TTL" => {
                if argv.len() != 2 {
                    return err_args(cmd);
                }
                let now = self.now_ms;
                if self.streams.contains_key(&argv[1]) {
                    return Reply::Int(-1);
                }
                match self.live_string(&argv[1]) {
                    None => Reply::Int(-2),
                    Some(e) => match e.expire_at {
                        None => Reply::Int(-1),
                        Some(t) => {
                            let ms = t.saturating_sub(now) as i64;
                            Reply::Int(if cmd == "TTL" { (ms + 500) / 1000 } else { ms })
                        }
                    },
                }
            }
            "TIME" => {
                if argv.len() != 1 {
                    return err_args(cmd);
                }
                Reply::Array(vec![
                    Reply::Bulk((self.now_ms / 1000).to_string().into_bytes()),
                    Reply::Bulk(((self.now_ms % 1000) * 1000).to_string().into_bytes()),
                ])
            }
            "DBSIZE" => {
                let keys: Vec<Vec<u8>> = self.strings.keys().cloned().collect();
                let mut n = self.streams.len() as i64;
                for k in keys {
                    if self.live_string(&k).is_some() {
                        n += 1;
                    }
                }
                Reply::Int(n)
            }
            "FLUSHALL" | "FLUSHDB" => {
                self.strings.clear();
                self.streams.clear();
                ok()
            }
            "XADD" => self.cmd_xadd(argv),
            "XLEN" => {
                if argv.len() != 2 {
                    return err_args(cmd);
                }
                if self.live_string(&argv[1]).is_some() {
                    return wrongtype();
                }
                Reply::Int(self.streams.get(&argv[1]).map(|s| s.entries.len()).unwrap_or(0) as i64)
            }
            "XRANGE" | "XREVRANGE" => self.cmd_xrange(cmd, argv),
            "XTRIM" => self.cmd_xtrim(argv),
            _ => {
                let mut rest = String::new();
                for a in argv.iter().skip(1).take(3) {
                    rest.push_str(&format!("'{}' ", String::from_utf8_lossy(a)));
                }
                Reply::Error(format!(
                    "ERR unknown command '{}', with args beginning with: {}",
                    String::from_utf8_lossy(&argv[0]),
                    rest
                ))
            }
        }
    }

    fn cmd_set(&mut self, argv: &[Vec<u8>]) -> Reply {
        if argv.len() < 3 {
            return err_args("set");
        }
        let (mut nx, mut xx, mut keepttl, mut get) = (false, false, false, false);
        let mut expire: Option<u64> = None;
        let mut i = 3;
        while i < argv.len() {
            match upper(&argv[i]).as_str() {
                "NX" => nx = true,
                "XX" => xx = true,
                "KEEPTTL" => keepttl = true,
                "GET" => get = true,
                o @ ("EX" | "PX" | "EXAT" | "PXAT") => {
                    if i + 1 >= argv.len() || expire.is_some() {
                        return err_syntax();
                    }
                    let Some(v) = parse_i64(&argv[i + 1]) else {
                        return err_int();
                    };
                    if v <= 0 {
                        return Reply::Error("ERR invalid expire time in 'set' command".into());
                    }
                    let v = v as u64;
                    expire = Some(match o {
                        "EX" => self.now_ms + v.saturating_mul(1000),
                        "PX" => self.now_ms + v,
                        "EXAT" => v.saturating_mul(1000),
                        _ => v,
                    });
                    i += 1;
                }
                _ => return err_syntax(),
            }
            i += 1;
        }
        if (nx && xx) || (keepttl && expire.is_some()) {
            return err_syntax();
        }
        if self.streams.contains_key(&argv[1]) {
            if get {
                return wrongtype();
            }
            if nx {
                return Reply::Nil;
            }
            self.streams.remove(&argv[1]);
        }
        let old = self.live_string(&argv[1]).map(|e| (e.val.clone(), e.expire_at));
        if (nx && old.is_some()) || (xx && old.is_none()) {
            return if get {
                match old {
                    Some((v, _)) => Reply::Bulk(v),
                    None => Reply::Nil,
                }
            } else {
                Reply::Nil
            };
        }
        let expire_at = if keepttl { old.as_ref().and_then(|o| o.1) } else { expire };
        self.strings
            .insert(argv[1].clone(), StrEntry { val: argv[2].clone(), expire_at });
        if get {
            match old {
                Some((v, _)) => Reply::Bulk(v),
                None => Reply::Nil,
            }
        } else {
            ok()
        }
    }

    fn parse_id(text: &[u8], default_seq: u64) -> Option<StreamId> {
        let s = std::str::from_utf8(text).ok()?;
        match s.split_once('-') {
            Some((a, b)) => Some(StreamId { ms: a.parse().ok()?, seq: b.parse().ok()? }),
            None => Some(StreamId { ms: s.parse().ok()?, seq: default_seq }),
        }
    }

    fn cmd_xadd(&mut self, argv: &[Vec<u8>]) -> Reply {
        // XADD key [NOMKSTREAM] [MAXLEN|MINID ...] <*|id> field value [field value ...]
        if argv.len() < 5 {
            return err_args("xadd");
        }
        let mut i = 2;
        let mut nomkstream = false;
        let mut trim: Option<(bool, usize)> = None;
        loop {
            if i >= argv.len() {
                return err_args("xadd");
            }
            match upper(&argv[i]).as_str() {
                "NOMKSTREAM" => {
                    nomkstream = true;
                    i += 1;
                }
                "MAXLEN" => {
                    i += 1;
                    let mut approx = false;
                    if i < argv.len() && (argv[i] == b"~" || argv[i] == b"=") {
                        approx = argv[i] == b"~";
                        i += 1;
                    }
                    let Some(n) = argv.get(i).and_then(|a| parse_i64(a)) else {
                        return err_int();
                    };
                    if n < 0 {
                        return Reply::Error("ERR The MAXLEN argument must be >= 0.".into());
                    }
                    trim = Some((approx, n as usize));
                    i += 1;
                }
                "MINID" | "LIMIT" => {
                    return Reply::Error("ERR XADD MINID/LIMIT is not modelled".into());
                }
                _ => break,
            }
        }
        let id_arg = argv[i].clone();
        i += 1;
        let rest = &argv[i..];
        if rest.is_empty() || rest.len() % 2 != 0 {
            return err_args("xadd");
        }
        if self.live_string(&argv[1]).is_some() {
            return wrongtype();
        }
        if nomkstream && !self.streams.contains_key(&argv[1]) {
            return Reply::Nil;
        }
        let now = self.now_ms;
        let k = self.stream_node_max_entries;
        let st = self.streams.entry(argv[1].clone()).or_default();
        let id = if id_arg == b"*" {
            match st.last_id {
                Some(last) if now <= last.ms => {
                    if last.seq == u64::MAX {
                        return Reply::Error(
                            "ERR The stream has exhausted the last possible ID, unable to add more items"
                                .into(),
                        );
                    }
                    StreamId { ms: last.ms, seq: last.seq + 1 }
                }
                _ => StreamId { ms: now, seq: 0 },
            }
        } else {
            let txt = String::from_utf8_lossy(&id_arg).into_owned();
            let id = if let Some(ms) = txt.strip_suffix("-*") {
                let Ok(ms) = ms.parse::<u64>() else {
                    return Reply::Error(
                        "ERR Invalid stream ID specified as stream command argument".into(),
                    );
                };
                match st.last_id {
                    Some(last) if last.ms == ms => StreamId { ms, seq: last.seq + 1 },
                    _ => StreamId { ms, seq: 0 },
                }
            } else {
                match Self::parse_id(&id_arg, 0) {
                    Some(id) => id,
                    None => {
                        return Reply::Error(
                            "ERR Invalid stream ID specified as stream command argument".into(),
                        );
                    }
                }
            };
            if let Some(last) = st.last_id {
                if id <= last {
                    return Reply::Error(
                        "ERR The ID specified in XADD is equal or smaller than the target stream top item"
                            .into(),
                    );
                }
            } else if id == (StreamId { ms: 0, seq: 0 }) {
                return Reply::Error("ERR The ID specified in XADD must be greater than 0-0".into());
            }
            id
        };
        let fields = rest.chunks(2).map(|c| (c[0].clone(), c[1].clone())).collect();
        st.entries.push_back(StreamEntry { id, fields });
        st.last_id = Some(id);
        match st.nodes.back_mut() {
            Some(n) if *n < k => *n += 1,
            _ => st.nodes.push_back(1),
        }
        if let Some((approx, n)) = trim {
            Self::trim_stream(st, approx, n);
        }
        Reply::Bulk(id.text().into_bytes())
    }

    fn trim_stream(st: &mut Stream, approx: bool, maxlen: usize) -> i64 {
        let mut removed = 0i64;
        while st.entries.len() > maxlen {
            let Some(first) = st.nodes.front().copied() else {
                break;
            };
            if st.entries.len() - first >= maxlen {
                // the whole oldest node can go
                for _ in 0..first {
                    st.entries.pop_front();
                }
                st.nodes.pop_front();
                removed += first as i64;
            } else {
                if approx {
                    break;
                }
                let excess = st.entries.len() - maxlen;
                for _ in 0..excess {
                    st.entries.pop_front();
                }
                if let Some(f) = st.nodes.front_mut() {
                    *f -= excess;
                }
                removed += excess as i64;
            }
        }
        removed
    }

    fn cmd_xtrim(&mut self, argv: &[Vec<u8>]) -> Reply {
        // XTRIM key MAXLEN [=|~] threshold
        if argv.len() < 4 {
            return err_args("xtrim");
        }
        if upper(&argv[2]) != "MAXLEN" {
            return Reply::Error("ERR XTRIM strategies other than MAXLEN are not modelled".into());
        }
        let mut i = 3;
        let mut approx = false;
        if argv[i] == b"~" || argv[i] == b"=" {
            approx = argv[i] == b"~";
            i += 1;
        }
        let Some(n) = argv.get(i).and_then(|a| parse_i64(a)) else {
            return err_int();
        };
        if n < 0 {
            return Reply::Error("ERR The MAXLEN argument must be >= 0.".into());
        }
        if argv.len() > i + 1 {
            return err_syntax();
        }
        if self.live_string(&argv[1]).is_some() {
            return wrongtype();
        }
        match self.streams.get_mut(&argv[1]) {
            Some(st) => Reply::Int(Self::trim_stream(st, approx, n as usize)),
            None => Reply::Int(0),
        }
    }

    fn cmd_xrange(&mut self, cmd: &str, argv: &[Vec<u8>]) -> Reply {
        if argv.len() != 4 && argv.len() != 6 {
            return err_args(cmd);
        }
        let rev = cmd == "XREVRANGE";
        let (lo_arg, hi_arg) = if rev { (&argv[3], &argv[2]) } else { (&argv[2], &argv[3]) };
        let mut count: Option<usize> = None;
        if argv.len() == 6 {
            if upper(&argv[4]) != "COUNT" {
                return err_syntax();
            }
            match parse_i64(&argv[5]) {
                Some(c) if c >= 0 => count = Some(c as usize),
                Some(_) => count = Some(0),
                None => return err_int(),
            }
        }
        let bad = || Reply::Error("ERR Invalid stream ID specified as stream command argument".into());
        let parse_bound = |a: &Vec<u8>, is_lo: bool| -> Option<(StreamId, bool)> {
            let (excl, body) = match a.strip_prefix(b"(") {
                Some(b) => (true, b),
                None => (false, a.as_slice()),
            };
            if body == b"-" {
                return Some((StreamId { ms: 0, seq: 0 }, excl));
            }
            if body == b"+" {
                return Some((StreamId { ms: u64::MAX, seq: u64::MAX }, excl));
            }
            Self::parse_id(body, if is_lo { 0 } else { u64::MAX }).map(|id| (id, excl))
        };
        let Some((lo, lo_ex)) = parse_bound(lo_arg, true) else {
            return bad();
        };
        let Some((hi, hi_ex)) = parse_bound(hi_arg, false) else {
            return bad();
        };
        if self.live_string(&argv[1]).is_some() {
            return wrongtype();
        }
        let Some(st) = self.streams.get(&argv[1]) else {
            return Reply::Array(Vec::new());
        };
        let inside = |id: StreamId| {
            (if lo_ex { id > lo } else { id >= lo }) && (if hi_ex { id < hi } else { id <= hi })
        };
        let render = |e: &StreamEntry| {
            let mut f = Vec::with_capacity(e.fields.len() * 2);
            for (k, v) in &e.fields {
                f.push(Reply::Bulk(k.clone()));
                f.push(Reply::Bulk(v.clone()));
            }
            Reply::Array(vec![Reply::Bulk(e.id.text().into_bytes()), Reply::Array(f)])
        };
        let mut out = Vec::new();
        let limit = count.unwrap_or(usize::MAX);
        if count == Some(0) {
            return Reply::Array(out);
        }
        if rev {
            for e in st.entries.iter().rev() {
                if inside(e.id) {
                    out.push(render(e));
                    if out.len() >= limit {
                        break;
                    }
                }
            }
        } else {
            for e in st.entries.iter() {
                if inside(e.id) {
                    out.push(render(e));
                    if out.len() >= limit {
                        break;
                    }
                }
            }
        }
        Reply::Array(out)
    }
}

struct ScriptHost<'a> {
    node: &'a mut Node,
}

impl RedisHost for ScriptHost<'_> {
    fn call(&mut self, argv: Vec<Vec<u8>>) -> Reply {
        if argv.is_empty() {
            return Reply::Error("ERR empty command".into());
        }
        let cmd = upper(&argv[0]);
        match cmd.as_str() {
            "EVAL" | "EVALSHA" | "SCRIPT" | "CLIENT" | "SELECT" | "FLUSHALL" | "FLUSHDB" => {
                Reply::Error("ERR This Redis command is not allowed from script".into())
            }
            _ => self.node.data_command(&cmd, &argv),
        }
    }
}
