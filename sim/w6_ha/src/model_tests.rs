//! Unit tests of the mini-Lua interpreter and the Redis node model against the REAL scripts in
//! /repo/crates/fuel-core/redis_leader_lease_adapter_scripts (read at test time).

use crate::{
    lua::{
        self,
        Reply,
    },
    redis_model::Node,
    resp::sha1_hex,
};

const DIR: &str = "/repo/crates/fuel-core/redis_leader_lease_adapter_scripts";
const LEASE: &[u8] = b"poa:lock";
const EPOCH: &[u8] = b"poa:lock:epoch:token";
const STREAM: &[u8] = b"poa:lock:block:stream";

fn script(name: &str) -> Vec<u8> {
    std::fs::read(format!("{DIR}/{name}.lua")).expect("script file")
}

fn b(s: &str) -> Vec<u8> {
    s.as_bytes().to_vec()
}

fn cmd(node: &mut Node, parts: &[&[u8]]) -> Reply {
    let argv: Vec<Vec<u8>> = parts.iter().map(|p| p.to_vec()).collect();
    node.execute(&argv)
}

fn eval(node: &mut Node, name: &str, keys: &[&[u8]], args: &[&[u8]]) -> Reply {
    let src = script(name);
    let mut argv: Vec<Vec<u8>> = vec![b("EVAL"), src, b(&keys.len().to_string())];
    argv.extend(keys.iter().map(|k| k.to_vec()));
    argv.extend(args.iter().map(|k| k.to_vec()));
    node.execute(&argv)
}

fn promote(node: &mut Node, owner: &str, ttl: u64) -> Reply {
    eval(
        node,
        "promote_leader",
        &[LEASE, EPOCH],
        &[owner.as_bytes(), ttl.to_string().as_bytes()],
    )
}

fn write_block(
    node: &mut Node,
    epoch: u64,
    owner: &str,
    height: u32,
    data: &[u8],
    ttl: u64,
    maxlen: u32,
) -> Reply {
    eval(
        node,
        "write_block",
        &[STREAM, EPOCH, LEASE],
        &[
            epoch.to_string().as_bytes(),
            owner.as_bytes(),
            height.to_string().as_bytes(),
            data,
            ttl.to_string().as_bytes(),
            maxlen.to_string().as_bytes(),
        ],
    )
}

fn is_err_with(r: &Reply, needle: &str) -> bool {
    matches!(r, Reply::Error(e) if e.contains(needle))
}

#[test]
fn all_scripts_parse() {
    for s in [
        "check_lease_owner",
        "promote_leader",
        "read_latest_stream_entry",
        "read_stream_entries",
        "release_lock",
        "write_block",
    ] {
        lua::parse(&script(s)).unwrap_or_else(|e| panic!("{s}: {e}"));
    }
}

#[test]
fn number_formatting_matches_lua() {
    assert_eq!(lua::fmt_number(5.0), "5");
    assert_eq!(lua::fmt_number(-12.0), "-12");
    assert_eq!(lua::fmt_number(0.5), "0.5");
    assert_eq!(lua::fmt_number(1e15), "1e+15");
    assert_eq!(lua::fmt_number(123456789012345.0), "1.2345678901234e+14");
    assert_eq!(lua::fmt_number(12345678901234.0), "12345678901234");
    assert_eq!(lua::fmt_number(0.0001), "0.0001");
    assert_eq!(lua::fmt_number(0.00001), "1e-05");
    assert_eq!(lua::fmt_number(1.0 / 3.0), "0.33333333333333");
    assert_eq!(lua::str_to_number(b" 12 "), Some(12.0));
    assert_eq!(lua::str_to_number(b"0x10"), Some(16.0));
    assert_eq!(lua::str_to_number(b"1e2"), Some(100.0));
    assert_eq!(lua::str_to_number(b""), None);
    assert_eq!(lua::str_to_number(b"12a"), None);
    assert_eq!(lua::str_to_number(b"abc"), None);
}

#[test]
fn generic_lua_semantics() {
    let mut n = Node::new(100);
    let run = |n: &mut Node, src: &str| -> Reply {
        n.execute(&[b("EVAL"), b(src), b("0")])
    };
    assert_eq!(run(&mut n, "return 1 + 2 * 3"), Reply::Int(7));
    assert_eq!(run(&mut n, "return 7 % 3"), Reply::Int(1));
    assert_eq!(run(&mut n, "return -7 % 3"), Reply::Int(2));
    assert_eq!(run(&mut n, "return 2 ^ 10"), Reply::Int(1024));
    assert_eq!(run(&mut n, "return 3.99"), Reply::Int(3));
    assert_eq!(run(&mut n, "return 'a' .. 1 .. 'b'"), Reply::Bulk(b("a1b")));
    assert_eq!(run(&mut n, "return '10' + 5"), Reply::Int(15));
    assert_eq!(run(&mut n, "return nil"), Reply::Nil);
    assert_eq!(run(&mut n, "return false"), Reply::Nil);
    assert_eq!(run(&mut n, "return true"), Reply::Int(1));
    assert_eq!(run(&mut n, "return {1, 'x', {2}}"), Reply::Array(vec![
        Reply::Int(1),
        Reply::Bulk(b("x")),
        Reply::Array(vec![Reply::Int(2)]),
    ]));
    // array conversion stops at the first nil
    assert_eq!(run(&mut n, "return {1, nil, 3}"), Reply::Array(vec![Reply::Int(1)]));
    assert_eq!(run(&mut n, "return #{1,2,3} + #'ab'"), Reply::Int(5));
    assert_eq!(run(&mut n, "return 1 == '1'"), Reply::Nil);
    assert_eq!(run(&mut n, "return (nil or 'd')"), Reply::Bulk(b("d")));
    assert_eq!(run(&mut n, "return (false and 1) or 2"), Reply::Int(2));
    assert_eq!(run(&mut n, "return not nil"), Reply::Int(1));
    assert_eq!(
        run(&mut n, "local t = {} for i = 1, 10, 3 do table.insert(t, i) end return t"),
        Reply::Array(vec![Reply::Int(1), Reply::Int(4), Reply::Int(7), Reply::Int(10)])
    );
    assert_eq!(
        run(&mut n, "local s = 0 for i = 3, 1, -1 do s = s * 10 + i end return s"),
        Reply::Int(321)
    );
    assert_eq!(
        run(&mut n, "local s = 0 for _, v in ipairs({5, 6, nil, 7}) do s = s + v end return s"),
        Reply::Int(11)
    );
    assert_eq!(
        run(&mut n, "local i = 0 while true do i = i + 1 if i > 4 then break end end return i"),
        Reply::Int(5)
    );
    assert_eq!(
        run(&mut n, "local function f(a, b) return a + b, a * b end local x, y = f(2, 5) return {x, y}"),
        Reply::Array(vec![Reply::Int(7), Reply::Int(10)])
    );
    assert_eq!(
        run(&mut n, "local t = {a = 1, ['b'] = 2} t.c = t.a + t['b'] return t.c"),
        Reply::Int(3)
    );
    assert_eq!(run(&mut n, "return tostring(12) .. tostring(nil) .. tostring(1.5)"), Reply::Bulk(b("12nil1.5")));
    assert_eq!(run(&mut n, "return tonumber('x')"), Reply::Nil);
    assert_eq!(run(&mut n, "return {unpack({1, 2, 3})}"), Reply::Array(vec![Reply::Int(1), Reply::Int(2), Reply::Int(3)]));
    assert_eq!(run(&mut n, "return redis.status_reply('FINE')"), Reply::Status("FINE".into()));
    assert_eq!(run(&mut n, "return redis.error_reply('MY_ERR: x')"), Reply::Error("MY_ERR: x".into()));
    assert_eq!(run(&mut n, "return {err = 'E1'}"), Reply::Error("E1".into()));
    // runtime errors
    assert!(is_err_with(&run(&mut n, "return nil < 1"), "attempt to compare nil with number"));
    assert!(is_err_with(&run(&mut n, "return {} .. 'x'"), "attempt to concatenate a table value"));
    assert!(is_err_with(&run(&mut n, "return undefined_thing"), "nonexistent global variable"));
    assert!(is_err_with(&run(&mut n, "x = 1"), "global variable"));
    assert!(is_err_with(&run(&mut n, "local t = nil return t[1]"), "attempt to index a nil value"));
    assert!(is_err_with(&run(&mut n, "return redis.call('NOPE')"), "unknown command"));
    assert!(is_err_with(&run(&mut n, "return redis.call('GET')"), "wrong number of arguments"));
    // pcall returns the error as a table, call raises it
    assert_eq!(
        run(&mut n, "local r = redis.pcall('GET') if r.err then return 'caught' end return 'no'"),
        Reply::Bulk(b("caught"))
    );
    // syntax error
    assert!(is_err_with(&run(&mut n, "return +"), "Error compiling script"));
    // redis.call conversions
    assert_eq!(run(&mut n, "return redis.call('SET', 'k', 'v')"), Reply::Status("OK".into()));
    assert_eq!(run(&mut n, "return redis.call('SET', 'k', 'v').ok"), Reply::Bulk(b("OK")));
    assert_eq!(run(&mut n, "return redis.call('GET', 'k')"), Reply::Bulk(b("v")));
    assert_eq!(run(&mut n, "return redis.call('GET', 'missing') == false"), Reply::Int(1));
    assert_eq!(run(&mut n, "return type(redis.call('INCR', 'n'))"), Reply::Bulk(b("number")));
    assert_eq!(run(&mut n, "return redis.call('SET', 'k', 'w', 'NX') == false"), Reply::Int(1));
    assert_eq!(run(&mut n, "return #redis.call('TIME')"), Reply::Int(2));
    assert_eq!(run(&mut n, "return redis.call('INCRBY', 'n', 41)"), Reply::Int(42));
    // comments and long strings
    assert_eq!(run(&mut n, "-- c\n--[[ long\ncomment ]] return [[a\nb]]"), Reply::Bulk(b("a\nb")));
    // binary safety
    let mut argv = vec![b("EVAL"), b("return ARGV[1] .. ARGV[1]"), b("0")];
    argv.push(vec![0u8, 255, 13, 10, 0]);
    assert_eq!(n.execute(&argv), Reply::Bulk(vec![0u8, 255, 13, 10, 0, 0, 255, 13, 10, 0]));
}

#[test]
fn string_commands_and_expiry() {
    let mut n = Node::new(100);
    n.now_ms = 1_000;
    assert_eq!(cmd(&mut n, &[b"SET", b"k", b"v", b"PX", b"500", b"NX"]), Reply::Status("OK".into()));
    assert_eq!(cmd(&mut n, &[b"SET", b"k", b"w", b"PX", b"500", b"NX"]), Reply::Nil);
    assert_eq!(cmd(&mut n, &[b"PTTL", b"k"]), Reply::Int(500));
    n.now_ms = 1_500;
    assert_eq!(cmd(&mut n, &[b"GET", b"k"]), Reply::Bulk(b("v"))); // expires when now > at
    n.now_ms = 1_501;
    assert_eq!(cmd(&mut n, &[b"GET", b"k"]), Reply::Nil);
    assert_eq!(cmd(&mut n, &[b"PEXPIRE", b"k", b"100"]), Reply::Int(0));
    assert_eq!(cmd(&mut n, &[b"SET", b"k", b"w", b"PX", b"500", b"NX"]), Reply::Status("OK".into()));
    assert_eq!(cmd(&mut n, &[b"PEXPIRE", b"k", b"2000"]), Reply::Int(1));
    n.now_ms = 3_000;
    assert_eq!(cmd(&mut n, &[b"GET", b"k"]), Reply::Bulk(b("w")));
    assert_eq!(cmd(&mut n, &[b"DEL", b"k", b"zz"]), Reply::Int(1));
    assert_eq!(cmd(&mut n, &[b"INCR", b"e"]), Reply::Int(1));
    assert_eq!(cmd(&mut n, &[b"INCR", b"e"]), Reply::Int(2));
    assert_eq!(cmd(&mut n, &[b"SET", b"e", b"abc"]), Reply::Status("OK".into()));
    assert!(is_err_with(&cmd(&mut n, &[b"INCR", b"e"]), "not an integer"));
    assert_eq!(
        cmd(&mut n, &[b"TIME"]),
        Reply::Array(vec![Reply::Bulk(b("3")), Reply::Bulk(b("0"))])
    );
    assert!(is_err_with(&cmd(&mut n, &[b"HELLO", b"3"]), "unknown command"));
}

#[test]
fn stream_commands() {
    let mut n = Node::new(2);
    n.now_ms = 10;
    let id = |r: Reply| match r {
        Reply::Bulk(b) => String::from_utf8(b).unwrap(),
        o => panic!("{o:?}"),
    };
    assert_eq!(id(cmd(&mut n, &[b"XADD", b"s", b"*", b"h", b"1"])), "10-0");
    assert_eq!(id(cmd(&mut n, &[b"XADD", b"s", b"*", b"h", b"2"])), "10-1");
    n.now_ms = 5; // clock went backwards: ids stay monotonic
    assert_eq!(id(cmd(&mut n, &[b"XADD", b"s", b"*", b"h", b"3"])), "10-2");
    n.now_ms = 20;
    assert_eq!(id(cmd(&mut n, &[b"XADD", b"s", b"*", b"h", b"4"])), "20-0");
    assert_eq!(id(cmd(&mut n, &[b"XADD", b"s", b"*", b"h", b"5"])), "20-1");
    assert_eq!(cmd(&mut n, &[b"XLEN", b"s"]), Reply::Int(5));
    let first_heights = |r: Reply| -> Vec<String> {
        match r {
            Reply::Array(items) => items
                .into_iter()
                .map(|e| match e {
                    Reply::Array(mut p) => match p.remove(1) {
                        Reply::Array(f) => match &f[1] {
                            Reply::Bulk(b) => String::from_utf8(b.clone()).unwrap(),
                            _ => panic!(),
                        },
                        _ => panic!(),
                    },
                    _ => panic!(),
                })
                .collect(),
            o => panic!("{o:?}"),
        }
    };
    assert_eq!(first_heights(cmd(&mut n, &[b"XRANGE", b"s", b"-", b"+"])), ["1", "2", "3", "4", "5"]);
    assert_eq!(first_heights(cmd(&mut n, &[b"XREVRANGE", b"s", b"+", b"-", b"COUNT", b"2"])), ["5", "4"]);
    assert_eq!(first_heights(cmd(&mut n, &[b"XRANGE", b"s", b"10-1", b"20"])), ["2", "3", "4", "5"]);
    assert_eq!(first_heights(cmd(&mut n, &[b"XRANGE", b"s", b"(10-1", b"20-0"])), ["3", "4"]);
    // approximate trim with node size 2: nodes [1,2] [3,4] [5]; MAXLEN ~ 2 can drop one node
    // (5-2 >= 2) and then must stop (3-2 < 2)
    assert_eq!(cmd(&mut n, &[b"XTRIM", b"s", b"MAXLEN", b"~", b"2"]), Reply::Int(2));
    assert_eq!(first_heights(cmd(&mut n, &[b"XRANGE", b"s", b"-", b"+"])), ["3", "4", "5"]);
    // exact trim
    assert_eq!(cmd(&mut n, &[b"XTRIM", b"s", b"MAXLEN", b"2"]), Reply::Int(1));
    assert_eq!(first_heights(cmd(&mut n, &[b"XRANGE", b"s", b"-", b"+"])), ["4", "5"]);
    // with the Redis default node size nothing is trimmed for small streams
    let mut m = Node::new(100);
    for i in 0..10 {
        m.now_ms = i;
        cmd(&mut m, &[b"XADD", b"s", b"*", b"h", b"1"]);
    }
    assert_eq!(cmd(&mut m, &[b"XTRIM", b"s", b"MAXLEN", b"~", b"3"]), Reply::Int(0));
    // last id survives a full trim
    assert_eq!(cmd(&mut m, &[b"XTRIM", b"s", b"MAXLEN", b"0"]), Reply::Int(10));
    m.now_ms = 2;
    assert_eq!(id(cmd(&mut m, &[b"XADD", b"s", b"*", b"h", b"1"])), "9-1");
    assert!(is_err_with(&cmd(&mut m, &[b"GET", b"s"]), "WRONGTYPE"));
}

#[test]
fn evalsha_and_script_cache() {
    let mut n = Node::new(100);
    let src = script("check_lease_owner");
    let sha = sha1_hex(&src);
    let r = n.execute(&[b("EVALSHA"), b(&sha), b("1"), LEASE.to_vec(), b("me")]);
    assert!(is_err_with(&r, "NOSCRIPT"));
    assert_eq!(n.execute(&[b("SCRIPT"), b("LOAD"), src.clone()]), Reply::Bulk(b(&sha)));
    assert_eq!(
        n.execute(&[b("EVALSHA"), b(&sha), b("1"), LEASE.to_vec(), b("me")]),
        Reply::Int(0)
    );
    n.restart_keep_data();
    assert!(is_err_with(
        &n.execute(&[b("EVALSHA"), b(&sha), b("1"), LEASE.to_vec(), b("me")]),
        "NOSCRIPT"
    ));
}

#[test]
fn promote_check_release() {
    let mut n = Node::new(100);
    n.now_ms = 100;
    assert_eq!(promote(&mut n, "A", 1000), Reply::Int(1));
    assert!(is_err_with(&promote(&mut n, "B", 1000), "LOCK_HELD:"));
    assert!(is_err_with(&promote(&mut n, "A", 1000), "LOCK_HELD:")); // not re-entrant
    assert_eq!(n.peek_string(EPOCH), Some(&b"1"[..]));
    assert_eq!(eval(&mut n, "check_lease_owner", &[LEASE], &[b"A"]), Reply::Int(1));
    assert_eq!(eval(&mut n, "check_lease_owner", &[LEASE], &[b"B"]), Reply::Int(0));
    assert_eq!(eval(&mut n, "release_lock", &[LEASE], &[b"B"]), Reply::Int(0));
    assert_eq!(eval(&mut n, "release_lock", &[LEASE], &[b"A"]), Reply::Int(1));
    assert_eq!(eval(&mut n, "check_lease_owner", &[LEASE], &[b"A"]), Reply::Int(0));
    assert_eq!(promote(&mut n, "B", 1000), Reply::Int(2));
    n.now_ms = 1101;
    assert_eq!(eval(&mut n, "check_lease_owner", &[LEASE], &[b"B"]), Reply::Int(0));
    assert_eq!(promote(&mut n, "A", 1000), Reply::Int(3));
}

#[test]
fn write_block_checks() {
    let mut n = Node::new(100);
    n.now_ms = 5_000;
    // no lease at all
    assert!(is_err_with(&write_block(&mut n, 1, "A", 1, b"x", 1000, 100), "FENCING_ERROR: Lock lost"));
    assert_eq!(promote(&mut n, "A", 1000), Reply::Int(1));
    // wrong owner
    assert!(is_err_with(&write_block(&mut n, 1, "B", 1, b"x", 1000, 100), "FENCING_ERROR: Lock lost"));
    // stale epoch
    assert!(is_err_with(&write_block(&mut n, 0, "A", 1, b"x", 1000, 100), "FENCING_ERROR: Token is stale"));
    // good write: returns the stream id, renews the lease
    n.now_ms = 5_900;
    assert_eq!(write_block(&mut n, 1, "A", 1, b"blk1", 1000, 100), Reply::Bulk(b("5900-0")));
    assert_eq!(n.peek_pttl(LEASE), Some(1000));
    // same height again
    assert!(is_err_with(&write_block(&mut n, 1, "A", 1, b"other", 1000, 100), "HEIGHT_EXISTS: Block at height 1 already in stream"));
    // higher epoch heals the node's epoch
    assert_eq!(write_block(&mut n, 7, "A", 2, &[0, 1, 2, 255], 1000, 100), Reply::Bulk(b("5900-1")));
    assert_eq!(n.peek_string(EPOCH), Some(&b"7"[..]));
    assert!(is_err_with(&write_block(&mut n, 6, "A", 3, b"z", 1000, 100), "Token is stale"));
    // entry fields as written by the script
    let st = n.peek_stream(STREAM).unwrap();
    assert_eq!(st.entries.len(), 2);
    let e = &st.entries[1];
    let names: Vec<&[u8]> = e.fields.iter().map(|f| f.0.as_slice()).collect();
    assert_eq!(names, [&b"height"[..], b"data", b"epoch", b"timestamp"]);
    assert_eq!(e.fields[0].1, b"2");
    assert_eq!(e.fields[1].1, [0, 1, 2, 255]);
    assert_eq!(e.fields[2].1, b"7");
    assert_eq!(e.fields[3].1, b"5"); // TIME seconds
    // lease expiry
    n.now_ms = 7_000;
    assert!(is_err_with(&write_block(&mut n, 7, "A", 3, b"z", 1000, 100), "Lock lost"));
}

#[test]
fn read_scripts() {
    let mut n = Node::new(100);
    n.now_ms = 1;
    assert_eq!(eval(&mut n, "read_latest_stream_entry", &[STREAM], &[]), Reply::Array(vec![]));
    assert_eq!(eval(&mut n, "read_stream_entries", &[STREAM], &[b"1", b"10"]), Reply::Array(vec![]));
    promote(&mut n, "A", 100_000);
    for h in 1..=5u32 {
        n.now_ms = h as u64 * 10;
        let r = write_block(&mut n, 1, "A", h, format!("d{h}").as_bytes(), 100_000, 100);
        assert!(matches!(r, Reply::Bulk(_)), "{r:?}");
    }
    assert_eq!(
        eval(&mut n, "read_latest_stream_entry", &[STREAM], &[]),
        Reply::Array(vec![Reply::Bulk(b("5")), Reply::Bulk(b("50-0"))])
    );
    let r = eval(&mut n, "read_stream_entries", &[STREAM], &[b"3", b"2"]);
    assert_eq!(
        r,
        Reply::Array(vec![
            Reply::Array(vec![Reply::Int(3), Reply::Int(1), Reply::Bulk(b("d3")), Reply::Bulk(b("30-0"))]),
            Reply::Array(vec![Reply::Int(4), Reply::Int(1), Reply::Bulk(b("d4")), Reply::Bulk(b("40-0"))]),
        ])
    );
    assert_eq!(eval(&mut n, "read_stream_entries", &[STREAM], &[b"x", b"2"]), Reply::Array(vec![]));
    assert_eq!(eval(&mut n, "read_stream_entries", &[STREAM], &[b"1", b"0"]), Reply::Array(vec![]));
    // an entry without epoch reads as epoch 0
    cmd(&mut n, &[b"XADD", STREAM, b"*", b"height", b"9", b"data", b"raw"]);
    let r = eval(&mut n, "read_stream_entries", &[STREAM], &[b"9", b"5"]);
    assert_eq!(
        r,
        Reply::Array(vec![Reply::Array(vec![
            Reply::Int(9),
            Reply::Int(0),
            Reply::Bulk(b("raw")),
            Reply::Bulk(b("50-1"))
        ])])
    );
}

/// Documents a property of the shipped write_block.lua that the HA world relies on being
/// reachable: the HEIGHT_EXISTS scan walks the stream newest-first and stops at the first entry
/// whose height is below the posted one, so it is only exact for height-ordered streams. A
/// repair that inserts a lower height after a higher one hides the higher entry.
#[test]
fn write_block_height_scan_assumes_height_ordered_stream() {
    let mut n = Node::new(100);
    n.now_ms = 1_000;
    assert_eq!(promote(&mut n, "L1", 1000), Reply::Int(1));
    assert!(matches!(write_block(&mut n, 1, "L1", 2, b"X", 1000, 100), Reply::Bulk(_)));
    assert_eq!(eval(&mut n, "release_lock", &[LEASE], &[b"L1"]), Reply::Int(1));
    assert_eq!(promote(&mut n, "L2", 1000), Reply::Int(2));
    // height 1 arrives after height 2 (sub-quorum repair of an older height)
    assert!(matches!(write_block(&mut n, 2, "L2", 1, b"H1", 1000, 100), Reply::Bulk(_)));
    // the scan meets height 1 first, stops, and never sees the existing entry at height 2
    let r = write_block(&mut n, 2, "L2", 2, b"Y", 1000, 100);
    assert!(matches!(r, Reply::Bulk(_)), "{r:?}");
    let st = n.peek_stream(STREAM).unwrap();
    let heights: Vec<&[u8]> = st.entries.iter().map(|e| e.fields[0].1.as_slice()).collect();
    assert_eq!(heights, [&b"2"[..], b"1", b"2"]);
}
