//! RESP2 wire format (server side): command decoding, reply encoding, and SHA-1 for the
//! script cache (`SCRIPT LOAD` / `EVALSHA`).

use crate::lua::Reply;

pub fn encode_reply(r: &Reply, out: &mut Vec<u8>) {
    match r {
        Reply::Status(s) => {
            out.push(b'+');
            out.extend_from_slice(s.as_bytes());
            out.extend_from_slice(b"\r\n");
        }
        Reply::Error(e) => {
            out.push(b'-');
            // a reply line cannot contain CR/LF
            for b in e.bytes() {
                out.push(if b == b'\r' || b == b'\n' { b' ' } else { b });
            }
            out.extend_from_slice(b"\r\n");
        }
        Reply::Int(i) => {
            out.push(b':');
            out.extend_from_slice(i.to_string().as_bytes());
            out.extend_from_slice(b"\r\n");
        }
        Reply::Bulk(b) => {
            out.push(b'$');
            out.extend_from_slice(b.len().to_string().as_bytes());
            out.extend_from_slice(b"\r\n");
            out.extend_from_slice(b);
            out.extend_from_slice(b"\r\n");
        }
        Reply::Nil => out.extend_from_slice(b"$-1\r\n"),
        Reply::Array(items) => {
            out.push(b'*');
            out.extend_from_slice(items.len().to_string().as_bytes());
            out.extend_from_slice(b"\r\n");
            for it in items {
                encode_reply(it, out);
            }
        }
    }
}

fn read_line(buf: &[u8], pos: usize) -> Option<(&[u8], usize)> {
    let mut i = pos;
    while i + 1 < buf.len() {
        if buf[i] == b'\r' && buf[i + 1] == b'\n' {
            return Some((&buf[pos..i], i + 2));
        }
        i += 1;
    }
    None
}

fn parse_int(b: &[u8]) -> Result<i64, String> {
    std::str::from_utf8(b)
        .ok()
        .and_then(|s| s.parse::<i64>().ok())
        .ok_or_else(|| "Protocol error: invalid length".to_string())
}

/// Try to decode one client command (`*N` array of bulk strings) from the start of `buf`.
/// `Ok(None)`: more bytes needed. `Ok(Some((argv, consumed)))`.
pub fn decode_command(buf: &[u8]) -> Result<Option<(Vec<Vec<u8>>, usize)>, String> {
    if buf.is_empty() {
        return Ok(None);
    }
    if buf[0] != b'*' {
        // inline command
        let Some((line, next)) = read_line(buf, 0) else {
            return Ok(None);
        };
        let argv: Vec<Vec<u8>> = line
            .split(|b| *b == b' ')
            .filter(|w| !w.is_empty())
            .map(|w| w.to_vec())
            .collect();
        return Ok(Some((argv, next)));
    }
    let Some((line, mut pos)) = read_line(buf, 1) else {
        return Ok(None);
    };
    let n = parse_int(line)?;
    if n < 0 || n > 1_000_000 {
        return Err("Protocol error: invalid multibulk length".into());
    }
    let mut argv = Vec::with_capacity(n as usize);
    for _ in 0..n {
        if pos >= buf.len() {
            return Ok(None);
        }
        if buf[pos] != b'$' {
            return Err(format!(
                "Protocol error: expected '$', got '{}'",
                buf[pos] as char
            ));
        }
        let Some((line, next)) = read_line(buf, pos + 1) else {
            return Ok(None);
        };
        let len = parse_int(line)?;
        if len < 0 || len > 512 * 1024 * 1024 {
            return Err("Protocol error: invalid bulk length".into());
        }
        let len = len as usize;
        if buf.len() < next + len + 2 {
            return Ok(None);
        }
        argv.push(buf[next..next + len].to_vec());
        pos = next + len + 2;
    }
    Ok(Some((argv, pos)))
}

/// Decode one reply (used by unit tests only).
#[cfg(test)]
pub fn decode_reply(buf: &[u8], pos: usize) -> Option<(Reply, usize)> {
    let (line, next) = read_line(buf, pos + 1)?;
    let text = String::from_utf8_lossy(line).into_owned();
    match buf[pos] {
        b'+' => Some((Reply::Status(text), next)),
        b'-' => Some((Reply::Error(text), next)),
        b':' => Some((Reply::Int(text.parse().ok()?), next)),
        b'$' => {
            let n: i64 = text.parse().ok()?;
            if n < 0 {
                return Some((Reply::Nil, next));
            }
            let n = n as usize;
            Some((Reply::Bulk(buf[next..next + n].to_vec()), next + n + 2))
        }
        b'*' => {
            let n: i64 = text.parse().ok()?;
            let mut items = Vec::new();
            let mut p = next;
            for _ in 0..n.max(0) {
                let (r, np) = decode_reply(buf, p)?;
                items.push(r);
                p = np;
            }
            Some((Reply::Array(items), p))
        }
        _ => None,
    }
}

pub fn sha1(data: &[u8]) -> [u8; 20] {
    let mut h: [u32; 5] = [0x67452301, 0xEFCDAB89, 0x98BADCFE, 0x10325476, 0xC3D2E1F0];
    let mut msg = data.to_vec();
    let ml = (data.len() as u64).wrapping_mul(8);
    msg.push(0x80);
    while msg.len() % 64 != 56 {
        msg.push(0);
    }
    msg.extend_from_slice(&ml.to_be_bytes());
    for chunk in msg.chunks(64) {
        let mut w = [0u32; 80];
        for i in 0..16 {
            w[i] = u32::from_be_bytes([
                chunk[i * 4],
                chunk[i * 4 + 1],
                chunk[i * 4 + 2],
                chunk[i * 4 + 3],
            ]);
        }
        for i in 16..80 {
            w[i] = (w[i - 3] ^ w[i - 8] ^ w[i - 14] ^ w[i - 16]).rotate_left(1);
        }
        let (mut a, mut b, mut c, mut d, mut e) = (h[0], h[1], h[2], h[3], h[4]);
        for (i, wi) in w.iter().enumerate() {
            let (f, k) = match i {
                0..=19 => ((b & c) | (!b & d), 0x5A827999),
                20..=39 => (b ^ c ^ d, 0x6ED9EBA1),
                40..=59 => ((b & c) | (b & d) | (c & d), 0x8F1BBCDC),
                _ => (b ^ c ^ d, 0xCA62C1D6u32),
            };
            let t = a
                .rotate_left(5)
                .wrapping_add(f)
                .wrapping_add(e)
                .wrapping_add(k)
                .wrapping_add(*wi);
            e = d;
            d = c;
            c = b.rotate_left(30);
            b = a;
            a = t;
        }
        h[0] = h[0].wrapping_add(a);
        h[1] = h[1].wrapping_add(b);
        h[2] = h[2].wrapping_add(c);
        h[3] = h[3].wrapping_add(d);
        h[4] = h[4].wrapping_add(e);
    }
    let mut out = [0u8; 20];
    for (i, v) in h.iter().enumerate() {
        out[i * 4..i * 4 + 4].copy_from_slice(&v.to_be_bytes());
    }
    out
}

pub fn sha1_hex(data: &[u8]) -> String {
    sha1(data).iter().map(|b| format!("{b:02x}")).collect()
}

#[cfg(test)]
mod tests {
    use super::*;

    #[test]
    fn sha1_vectors() {
        assert_eq!(sha1_hex(b""), "da39a3ee5e6b4b0d3255bfef95601890afd80709");
        assert_eq!(sha1_hex(b"abc"), "a9993e364706816aba3e25717850c26c9cd0d89d");
        // the vector of redis-rs' own script test
        assert_eq!(
            sha1_hex(b"return KEYS[1]"),
            "4a2267357833227dd98abdedb8cf24b15a986445"
        );
    }

    #[test]
    fn decode_partial_and_full() {
        let full = b"*2\r\n$3\r\nGET\r\n$1\r\nk\r\n*1\r\n$4\r\nPING\r\n";
        for cut in 0..20 {
            assert!(decode_command(&full[..cut]).unwrap().is_none(), "cut {cut}");
        }
        let (argv, used) = decode_command(full).unwrap().unwrap();
        assert_eq!(argv, vec![b"GET".to_vec(), b"k".to_vec()]);
        assert_eq!(used, 20);
        let (argv, _) = decode_command(&full[used..]).unwrap().unwrap();
        assert_eq!(argv, vec![b"PING".to_vec()]);
    }

    #[test]
    fn encode_roundtrip() {
        let r = Reply::Array(vec![
            Reply::Int(5),
            Reply::Bulk(b"a\r\nb".to_vec()),
            Reply::Nil,
            Reply::Array(vec![Reply::Status("OK".into())]),
        ]);
        let mut out = Vec::new();
        encode_reply(&r, &mut out);
        let (back, used) = decode_reply(&out, 0).unwrap();
        assert_eq!(back, r);
        assert_eq!(used, out.len());
    }
}
