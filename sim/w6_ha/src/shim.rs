//! Process-level seams that need no change in /repo: the executable defines the C symbols
//! `getrandom` and `clock_gettime`, which take precedence over libc's.
//!
//! * `getrandom`: std's `RandomState` (HashMap iteration order), `uuid::new_v4` and
//!   `rand::thread_rng` seed themselves from it. Each simulation thread gets a deterministic
//!   stream chosen by the simulator (so hash order is a function of the tape), every other
//!   thread a fixed stream.
//! * `clock_gettime(CLOCK_MONOTONIC)`: on replica threads (flagged thread-locally)
//!   `std::time::Instant` follows the simulated clock, so that the adapter's lease-validity
//!   arithmetic (`std::time::Instant::elapsed`) sees simulated time. All other threads and
//!   clock ids go to the raw syscall.

use std::{
    cell::Cell,
    sync::atomic::{
        AtomicU64,
        Ordering,
    },
};

thread_local! {
    static RNG_STREAM: Cell<u64> = const { Cell::new(0x5eed_0000_0000_0001) };
    static RNG_CTR: Cell<u64> = const { Cell::new(0) };
    static SIM_MONO: Cell<bool> = const { Cell::new(false) };
}

/// Simulated milliseconds since the start of the run (published by the simulator).
pub static SIM_NOW_MS: AtomicU64 = AtomicU64::new(0);

/// Arbitrary origin of the simulated monotonic clock (seconds).
const MONO_BASE_S: i64 = 1_000_000;

pub fn set_thread_rng_stream(stream: u64) {
    RNG_STREAM.with(|s| s.set(stream));
    RNG_CTR.with(|c| c.set(0));
}

pub fn set_thread_sim_monotonic(on: bool) {
    SIM_MONO.with(|s| s.set(on));
}

fn splitmix(mut z: u64) -> u64 {
    z = z.wrapping_add(0x9E3779B97F4A7C15);
    z = (z ^ (z >> 30)).wrapping_mul(0xBF58476D1CE4E5B9);
    z = (z ^ (z >> 27)).wrapping_mul(0x94D049BB133111EB);
    z ^ (z >> 31)
}

#[unsafe(no_mangle)]
pub unsafe extern "C" fn getrandom(
    buf: *mut libc::c_void,
    len: libc::size_t,
    _flags: libc::c_uint,
) -> libc::ssize_t {
    let stream = RNG_STREAM.with(|s| s.get());
    let mut i = 0usize;
    while i < len {
        let ctr = RNG_CTR.with(|c| {
            let v = c.get();
            c.set(v.wrapping_add(1));
            v
        });
        let word = splitmix(stream ^ splitmix(ctr)).to_le_bytes();
        let n = (len - i).min(8);
        unsafe {
            std::ptr::copy_nonoverlapping(word.as_ptr(), (buf as *mut u8).add(i), n);
        }
        i += n;
    }
    len as libc::ssize_t
}

#[unsafe(no_mangle)]
pub unsafe extern "C" fn clock_gettime(
    clk: libc::clockid_t,
    ts: *mut libc::timespec,
) -> libc::c_int {
    if clk == libc::CLOCK_MONOTONIC && !ts.is_null() && SIM_MONO.with(|s| s.get()) {
        let ms = SIM_NOW_MS.load(Ordering::SeqCst);
        unsafe {
            (*ts).tv_sec = MONO_BASE_S + (ms / 1000) as i64;
            (*ts).tv_nsec = ((ms % 1000) * 1_000_000) as libc::c_long;
        }
        return 0;
    }
    unsafe { libc::syscall(libc::SYS_clock_gettime, clk, ts) as libc::c_int }
}
