//! Simulator core of the HA world: shared run state, the scheduler-side control of every
//! thread that real code creates or blocks (replica fibers, writer threads of
//! `publish_block_on_all_nodes`), the two transports to the simulated Redis nodes
//! (in-memory duplex for the async client, Unix sockets served by acceptor threads for the
//! blocking client), and the Redis-side oracles.
//!
//! Scheduling discipline: at any moment exactly one thread "holds the run" — the simulator
//! thread (which also runs the tokio runtime), one replica fiber, or one writer thread with the
//! acceptor thread that serves it. Hand-overs are explicit (condvar + sequence numbers), so the
//! order of all state changes, tape draws and log lines is a function of the tape.

use crate::{
    lua::Reply,
    redis_model::Node,
    resp,
    shim,
};
use fuel_core::service::adapters::consensus_module::poa::verif_hooks::{
    self,
    ConnectFuture,
    RedisSim,
    SimStream,
};
use fuel_core_types::blockchain::SealedBlock;
use simkit::Tape;
use std::{
    any::Any,
    collections::{
        BTreeMap,
        BTreeSet,
    },
    future::Future,
    io::{
        Read,
        Write,
    },
    os::unix::net::{
        UnixListener,
        UnixStream,
    },
    path::PathBuf,
    pin::Pin,
    sync::{
        Arc,
        Condvar,
        Mutex,
        MutexGuard,
        OnceLock,
    },
    task::{
        Context,
        Poll,
        Waker,
    },
    time::Duration,
};
use tokio::io::{
    AsyncReadExt,
    AsyncWriteExt,
};

pub const MAX_NODES: usize = 5;
pub const PROP: &str = "C25";

// ------------------------------------------------------------------------------------------
// Configuration of one run (drawn from the first tape entries)
// ------------------------------------------------------------------------------------------

#[derive(Clone, Debug)]
pub struct Cfg {
    pub n_nodes: usize,
    pub n_replicas: usize,
    pub budget: u32,
    pub quorum: usize,
    pub lease_ttl_ms: u64,
    pub node_timeout_ms: u64,
    pub retry_delay_ms: u64,
    pub max_attempts: u32,
    pub stream_max_len: u32,
    /// per-request fault probability of the async transport (per mille)
    pub async_fault_pm: u64,
    /// per-delivery fault probability of the blocking write path (per mille)
    pub sync_fault_pm: u64,
    /// upper bound of the ordinary per-request latency (ms), before and after execution
    pub max_latency_ms: u64,
    /// nodes that may lose their data in this run (|set| <= budget unless over-budget mode)
    pub lossy_nodes: BTreeSet<usize>,
    pub over_budget: bool,
    pub hash_salt: u64,
    /// bit mask of the scheduler-level fault kinds enabled in this run (swarm testing)
    pub kinds: u64,
    /// this run follows a directed schedule skeleton instead of the random scheduler
    pub skeleton: bool,
}

#[derive(Clone, Copy, PartialEq, Eq, Debug)]
pub enum Fate {
    /// request executes, reply delivered
    Deliver,
    /// request never reaches the node
    Lost,
    /// request executes, reply is lost
    ReplyLost,
    /// the client gives up now, the request executes later (or never)
    Delayed,
}

#[derive(Clone, Copy, PartialEq, Eq, Debug)]
pub enum Phase {
    Idle,
    Running,
    SyncBlocked,
    Done,
}

pub struct FiberSt {
    pub phase: Phase,
    pub seq: u64,
    pub waker: Option<Waker>,
    pub kill: bool,
    pub panic: Option<Box<dyn Any + Send>>,
    /// index of the blocking multi-node publish the fiber is (or was last) in
    pub call: i64,
    pub replica: usize,
    /// the fiber thread waits here (the simulator thread waits on `Shared::cv`)
    pub cv: Arc<Condvar>,
}

#[derive(Clone, Copy, PartialEq, Eq, Debug)]
pub enum WState {
    Parked,
    Granted,
    Done,
}

pub struct Writer {
    pub id: usize,
    pub owner: String,
    pub node: usize,
    pub height: u32,
    pub epoch: u64,
    pub call: i64,
    pub state: WState,
    pub fate: Fate,
    /// spawned after its incarnation crashed: can never reach a node
    pub post_crash: bool,
    /// the parked writer thread waits here
    pub cv: Arc<Condvar>,
}

pub struct NodeSt {
    pub model: Node,
    pub offset_ms: u64,
    pub rate_pm: u64,
    pub jump_ms: u64,
    /// incremented by a restart: connections of older generations are dead
    pub generation: u64,
    pub epoch_floor: u64,
    pub data_losses: u64,
}

pub struct OwnerInfo {
    pub replica: usize,
    pub inc: u32,
    pub crashed: bool,
}

pub struct PendingCmd {
    pub node: usize,
    pub origin: String,
    pub argv: Vec<Vec<u8>>,
    pub generation: u64,
}

pub enum LogItem {
    Ev(String),
    Op(String),
    Fault(&'static str),
    Probe(&'static str),
    Check { class: &'static str, ok: bool, detail: String },
}

#[derive(Default)]
pub struct Db {
    /// blocks[i] is the block at height i+1
    pub blocks: Vec<(String, SealedBlock)>,
    /// an import (height check .. commit) by this incarnation is in progress: other imports
    /// of the same replica must wait (the importer's single permit)
    pub import_lock: Option<String>,
}

impl Db {
    pub fn height(&self) -> u32 {
        self.blocks.len() as u32
    }
}

pub struct Keys {
    pub lease: Vec<u8>,
    pub epoch: Vec<u8>,
    pub stream: Vec<u8>,
}

pub struct Inner {
    pub cfg: Cfg,
    pub tape: Tape,
    pub log: Vec<LogItem>,
    pub now_ms: u64,
    pub nodes: Vec<NodeSt>,
    pub keys: Keys,
    pub partitions: BTreeSet<(usize, usize)>,
    pub owners: BTreeMap<String, OwnerInfo>,
    pub fibers: BTreeMap<String, FiberSt>,
    pub writers: Vec<Writer>,
    pub sync_current: [Option<usize>; MAX_NODES],
    pub pending: Vec<PendingCmd>,
    pub dbs: Vec<Db>,
    pub committed: BTreeMap<u32, (String, usize)>,
    pub id_cache: BTreeMap<(u64, usize), String>,
    pub script_names: BTreeMap<String, &'static str>,
    pub produced: u64,
    pub faults_enabled: bool,
    pub failed: bool,
    pub async_conns: u64,
    /// block id -> label of the incarnation that produced it
    pub producer_of: BTreeMap<String, String>,
    /// per node: (height, block id) pairs seen in its stream after the previous command
    pub stream_view: Vec<BTreeSet<(u32, String)>>,
    /// XTRIM has evicted a height that some replica had not committed yet (the stream window
    /// is shorter than the lag of a replica)
    pub trim_outran_replica: bool,
    /// some node stream has received a lower height after a higher one (a sub-quorum repair of
    /// an older height): from then on the stream is not height-ordered
    pub unordered_append: bool,
    /// incarnations that are executing a command of the scheduler
    pub busy: BTreeSet<String>,
}

pub struct Shared {
    pub m: Mutex<Inner>,
    /// only the simulator thread waits on this one; every other thread has its own condvar,
    /// so a hand-over wakes exactly one thread
    pub cv: Condvar,
}

impl Shared {
    pub fn lock(&self) -> MutexGuard<'_, Inner> {
        self.m.lock().unwrap_or_else(|e| e.into_inner())
    }
    pub fn wait<'a>(&self, g: MutexGuard<'a, Inner>) -> MutexGuard<'a, Inner> {
        self.cv.wait(g).unwrap_or_else(|e| e.into_inner())
    }
}

impl Inner {
    pub fn ev(&mut self, s: impl Into<String>) {
        self.log.push(LogItem::Ev(s.into()));
    }
    pub fn op(&mut self, s: impl Into<String>) {
        self.log.push(LogItem::Op(s.into()));
    }
    pub fn fault(&mut self, k: &'static str) {
        self.log.push(LogItem::Fault(k));
    }
    pub fn probe(&mut self, k: &'static str) {
        self.log.push(LogItem::Probe(k));
    }
    pub fn check(&mut self, class: &'static str, ok: bool, detail: impl FnOnce() -> String) {
        let detail = if ok { String::new() } else { detail() };
        if !ok {
            self.failed = true;
        }
        self.log.push(LogItem::Check { class, ok, detail });
    }

    pub fn node_clock(&self, k: usize) -> u64 {
        let n = &self.nodes[k];
        n.offset_ms + self.now_ms * n.rate_pm / 1000 + n.jump_ms
    }

    pub fn owner_label(&self, owner: &str) -> String {
        match self.owners.get(owner) {
            Some(o) => format!("r{}.{}", o.replica, o.inc),
            None => format!("?{owner}"),
        }
    }

    pub fn is_cut(&self, owner: &str, node: usize) -> bool {
        match self.owners.get(owner) {
            Some(o) => o.crashed || self.partitions.contains(&(o.replica, node)),
            None => true,
        }
    }

    /// Short id of the block serialized in `data` (postcard `SealedBlock`), cached.
    pub fn block_id_of(&mut self, data: &[u8]) -> String {
        let key = (simkit::fnv64(data), data.len());
        if let Some(s) = self.id_cache.get(&key) {
            return s.clone();
        }
        let s = match postcard::from_bytes::<SealedBlock>(data) {
            Ok(b) => short_id(&b),
            Err(_) => format!("undecodable:{:08x}", key.0 as u32),
        };
        self.id_cache.insert(key, s.clone());
        s
    }

    fn summarize(&mut self, argv: &[Vec<u8>]) -> String {
        let cmd = String::from_utf8_lossy(&argv[0]).to_ascii_uppercase();
        let txt = |b: &Vec<u8>| String::from_utf8_lossy(b).into_owned();
        match cmd.as_str() {
            "EVALSHA" | "EVAL" => {
                let name = if cmd == "EVALSHA" {
                    self.script_names
                        .get(&txt(&argv[1]).to_ascii_lowercase())
                        .copied()
                        .unwrap_or("unknown_script")
                } else {
                    "eval"
                };
                let nk: usize = argv.get(2).map(txt).and_then(|s| s.parse().ok()).unwrap_or(0);
                let args: Vec<Vec<u8>> = argv.iter().skip(3 + nk).cloned().collect();
                let mut out = format!("{name}(");
                for (i, a) in args.iter().enumerate() {
                    if i > 0 {
                        out.push(',');
                    }
                    if name == "write_block" && i == 3 {
                        out.push_str(&self.block_id_of(a));
                    } else if let Some(o) = self.owners.get(&txt(a)) {
                        out.push_str(&format!("r{}.{}", o.replica, o.inc));
                    } else if a.len() > 24 {
                        out.push_str(&format!("<{}B>", a.len()));
                    } else {
                        out.push_str(&txt(a));
                    }
                }
                out.push(')');
                out
            }
            "SCRIPT" => format!("SCRIPT {} <{}B>", argv.get(1).map(txt).unwrap_or_default(), argv.get(2).map(|a| a.len()).unwrap_or(0)),
            _ => argv.iter().take(4).map(txt).collect::<Vec<_>>().join(" "),
        }
    }

    fn summarize_reply(&mut self, r: &Reply, depth: u32) -> String {
        match r {
            Reply::Status(s) => format!("+{s}"),
            Reply::Error(e) => format!("-{}", e.split(' ').next().unwrap_or("")),
            Reply::Int(i) => format!(":{i}"),
            Reply::Nil => "nil".into(),
            Reply::Bulk(b) => {
                if b.len() == 40 && b.iter().all(|c| c.is_ascii_hexdigit()) {
                    format!("sha:{}", String::from_utf8_lossy(&b[..8]))
                } else if b.len() > 24 {
                    self.block_id_of(b)
                } else {
                    String::from_utf8_lossy(b).into_owned()
                }
            }
            Reply::Array(items) => {
                if depth > 2 {
                    return format!("[{}]", items.len());
                }
                let parts: Vec<String> =
                    items.iter().map(|x| self.summarize_reply(x, depth + 1)).collect();
                format!("[{}]", parts.join(","))
            }
        }
    }

    /// Execute one command on node `k` at the node's current clock; log it; evaluate the
    /// Redis-side oracle clauses.
    pub fn exec_on_node(&mut self, k: usize, argv: &[Vec<u8>], origin: &str) -> Reply {
        let clock = self.node_clock(k);
        self.nodes[k].model.now_ms = clock;
        let what = self.summarize(argv);
        let reply = self.nodes[k].model.execute(argv);
        self.post_exec_hooks(k, argv, &reply, origin);
        let res = self.summarize_reply(&reply, 0);
        self.ev(format!("n{k}@{clock} {origin}: {what} => {res}"));
        if let Reply::Error(e) = &reply {
            if e.starts_with("FENCING_ERROR: Lock lost") {
                self.probe("write_rejected_lock_lost");
            } else if e.starts_with("FENCING_ERROR: Token is stale") {
                self.probe("write_rejected_stale_epoch");
            } else if e.starts_with("HEIGHT_EXISTS:") {
                self.probe("write_rejected_height_exists");
            } else if e.starts_with("LOCK_HELD:") {
                self.probe("promote_lock_held");
            } else if e.starts_with("ERR") {
                // a script/runtime error of the interpreter or the command model: never
                // expected with the shipped scripts
                self.probe("redis_err_reply");
            }
        }
        self.check_redis_oracles(k);
        reply
    }

    fn post_exec_hooks(&mut self, k: usize, argv: &[Vec<u8>], reply: &Reply, origin: &str) {
        let cmd = String::from_utf8_lossy(&argv[0]).to_ascii_uppercase();
        if cmd == "SCRIPT" && argv.len() == 3 {
            // sensitivity experiments only: W6_SCRIPT_OVERRIDE=<dir> replaces the body of a
            // script by <dir>/<name>.lua (same file names as the real scripts)
            if let (Some(dir), Reply::Bulk(sha)) = (script_override_dir(), reply) {
                let sha = String::from_utf8_lossy(sha).into_owned();
                if let Some(name) = self.script_names.get(&sha).copied() {
                    if let Ok(body) = std::fs::read(format!("{dir}/{name}.lua")) {
                        self.nodes[k].model.set_script(&sha, body);
                    }
                }
            }
            return;
        }
        if cmd != "EVALSHA" {
            return;
        }
        let sha = String::from_utf8_lossy(&argv[1]).to_ascii_lowercase();
        match self.script_names.get(&sha).copied() {
            Some("promote_leader") => {
                if matches!(reply, Reply::Int(_)) {
                    self.probe("lease_acquired_on_node");
                }
            }
            Some("write_block") => {
                if let (Some(data), Reply::Bulk(_)) = (argv.get(9), reply) {
                    let id = self.block_id_of(data);
                    let by_producer = self
                        .producer_of
                        .get(&id)
                        .map(|p| origin.split('#').next() == Some(p.as_str()))
                        .unwrap_or(true);
                    if !by_producer {
                        self.probe("repair_write_accepted");
                    }
                    self.probe("block_written_to_node");
                }
            }
            _ => {}
        }
    }

    /// (c) epoch never decreases on node k; (b) at most one block id per height on >= quorum
    /// node streams.
    pub fn check_redis_oracles(&mut self, k: usize) {
        let epoch_key = self.keys.epoch.clone();
        let cur = self.nodes[k]
            .model
            .peek_string(&epoch_key)
            .and_then(|v| std::str::from_utf8(v).ok()?.parse::<u64>().ok())
            .unwrap_or(0);
        let floor = self.nodes[k].epoch_floor;
        self.check("epoch_decreased", cur >= floor, || {
            format!("node n{k}: fencing epoch went from {floor} to {cur} without data loss")
        });
        if cur > floor {
            self.nodes[k].epoch_floor = cur;
        }

        // (b)
        let stream_key = self.keys.stream.clone();
        let mut present: BTreeMap<u32, BTreeMap<String, BTreeSet<usize>>> = BTreeMap::new();
        let mut epochs: BTreeMap<u32, BTreeMap<u64, BTreeSet<String>>> = BTreeMap::new();
        for n in 0..self.nodes.len() {
            let entries: Vec<(Option<u32>, Option<Vec<u8>>, Option<u64>)> =
                match self.nodes[n].model.peek_stream(&stream_key) {
                    None => Vec::new(),
                    Some(st) => st
                        .entries
                        .iter()
                        .map(|e| {
                            let mut h = None;
                            let mut d = None;
                            let mut ep = None;
                            for (f, v) in &e.fields {
                                match f.as_slice() {
                                    b"height" => {
                                        h = std::str::from_utf8(v).ok().and_then(|s| s.parse().ok())
                                    }
                                    b"data" => d = Some(v.clone()),
                                    b"epoch" => {
                                        ep = std::str::from_utf8(v).ok().and_then(|s| s.parse().ok())
                                    }
                                    _ => {}
                                }
                            }
                            (h, d, ep)
                        })
                        .collect(),
                };
            let mut max_h = 0u32;
            for (h, _, _) in &entries {
                if let Some(h) = h {
                    if *h < max_h && !self.unordered_append {
                        self.unordered_append = true;
                        self.probe("unordered_append");
                        self.ev(format!(
                            "n{n}: stream is no longer height-ordered (height {h} appended after {max_h})"
                        ));
                    }
                    max_h = max_h.max(*h);
                }
            }
            for (h, d, ep) in entries {
                let (Some(h), Some(d)) = (h, d) else { continue };
                let id = self.block_id_of(&d);
                present.entry(h).or_default().entry(id.clone()).or_default().insert(n);
                epochs.entry(h).or_default().entry(ep.unwrap_or(0)).or_default().insert(id);
            }
        }
        // did XTRIM evict an entry that a lagging replica still needs?
        let mut now_k: BTreeSet<(u32, String)> = BTreeSet::new();
        for (h, ids) in &present {
            for (id, nodes) in ids {
                if nodes.contains(&k) {
                    now_k.insert((*h, id.clone()));
                }
            }
        }
        let gone: Vec<(u32, String)> = self.stream_view[k].difference(&now_k).cloned().collect();
        if !gone.is_empty() {
            self.probe("stream_entry_trimmed");
            let min_db = self.dbs.iter().map(|d| d.height()).min().unwrap_or(0);
            if gone.iter().any(|(h, _)| *h > min_db) && !self.trim_outran_replica {
                self.trim_outran_replica = true;
                self.probe("trim_outran_a_replica");
                self.ev(format!(
                    "n{k}: XTRIM evicted {gone:?} while a replica is still at height {min_db}"
                ));
            }
        }
        self.stream_view[k] = now_k;
        let q = self.cfg.quorum;
        let mut bad: Option<String> = None;
        for (h, ids) in &present {
            let on_quorum: Vec<&String> =
                ids.iter().filter(|(_, nodes)| nodes.len() >= q).map(|(id, _)| id).collect();
            if on_quorum.len() > 1 {
                bad = Some(format!(
                    "height {h}: blocks {on_quorum:?} are each present on >= {q} of {} node streams ({ids:?})",
                    self.nodes.len()
                ));
                break;
            }
        }
        let over = self.cfg.over_budget;
        let class = if self.unordered_append {
            "two_blocks_on_quorum.after_unordered_append"
        } else {
            "two_blocks_on_quorum"
        };
        match bad {
            Some(d) if !over => self.check(class, false, || d),
            Some(_) => {
                self.probe("over_budget_two_blocks_on_quorum");
                self.check(class, true, String::new)
            }
            None => self.check(class, true, String::new),
        }
        // probe for the epoch-tie precondition (same height, same epoch, different ids)
        if epochs.values().any(|by_epoch| by_epoch.values().any(|ids| ids.len() > 1)) {
            self.probe("same_height_same_epoch_different_blocks");
        }
    }

    /// (a) every replica that commits height h commits the same block.
    pub fn commit_block(&mut self, replica: usize, block: SealedBlock, how: &str) {
        let id = short_id(&block);
        let h = u32::from(*block.entity.header().height());
        debug_assert_eq!(h, self.dbs[replica].height() + 1);
        self.dbs[replica].blocks.push((id.clone(), block));
        self.op(format!("r{replica} COMMIT h={h} {id} ({how})"));
        let first = self.committed.entry(h).or_insert_with(|| (id.clone(), replica)).clone();
        let over = self.cfg.over_budget;
        let ok = first.0 == id;
        if !ok && over {
            self.probe("over_budget_fork");
        }
        let class = if self.unordered_append {
            "replicas_committed_different_blocks.after_unordered_append"
        } else {
            "replicas_committed_different_blocks"
        };
        self.check(class, ok || over, || {
            format!(
                "height {h}: replica r{} committed {} but replica r{replica} committed {id} ({how})",
                first.1, first.0
            )
        });
    }
}

pub fn script_override_dir() -> Option<&'static str> {
    static DIR: OnceLock<Option<String>> = OnceLock::new();
    DIR.get_or_init(|| std::env::var("W6_SCRIPT_OVERRIDE").ok()).as_deref()
}

pub fn short_id(b: &SealedBlock) -> String {
    let id = b.entity.id();
    let bytes: &[u8] = id.as_ref();
    format!("b{:02x}{:02x}{:02x}{:02x}", bytes[0], bytes[1], bytes[2], bytes[3])
}

// ------------------------------------------------------------------------------------------
// Process-global plumbing: the hook object, the current run, the acceptor threads
// ------------------------------------------------------------------------------------------

struct Global {
    current: Mutex<Option<Arc<Shared>>>,
    sock_dir: PathBuf,
}

static GLOBAL: OnceLock<Arc<Global>> = OnceLock::new();

fn global() -> &'static Arc<Global> {
    GLOBAL.get_or_init(|| {
        let dir = std::env::temp_dir().join(format!("w6_ha.{}", std::process::id()));
        let _ = std::fs::remove_dir_all(&dir);
        std::fs::create_dir_all(&dir).expect("create socket dir");
        let g = Arc::new(Global { current: Mutex::new(None), sock_dir: dir.clone() });
        for k in 0..MAX_NODES {
            let path = dir.join(format!("n{k}.sock"));
            let listener = UnixListener::bind(&path).expect("bind unix socket");
            let g2 = g.clone();
            std::thread::Builder::new()
                .name(format!("w6-acceptor-{k}"))
                .spawn(move || acceptor_loop(g2, k, listener))
                .expect("spawn acceptor");
        }
        verif_hooks::install(Some(Arc::new(Hooks { g: g.clone() })));
        g
    })
}

pub fn node_url(k: usize) -> String {
    format!("redis+unix://{}", global().sock_dir.join(format!("n{k}.sock")).display())
}

fn node_of_addr(addr: &redis::ConnectionAddr) -> Option<usize> {
    match addr {
        redis::ConnectionAddr::Unix(p) => {
            let name = p.file_name()?.to_str()?;
            name.strip_prefix('n')?.strip_suffix(".sock")?.parse().ok()
        }
        _ => None,
    }
}

pub fn set_current(s: Option<Arc<Shared>>) {
    *global().current.lock().unwrap_or_else(|e| e.into_inner()) = s;
}

fn current(g: &Global) -> Option<Arc<Shared>> {
    g.current.lock().unwrap_or_else(|e| e.into_inner()).clone()
}

struct Hooks {
    g: Arc<Global>,
}

impl RedisSim for Hooks {
    fn connect(&self, addr: &redis::ConnectionAddr, owner: &str) -> Option<ConnectFuture> {
        let node = node_of_addr(addr)?;
        let shared = current(&self.g)?;
        let owner = owner.to_string();
        Some(Box::pin(async move { open_async(shared, node, owner).await }))
    }

    fn writer_start(
        &self,
        addr: &redis::ConnectionAddr,
        owner: &str,
        _node_index: usize,
        height: u32,
        epoch: u64,
    ) {
        let Some(node) = node_of_addr(addr) else { return };
        let Some(shared) = current(&self.g) else { return };
        let mut g = shared.lock();
        let n = g.cfg.n_nodes;
        let registered = g.writers.iter().filter(|w| w.owner == owner).count();
        let id = g.writers.len();
        let cv = Arc::new(Condvar::new());
        let crashed_now = g.owners.get(owner).map(|o| o.crashed).unwrap_or(true);
        g.writers.push(Writer {
            id,
            owner: owner.to_string(),
            node,
            height,
            epoch,
            call: (registered / n) as i64,
            state: WState::Parked,
            fate: Fate::Lost,
            post_crash: crashed_now,
            cv: cv.clone(),
        });
        shared.cv.notify_all();
        while g.writers[id].state == WState::Parked {
            g = cv.wait(g).unwrap_or_else(|e| e.into_inner());
        }
    }

    fn writer_done(&self, owner: &str, node_index: usize) {
        let Some(shared) = current(&self.g) else { return };
        let mut g = shared.lock();
        // the writer of this owner for this node that is currently granted
        let n_nodes = g.cfg.n_nodes;
        let _ = n_nodes;
        if let Some(w) = g
            .writers
            .iter_mut()
            .find(|w| w.owner == owner && w.state == WState::Granted && w.node == node_index)
        {
            w.state = WState::Done;
            let node = w.node;
            g.sync_current[node] = None;
        }
        shared.cv.notify_all();
    }

    fn publish_wait(&self, owner: &str, received: usize, _total: usize) {
        let Some(shared) = current(&self.g) else { return };
        let mut g = shared.lock();
        if let Some(f) = g.fibers.get_mut(owner) {
            if received == 0 {
                f.call += 1;
            }
            f.phase = Phase::SyncBlocked;
            f.seq += 1;
        }
        shared.cv.notify_all();
    }
}

// ------------------------------------------------------------------------------------------
// Blocking transport: Unix socket acceptors (serve the writer thread that holds the run)
// ------------------------------------------------------------------------------------------

fn acceptor_loop(g: Arc<Global>, k: usize, listener: UnixListener) {
    loop {
        let Ok((stream, _)) = listener.accept() else {
            continue;
        };
        let _ = stream.set_read_timeout(Some(Duration::from_secs(20)));
        let _ = stream.set_write_timeout(Some(Duration::from_secs(20)));
        serve_sync(&g, k, stream);
    }
}

fn serve_sync(g: &Global, k: usize, mut stream: UnixStream) {
    let Some(shared) = current(g) else { return };
    let (fate, origin) = {
        let mut gi = shared.lock();
        let Some(wid) = gi.sync_current[k] else {
            // a blocking connection nobody scheduled (e.g. lease release from a Drop outside
            // the runtime): unreachable node
            gi.probe("unscheduled_blocking_connection");
            return;
        };
        let w = &gi.writers[wid];
        let origin = format!("{}#w{}.{}", gi.owner_label(&w.owner), w.call, w.node);
        (w.fate, origin)
    };
    if fate == Fate::Lost {
        return; // connection closed before any reply: the node was unreachable
    }
    let mut buf: Vec<u8> = Vec::new();
    let mut tmp = [0u8; 8192];
    loop {
        loop {
            let (argv, used) = match resp::decode_command(&buf) {
                Ok(Some(x)) => x,
                Ok(None) => break,
                Err(_) => return,
            };
            buf.drain(..used);
            let name = String::from_utf8_lossy(&argv[0]).to_ascii_uppercase();
            let mut gi = shared.lock();
            let is_script_run = match name.as_str() {
                "EVAL" => true,
                "EVALSHA" => {
                    let sha = String::from_utf8_lossy(&argv[1]).into_owned();
                    gi.nodes[k].model.has_script(&sha)
                }
                _ => false,
            };
            let reply = if name == "CLIENT" {
                Some(Reply::Status("OK".into()))
            } else if !is_script_run {
                Some(gi.exec_on_node(k, &argv, &origin))
            } else {
                match fate {
                    Fate::Deliver => Some(gi.exec_on_node(k, &argv, &origin)),
                    Fate::ReplyLost => {
                        gi.exec_on_node(k, &argv, &origin);
                        gi.ev(format!("n{k} {origin}: reply lost"));
                        None
                    }
                    Fate::Delayed => {
                        let generation = gi.nodes[k].generation;
                        gi.ev(format!("n{k} {origin}: request delayed (client gives up)"));
                        gi.pending.push(PendingCmd {
                            node: k,
                            origin: format!("{origin}(late)"),
                            argv: argv.clone(),
                            generation,
                        });
                        None
                    }
                    Fate::Lost => None,
                }
            };
            drop(gi);
            match reply {
                Some(r) => {
                    let mut out = Vec::new();
                    resp::encode_reply(&r, &mut out);
                    if stream.write_all(&out).is_err() {
                        return;
                    }
                }
                None => return,
            }
        }
        match stream.read(&mut tmp) {
            Ok(0) | Err(_) => return,
            Ok(n) => buf.extend_from_slice(&tmp[..n]),
        }
    }
}

// ------------------------------------------------------------------------------------------
// Async transport: in-memory duplex + one server task per connection
// ------------------------------------------------------------------------------------------

enum AsyncFate {
    Normal { pre: u64, post: u64 },
    /// connection reset before / after the request executed
    ResetBefore,
    ResetAfter { pre: u64 },
    /// connection hangs (half-alive node): no reply ever
    HangBefore,
    HangAfter { pre: u64 },
    /// executes after the client's patience is over
    Late { delay: u64 },
}

fn draw_latency(g: &mut Inner) -> u64 {
    let max = g.cfg.max_latency_ms;
    if max == 0 || !g.faults_enabled {
        return g.tape.choose(2); // 0 or 1 ms: still varies completion order a little
    }
    // mostly 0, sometimes up to max
    match g.tape.choose(4) {
        0 | 1 => 0,
        2 => g.tape.choose(3),
        _ => g.tape.choose(max + 1),
    }
}

fn draw_async_fate(g: &mut Inner, owner: &str, node: usize) -> AsyncFate {
    if g.is_cut(owner, node) {
        return AsyncFate::HangBefore;
    }
    let pm = if g.faults_enabled { g.cfg.async_fault_pm } else { 0 };
    if pm > 0 && g.tape.chance(pm, 1000) {
        let pre = draw_latency(g);
        let kind = g.tape.choose(5);
        let (f, name): (AsyncFate, &'static str) = match kind {
            0 => (AsyncFate::HangBefore, "async_request_lost"),
            1 => (AsyncFate::HangAfter { pre }, "async_reply_lost"),
            2 => (AsyncFate::ResetBefore, "async_reset_before_exec"),
            3 => (AsyncFate::ResetAfter { pre }, "async_reset_after_exec"),
            _ => {
                // later than any client-side timeout (500ms response timeout of redis-rs)
                let extra = g.tape.choose(g.cfg.lease_ttl_ms * 2);
                (AsyncFate::Late { delay: 1001 + extra }, "async_late_execution")
            }
        };
        g.fault(name);
        return f;
    }
    let pre = draw_latency(g);
    let post = draw_latency(g);
    AsyncFate::Normal { pre, post }
}

pub fn sync_clock(g: &mut Inner, t0: tokio::time::Instant) {
    let now = tokio::time::Instant::now().saturating_duration_since(t0).as_millis() as u64;
    if now > g.now_ms {
        g.now_ms = now;
    }
    shim::SIM_NOW_MS.store(g.now_ms, std::sync::atomic::Ordering::SeqCst);
}

thread_local! {
    /// start instant of the run's paused clock (set on every thread that may read it)
    pub static T0: std::cell::Cell<Option<tokio::time::Instant>> = const { std::cell::Cell::new(None) };
}

fn touch_clock(g: &mut Inner) {
    if let Some(t0) = T0.with(|t| t.get()) {
        sync_clock(g, t0);
    }
}

async fn open_async(
    shared: Arc<Shared>,
    node: usize,
    owner: String,
) -> std::io::Result<Box<dyn SimStream>> {
    let refuse = {
        let mut g = shared.lock();
        touch_clock(&mut g);
        if g.is_cut(&owner, node) {
            // unreachable: either refused at once or the connect hangs until the timeout
            let hang = g.tape.coin();
            Some(hang)
        } else {
            None
        }
    };
    match refuse {
        Some(true) => {
            std::future::pending::<()>().await;
            unreachable!()
        }
        Some(false) => {
            return Err(std::io::Error::new(
                std::io::ErrorKind::ConnectionRefused,
                "simulated: node unreachable",
            ));
        }
        None => {}
    }
    let (client, server) = tokio::io::duplex(1 << 16);
    let (generation, label, t0) = {
        let mut g = shared.lock();
        g.async_conns += 1;
        let c = g.async_conns;
        (g.nodes[node].generation, format!("{}#c{}", g.owner_label(&owner), c), T0.with(|t| t.get()))
    };
    drop(tokio::spawn(serve_async(shared, node, owner, label, generation, server, t0)));
    Ok(Box::new(client))
}

async fn serve_async(
    shared: Arc<Shared>,
    node: usize,
    owner: String,
    label: String,
    generation: u64,
    mut stream: tokio::io::DuplexStream,
    t0: Option<tokio::time::Instant>,
) {
    // server tasks run on the runtime thread, whose T0 is set; keep a copy for safety
    if T0.with(|t| t.get()).is_none() {
        T0.with(|t| t.set(t0));
    }
    let mut buf: Vec<u8> = Vec::new();
    let mut tmp = [0u8; 8192];
    let hang = || std::future::pending::<()>();
    loop {
        loop {
            let (argv, used) = match resp::decode_command(&buf) {
                Ok(Some(x)) => x,
                Ok(None) => break,
                Err(_) => return,
            };
            buf.drain(..used);
            let name = String::from_utf8_lossy(&argv[0]).to_ascii_uppercase();
            let mut out = Vec::new();
            if name == "CLIENT" {
                resp::encode_reply(&Reply::Status("OK".into()), &mut out);
                if stream.write_all(&out).await.is_err() {
                    return;
                }
                continue;
            }
            let fate = {
                let mut g = shared.lock();
                touch_clock(&mut g);
                if g.nodes[node].generation != generation {
                    return; // the server process behind this connection is gone
                }
                draw_async_fate(&mut g, &owner, node)
            };
            let exec = |shared: &Arc<Shared>| -> Option<Reply> {
                let mut g = shared.lock();
                touch_clock(&mut g);
                if g.nodes[node].generation != generation {
                    return None;
                }
                Some(g.exec_on_node(node, &argv, &label))
            };
            let ms = |m: u64| tokio::time::sleep(Duration::from_millis(m));
            match fate {
                AsyncFate::Normal { pre, post } => {
                    if pre > 0 {
                        ms(pre).await;
                    }
                    let Some(r) = exec(&shared) else { return };
                    if post > 0 {
                        ms(post).await;
                    }
                    resp::encode_reply(&r, &mut out);
                    if stream.write_all(&out).await.is_err() {
                        return;
                    }
                }
                AsyncFate::ResetBefore => return,
                AsyncFate::ResetAfter { pre } => {
                    if pre > 0 {
                        ms(pre).await;
                    }
                    let _ = exec(&shared);
                    return;
                }
                AsyncFate::HangBefore => {
                    hang().await;
                }
                AsyncFate::HangAfter { pre } => {
                    if pre > 0 {
                        ms(pre).await;
                    }
                    let _ = exec(&shared);
                    hang().await;
                }
                AsyncFate::Late { delay } => {
                    ms(delay).await;
                    let Some(r) = exec(&shared) else { return };
                    {
                        let mut g = shared.lock();
                        g.probe("async_request_executed_late");
                    }
                    resp::encode_reply(&r, &mut out);
                    if stream.write_all(&out).await.is_err() {
                        return;
                    }
                }
            }
        }
        match stream.read(&mut tmp).await {
            Ok(0) | Err(_) => return,
            Ok(n) => buf.extend_from_slice(&tmp[..n]),
        }
    }
}

// ------------------------------------------------------------------------------------------
// Replica fibers: a future polled on its own OS thread, strictly alternating with the
// simulator thread. From tokio's point of view `FiberProxy` is an ordinary task.
// ------------------------------------------------------------------------------------------

pub type FiberFuture = Pin<Box<dyn Future<Output = ()>>>;

pub struct FiberProxy {
    shared: Arc<Shared>,
    owner: String,
}

/// Wait until every replica that is blocked in a multi-node publish has all of its writer
/// threads registered (they are spawned by real code and reach the hook on their own).
pub fn settle<'a>(shared: &'a Shared, mut g: MutexGuard<'a, Inner>) -> MutexGuard<'a, Inner> {
    loop {
        let n = g.cfg.n_nodes;
        let mut missing = false;
        for (owner, f) in g.fibers.iter() {
            if f.phase == Phase::SyncBlocked {
                let have =
                    g.writers.iter().filter(|w| &w.owner == owner && w.call == f.call).count();
                if have < n {
                    missing = true;
                }
            }
        }
        if !missing {
            return g;
        }
        g = shared.wait(g);
    }
}

impl Future for FiberProxy {
    type Output = ();
    fn poll(self: Pin<&mut Self>, cx: &mut Context<'_>) -> Poll<()> {
        let shared = self.shared.clone();
        let mut g = shared.lock();
        let Some(f) = g.fibers.get_mut(&self.owner) else {
            return Poll::Ready(());
        };
        match f.phase {
            Phase::Done => Poll::Ready(()),
            Phase::SyncBlocked => {
                f.waker = Some(cx.waker().clone());
                Poll::Pending
            }
            Phase::Running => unreachable!("fiber polled while running"),
            Phase::Idle => {
                f.waker = Some(cx.waker().clone());
                f.phase = Phase::Running;
                let seq0 = f.seq;
                let fcv = f.cv.clone();
                touch_clock(&mut g);
                fcv.notify_all();
                loop {
                    g = shared.wait(g);
                    if g.fibers[&self.owner].seq != seq0 {
                        break;
                    }
                }
                g = settle(&shared, g);
                if g.fibers[&self.owner].phase == Phase::Done {
                    Poll::Ready(())
                } else {
                    Poll::Pending
                }
            }
        }
    }
}

/// Start a fiber for the incarnation `owner`. `make` runs on the fiber thread and builds the
/// future (so the future need not be `Send`).
pub fn spawn_fiber(
    shared: &Arc<Shared>,
    owner: &str,
    replica: usize,
    rng_stream: u64,
    make: Box<dyn FnOnce() -> FiberFuture + Send>,
) -> (FiberProxy, std::thread::JoinHandle<()>) {
    {
        let mut g = shared.lock();
        g.fibers.insert(
            owner.to_string(),
            FiberSt {
                phase: Phase::Idle,
                seq: 0,
                waker: None,
                kill: false,
                panic: None,
                call: -1,
                replica,
                cv: Arc::new(Condvar::new()),
            },
        );
    }
    let handle = tokio::runtime::Handle::current();
    let t0 = T0.with(|t| t.get());
    let sh = shared.clone();
    let own = owner.to_string();
    let jh = std::thread::Builder::new()
        .name(format!("w6-fiber-{owner}"))
        .spawn(move || {
            let _enter = handle.enter();
            T0.with(|t| t.set(t0));
            shim::set_thread_rng_stream(rng_stream);
            shim::set_thread_sim_monotonic(true);
            let mut fut: Option<FiberFuture> = None;
            let mut make = Some(make);
            loop {
                let waker = {
                    let mut g = sh.lock();
                    let fcv = g.fibers.get(&own).expect("fiber state").cv.clone();
                    loop {
                        let f = g.fibers.get(&own).expect("fiber state");
                        if f.kill || f.phase == Phase::Running {
                            break;
                        }
                        g = fcv.wait(g).unwrap_or_else(|e| e.into_inner());
                    }
                    let f = g.fibers.get(&own).unwrap();
                    if f.kill && f.phase != Phase::Running {
                        None
                    } else {
                        Some(f.waker.clone().expect("waker"))
                    }
                };
                let Some(waker) = waker else {
                    // killed at an await point: drop the future here, inside the runtime
                    // context (the adapter's Drop spawns its release task)
                    let r = std::panic::catch_unwind(std::panic::AssertUnwindSafe(|| {
                        drop(fut.take());
                        drop(make.take());
                    }));
                    let mut g = sh.lock();
                    let f = g.fibers.get_mut(&own).unwrap();
                    if let Err(p) = r {
                        f.panic = Some(p);
                    }
                    f.phase = Phase::Done;
                    f.seq += 1;
                    sh.cv.notify_all();
                    return;
                };
                let r = std::panic::catch_unwind(std::panic::AssertUnwindSafe(|| {
                    if fut.is_none() {
                        fut = Some((make.take().expect("make"))());
                    }
                    let mut cx = Context::from_waker(&waker);
                    let p = fut.as_mut().unwrap().as_mut().poll(&mut cx);
                    if p.is_ready() {
                        drop(fut.take());
                    }
                    p
                }));
                let mut g = sh.lock();
                let f = g.fibers.get_mut(&own).unwrap();
                let done = match r {
                    Ok(Poll::Pending) => {
                        f.phase = Phase::Idle;
                        false
                    }
                    Ok(Poll::Ready(())) => {
                        f.phase = Phase::Done;
                        true
                    }
                    Err(p) => {
                        f.panic = Some(p);
                        f.phase = Phase::Done;
                        true
                    }
                };
                f.seq += 1;
                sh.cv.notify_all();
                if done {
                    return;
                }
            }
        })
        .expect("spawn fiber");
    (FiberProxy { shared: shared.clone(), owner: owner.to_string() }, jh)
}

/// Kill an idle fiber (process crash at an await point). Returns false if it is not idle.
pub fn kill_fiber(shared: &Arc<Shared>, owner: &str) -> bool {
    let mut g = shared.lock();
    let Some(f) = g.fibers.get_mut(owner) else { return false };
    if f.phase != Phase::Idle {
        return false;
    }
    f.kill = true;
    let waker = f.waker.take();
    f.cv.notify_all();
    while g.fibers[owner].phase != Phase::Done {
        g = shared.wait(g);
    }
    drop(g);
    if let Some(w) = waker {
        w.wake();
    }
    true
}

/// Let the parked writer `wid` run with `fate` and wait until it (and, if the publishing
/// thread is still waiting for it, that thread) has come to rest again.
pub fn deliver_writer(shared: &Arc<Shared>, wid: usize, fate: Fate) {
    let mut g = shared.lock();
    touch_clock(&mut g);
    assert_eq!(g.writers[wid].state, WState::Parked);
    let owner = g.writers[wid].owner.clone();
    let node = g.writers[wid].node;
    let call = g.writers[wid].call;
    // requests that were in flight when their process crashed may still arrive; requests
    // "sent" after the crash, or across a partition, never do
    let replica = g.owners.get(&owner).map(|o| o.replica);
    let cut = g.writers[wid].post_crash
        || replica.map(|r| g.partitions.contains(&(r, node))).unwrap_or(true);
    let fate = if cut { Fate::Lost } else { fate };
    g.writers[wid].fate = fate;
    g.writers[wid].state = WState::Granted;
    g.sync_current[node] = Some(wid);
    let (alive, seq0) = match g.fibers.get(&owner) {
        Some(f) => (f.phase == Phase::SyncBlocked && f.call == call, f.seq),
        None => (false, 0),
    };
    g.writers[wid].cv.notify_all();
    while g.writers[wid].state != WState::Done {
        g = shared.wait(g);
    }
    if alive {
        while g.fibers[&owner].seq == seq0 {
            g = shared.wait(g);
        }
        g = settle(shared, g);
        // the publishing thread may have finished its poll: wake its proxy task
        let f = g.fibers.get_mut(&owner).unwrap();
        if f.phase != Phase::SyncBlocked {
            if let Some(w) = f.waker.clone() {
                drop(g);
                w.wake();
                return;
            }
        }
    }
    drop(g);
}
